//! C20 — format-string parsing yields the arguments the format consumes.
//! Shape E: token sequences (literal text, `%%` escapes, conversion specifications of the
//! supported grammar) rendered to a string, parsed by the real
//! `parse_format_string_parameters`, and compared with an independent tokenizer + the
//! documented conversion table.

use mcx::{catch, par_for, Ctx};
use props::ccl::intermediate_representation::*;
use props::ccl::utils::arguments::parse_format_string_parameters;
use serde::{Deserialize, Serialize};
use serde_json::json;

#[derive(Serialize, Deserialize, Clone, Debug, PartialEq)]
enum Tok {
    /// literal text without '%'
    Lit(String),
    /// "%%"
    Escape,
    /// "%" flag width precision conversion
    Spec { flag: String, width: String, precision: String, conv: String },
}

#[derive(Serialize, Deserialize, Clone, Debug)]
struct Case {
    tokens: Vec<Tok>,
    /// 0 = x86_64-like sizes, 1 = pairwise distinct sizes
    sizes: usize,
}

fn render(tokens: &[Tok]) -> String {
    let mut s = String::new();
    for t in tokens {
        match t {
            Tok::Lit(l) => s.push_str(l),
            Tok::Escape => s.push_str("%%"),
            Tok::Spec { flag, width, precision, conv } => {
                s.push('%');
                s.push_str(flag);
                s.push_str(width);
                s.push_str(precision);
                s.push_str(conv);
            }
        }
    }
    s
}

fn sizes(which: usize) -> DatatypeProperties {
    let b = ByteSize::new;
    match which {
        0 => DatatypeProperties {
            char_size: b(1),
            double_size: b(8),
            float_size: b(4),
            integer_size: b(4),
            long_double_size: b(16),
            long_long_size: b(8),
            long_size: b(8),
            pointer_size: b(8),
            short_size: b(2),
        },
        _ => DatatypeProperties {
            char_size: b(1),
            double_size: b(9),
            float_size: b(5),
            integer_size: b(3),
            long_double_size: b(17),
            long_long_size: b(11),
            long_size: b(7),
            pointer_size: b(13),
            short_size: b(2),
        },
    }
}

// ---------------------------------------------------------------- reference

/// The conversion / length forms of the supported grammar.
const SINGLE: &str = "cCdiouxXeEfFgGaAnpsS";
const WITH_LENGTH: [&str; 25] = [
    "hi", "hd", "hu", "li", "ld", "lu", "lli", "lld", "llu", "lf", "lg", "le", "la", "lF", "lG", "lE", "lA", "Lf", "Lg", "Le", "La", "LF", "LG", "LE", "LA",
];

#[derive(Debug, PartialEq, Clone, Copy)]
enum RefType {
    /// char, promoted to int
    Char,
    Int,
    Pointer,
    Double,
    /// long / long long / long double: the whole string must be rejected
    Unsupported,
}

/// The documented table: c,C -> char (int-sized); d,i,u,o,p,x,X,h* -> int; s,S,n -> pointer;
/// floats (also with `l`) -> double; l{i,d,u}, ll*, L* -> not parsable.
fn ref_type(conv: &str) -> RefType {
    let mut ch = conv.chars();
    let first = ch.next().unwrap();
    let rest: String = ch.collect();
    match (first, rest.as_str()) {
        ('c', "") | ('C', "") => RefType::Char,
        ('s', "") | ('S', "") | ('n', "") => RefType::Pointer,
        ('d', "") | ('i', "") | ('u', "") | ('o', "") | ('p', "") | ('x', "") | ('X', "") => RefType::Int,
        ('e', "") | ('E', "") | ('f', "") | ('F', "") | ('g', "") | ('G', "") | ('a', "") | ('A', "") => RefType::Double,
        ('h', _) => RefType::Int,
        ('L', _) => RefType::Unsupported,
        ('l', r) if r.starts_with('l') => RefType::Unsupported,
        ('l', "i") | ('l', "d") | ('l', "u") => RefType::Unsupported,
        ('l', _) => RefType::Double,
        _ => mcx::machinery(&format!("C20 reference: conversion {conv} outside the grammar")),
    }
}

/// Independent tokenizer for the rendered string (printf reading: a '%' starts either "%%" or a
/// conversion specification `% [flag] [digits] [. digits] conversion`).
fn tokenize(s: &str) -> Result<Vec<Tok>, String> {
    let c: Vec<char> = s.chars().collect();
    let mut i = 0;
    let mut out: Vec<Tok> = Vec::new();
    let mut lit = String::new();
    while i < c.len() {
        if c[i] != '%' {
            lit.push(c[i]);
            i += 1;
            continue;
        }
        if !lit.is_empty() {
            out.push(Tok::Lit(std::mem::take(&mut lit)));
        }
        i += 1;
        if i < c.len() && c[i] == '%' {
            out.push(Tok::Escape);
            i += 1;
            continue;
        }
        let mut flag = String::new();
        if i < c.len() && "+-#0".contains(c[i]) {
            flag.push(c[i]);
            i += 1;
        }
        let mut width = String::new();
        while i < c.len() && c[i].is_ascii_digit() {
            width.push(c[i]);
            i += 1;
        }
        let mut precision = String::new();
        if i < c.len() && c[i] == '.' {
            precision.push('.');
            i += 1;
            while i < c.len() && c[i].is_ascii_digit() {
                precision.push(c[i]);
                i += 1;
            }
        }
        // conversion: optional length (h, l, ll, L) followed by one letter
        let start = i;
        let mut len = 0;
        if i < c.len() && (c[i] == 'h' || c[i] == 'L') {
            len = 1;
        } else if i < c.len() && c[i] == 'l' {
            len = if i + 1 < c.len() && c[i + 1] == 'l' { 2 } else { 1 };
        }
        if start + len >= c.len() {
            return Err(format!("dangling conversion at {start}"));
        }
        let conv: String = c[start..=start + len].iter().collect();
        let known = if len == 0 { SINGLE.contains(conv.as_str()) } else { WITH_LENGTH.contains(&conv.as_str()) };
        if !known {
            return Err(format!("unknown conversion {conv}"));
        }
        i = start + len + 1;
        out.push(Tok::Spec { flag, width, precision, conv });
    }
    if !lit.is_empty() {
        out.push(Tok::Lit(lit));
    }
    Ok(out)
}

/// Join adjacent literals so that generated and re-tokenized sequences are comparable.
fn normalize(tokens: &[Tok]) -> Vec<Tok> {
    let mut out: Vec<Tok> = Vec::new();
    for t in tokens {
        match (out.last_mut(), t) {
            (_, Tok::Lit(b)) if b.is_empty() => {}
            (Some(Tok::Lit(a)), Tok::Lit(b)) => a.push_str(b),
            _ => out.push(t.clone()),
        }
    }
    out
}

#[derive(Debug, PartialEq, Clone)]
enum Res {
    Rejected,
    Args(Vec<(String, u64)>),
}

fn expected(tokens: &[Tok], props: &DatatypeProperties) -> Res {
    let mut args = Vec::new();
    for t in tokens {
        if let Tok::Spec { conv, .. } = t {
            match ref_type(conv) {
                RefType::Unsupported => return Res::Rejected,
                RefType::Char => args.push(("Char".to_string(), u64::from(props.integer_size))),
                RefType::Int => args.push(("Integer".to_string(), u64::from(props.integer_size))),
                RefType::Pointer => args.push(("Pointer".to_string(), u64::from(props.pointer_size))),
                RefType::Double => args.push(("Double".to_string(), u64::from(props.double_size))),
            }
        }
    }
    Res::Args(args)
}

fn run_case(ctx: &Ctx, case: &Case) {
    let text = render(&case.tokens);
    // the generator and the independent tokenizer must agree on what the string means
    match tokenize(&text) {
        Ok(t) if t == normalize(&case.tokens) => {}
        other => mcx::machinery(&format!("C20: tokenizer disagrees with generator on {text:?}: {other:?}")),
    }
    let props = sizes(case.sizes);
    let want = expected(&case.tokens, &props);
    let got = catch(|| parse_format_string_parameters(&text, &props));
    ctx.add_transitions(1);
    let has_escape = case.tokens.contains(&Tok::Escape);
    let ctx_word = if has_escape { "with %% escape" } else { "without escape" };
    let report = |class: &str, obs: String| {
        ctx.violation(
            format!("parse_format_string_parameters: {class} ({ctx_word})"),
            serde_json::to_value(case).unwrap(),
            json!({"format_string": text, "observed": obs, "expected": format!("{want:?}")}),
        );
    };
    match got {
        Err(p) => {
            ctx.violation(
                format!("parse_format_string_parameters: panic {}", mcx::panic_site(&p)),
                serde_json::to_value(case).unwrap(),
                json!({"format_string": text, "observed": format!("panic: {p}"), "expected": format!("{want:?}")}),
            );
        }
        Ok(Err(e)) => {
            ctx.outcome(&("rejected", 0usize));
            if want != Res::Rejected {
                report("rejects a string without long/long long/long double conversions", format!("Err({e})"));
            }
        }
        Ok(Ok(list)) => {
            let got: Vec<(String, u64)> = list.iter().map(|(d, s)| (format!("{d:?}"), u64::from(*s))).collect();
            ctx.outcome(&("args", got.len()));
            match &want {
                Res::Rejected => report("accepts a string with a long/long long/long double conversion", format!("{got:?}")),
                Res::Args(w) => {
                    if got.len() > w.len() {
                        report("more arguments than argument-consuming conversions", format!("{got:?}"));
                    } else if got.len() < w.len() {
                        report("fewer arguments than argument-consuming conversions", format!("{got:?}"));
                    } else if &got != w {
                        report("wrong data type or size", format!("{got:?}"));
                    }
                }
            }
        }
    }
}

fn lit(s: &str) -> Tok {
    Tok::Lit(s.to_string())
}
fn spec(flag: &str, width: &str, precision: &str, conv: &str) -> Tok {
    Tok::Spec { flag: flag.into(), width: width.into(), precision: precision.into(), conv: conv.into() }
}

fn all_convs() -> Vec<String> {
    let mut v: Vec<String> = SINGLE.chars().map(|c| c.to_string()).collect();
    v.extend(WITH_LENGTH.iter().map(|s| s.to_string()));
    v
}

fn main() {
    std::env::set_var("RUST_LIB_BACKTRACE", "0");
    let ctx = Ctx::new("C20");
    if let Some(c) = ctx.replay_case() {
        let case: Case = serde_json::from_value(c.clone()).unwrap_or_else(|e| mcx::machinery(&format!("bad case: {e}")));
        run_case(&ctx, &case);
        ctx.finish("replay of one case", false);
    }
    let ctx = &ctx;
    // reference self-check: the table covers every conversion of the grammar
    for c in all_convs() {
        let _ = ref_type(&c);
    }

    // ---- layer 1: every conversion specification, alone and embedded between literals
    let flags = ["", "+", "-", "#", "0"];
    let widths = ["", "5", "10"];
    let precisions = ["", ".", ".3"];
    let convs = all_convs();
    let contexts: Vec<(Vec<Tok>, Vec<Tok>)> = vec![
        (vec![], vec![]),
        (vec![lit("ab ")], vec![lit(" cd")]),
        (vec![lit("5")], vec![lit("5")]),
        (vec![lit("l")], vec![lit("l")]),
        (vec![lit("d")], vec![lit("d")]),
        (vec![lit("-")], vec![lit(".")]),
        (vec![Tok::Escape], vec![Tok::Escape]),
        (vec![lit("100"), Tok::Escape], vec![lit("h")]),
    ];
    let mut specs = Vec::new();
    for f in flags {
        for w in widths {
            for p in precisions {
                for c in &convs {
                    specs.push(spec(f, w, p, c));
                }
            }
        }
    }
    ctx.stat("layer1_specifications", specs.len() as u64);
    let n1 = specs.len() as u64 * contexts.len() as u64 * 2;
    par_for(n1, 16, |i| {
        let d = mcx::space::decode(i, &[specs.len() as u64, contexts.len() as u64, 2]);
        let (pre, post) = &contexts[d[1]];
        let mut tokens = pre.clone();
        tokens.push(specs[d[0]].clone());
        tokens.extend(post.iter().cloned());
        let case = Case { tokens, sizes: d[2] };
        ctx.sample(|| serde_json::to_value(&case).unwrap());
        run_case(ctx, &case);
        ctx.add_states(1);
        ctx.add_nontrivial((d[1] >= 6) as u64);
    });

    // ---- layer 2: all token sequences up to a length over literals that look like parts of a
    //      specification, the escape, and 12 representative specifications
    let alphabet: Vec<Tok> = vec![
        lit("a"),
        lit("d"),
        lit(" "),
        lit("5"),
        lit("l"),
        lit("-"),
        Tok::Escape,
        spec("", "", "", "d"),
        spec("", "", "", "c"),
        spec("", "", "", "s"),
        spec("", "", "", "f"),
        spec("", "", "", "lf"),
        spec("", "", "", "hd"),
        spec("", "", "", "ld"),
        spec("", "", "", "llu"),
        spec("", "", "", "Lg"),
        spec("-", "5", "", "i"),
        spec("+", "", ".3", "e"),
        spec("#", "10", "", "x"),
    ];
    let k = alphabet.len() as u64;
    let max_len: u32 = if ctx.thorough() { 5 } else { 4 };
    let n2 = mcx::space::seq_count(k, max_len);
    par_for(n2, 64, |i| {
        let seq = mcx::space::seq_decode(i, k, max_len);
        let tokens: Vec<Tok> = seq.iter().map(|&t| alphabet[t].clone()).collect();
        // non-trivial: an escape directly followed by something that is not the end of the string
        let nontrivial = tokens.windows(2).any(|w| w[0] == Tok::Escape);
        // the second size table only for sequences up to length 3 (the size table does not interact with tokenisation)
        let tables = if seq.len() <= 3 { 2 } else { 1 };
        for sizes in 0..tables {
            let case = Case { tokens: tokens.clone(), sizes };
            ctx.sample(|| serde_json::to_value(&case).unwrap());
            run_case(ctx, &case);
            ctx.add_states(1);
            ctx.add_nontrivial(nontrivial as u64);
        }
    });
    ctx.set(
        "bounds",
        json!({
            "layer1": format!("all {} specifications: flag in {{none,+,-,#,0}} x width in {{none,5,10}} x precision in {{none,'.','.3'}} x all {} conversion/length forms, in {} literal/escape contexts, 2 size tables", specs.len(), convs.len(), contexts.len()),
            "layer2": format!("all sequences of <= {max_len} tokens over {k} tokens (6 literals a,d,' ',5,l,-; the escape; 12 specifications)"),
        }),
    );
    ctx.assume("format strings are sequences of literal text without '%', '%%' and specifications of the supported grammar (anything else is outside the property)");
    ctx.assume("the documented table is taken as the specification: %p counts as an int-sized Integer, %c/%C as Char with the size of int");
    ctx.finish(
        "one case = one token sequence rendered to a format string + a size table; the real parse_format_string_parameters result is compared with the reference list (one entry per specification, documented type and size; whole string rejected iff it contains a long/long long/long double conversion); non-trivial = an escape followed by further text (layer 2) / a specification next to an escape (layer 1)",
        true,
    );
}
