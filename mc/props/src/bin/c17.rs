//! C17 — reachability-based checkers follow their path specification.
//!
//! Statement: the TOCTOU check (CWE367) reports a (check, use) pair at a call to the
//! check function exactly when a call to the use function is reachable from it along
//! intraprocedural control flow without passing another call to the check function.
//! The chroot check (CWE243) reports a chroot call exactly when no chdir call is
//! reachable after it in that sense and its function does not call both chdir and a
//! privilege-dropping function (or when chdir is not imported at all); it handles
//! every program without failing.
//!
//! Shape E. Enumerated: every function with <= 3 blocks (thorough: 4) whose blocks end in
//! nothing / return / jump / conditional pair / direct call — WITH and WITHOUT return
//! target — to `check`, `use`, `chroot`, `chdir`, `setuid`, `other` (imported), to the
//! function itself or to a second function taken from a list of callee shapes
//! (thorough: additionally every second function with <= 2 blocks over the same
//! alphabet); plus a *forward slice*: functions with 5 (thorough: also 6) blocks whose
//! targets only go forward (a DAG) over the reduced alphabet none / return / jump / every
//! ordered conditional pair / call source -> r / call sink -> r / call sink without
//! return, once for (check, use) and once for (chroot, chdir) — deep enough for a join
//! block behind a second source call; import table with and without `chdir`; every listed configuration of
//! the two checks. Each raw program goes through the real `normalize_basic` (and, as a
//! second variant, `normalize_basic` + `normalize_optimize`, which is what the tool's
//! pipeline hands to the checks), the real `get_program_cfg`, and the real
//! `CWE_MODULE.run` of both checks.
//!
//! Oracle: reference reachability computed from the case description alone
//! (`shared/c17_model.rs`). An internal call is passed only if the callee returns; the
//! statement does not say whether that means "a return is reachable from the callee's
//! entry" or "the callee contains a return", so a warning is demanded when a sink is
//! reachable in the strict reading, forbidden when none is reachable in the liberal
//! reading, and not judged in between.
//!
//! Judged: number of warnings, the call each warning belongs to, that the reported sink
//! (CWE367) is one of the reachable sink calls, panics. Not judged: description wording,
//! version, how the place of the check call is named (call, its block, or the place it
//! returns to), order of warnings, log messages.

#[path = "../shared/c17_model.rs"]
mod c17_model;

use c17_model::*;
use mcx::{catch, panic_site, par_for, Ctx};
use props::ccl::analysis::graph::get_program_cfg;
use props::ccl::checkers::{cwe_243, cwe_367};
use props::ccl::intermediate_representation::*;
use props::ccl::pipeline::AnalysisResults;
use props::ccl::utils::log::CweWarning;
use props::irb::render;
use serde_json::{json, Value};
use std::collections::BTreeSet;

/// CWE367 configurations: lists of (source, sink) names. `absent` is not imported.
const PAIR_CONFIGS: [&[(&str, &str)]; 6] = [
    &[("check", "use")],
    &[("use", "check")],
    &[],
    &[("check", "use"), ("use", "check")],
    &[("check", "absent")],
    &[("absent", "use")],
];
/// CWE243 configurations: privilege dropping function names. `seteuid` is not imported.
const PRIV_CONFIGS: [&[&str]; 3] = [&[], &["setuid"], &["seteuid", "setuid"]];

fn case_json(case: &Case) -> Value {
    serde_json::to_value(case).unwrap()
}

/// Rendering the program for the detail of a violation is the expensive part of reporting; after
/// many violations (only the first 25 per class are kept anyway) the rendering is skipped. The
/// case itself is always recorded, `--replay` reproduces the full detail.
static VIOLATIONS_REPORTED: std::sync::atomic::AtomicU64 = std::sync::atomic::AtomicU64::new(0);
fn render_for_detail(project: &Project) -> String {
    if VIOLATIONS_REPORTED.fetch_add(1, std::sync::atomic::Ordering::Relaxed) < 5000 {
        render(project)
    } else {
        "(omitted: more than 5000 violations in this run; replay the case)".to_string()
    }
}

/// Run one check on the prepared analysis results; `Err` = panic message.
fn run_check(run: fn(&AnalysisResults, &Value) -> (Vec<props::ccl::utils::log::LogMessage>, Vec<CweWarning>), results: &AnalysisResults, config: &Value) -> Result<Vec<CweWarning>, String> {
    catch(|| run(results, config).1)
}

/// Identifiers under which a warning may name the call in block `b` of `f` returning to `ret`.
fn place_names(flow: &Flow, f: usize, b: usize, ret: Option<usize>) -> BTreeSet<String> {
    let mut s = BTreeSet::new();
    s.insert(format!("{}", blk_tid(f, b)));
    s.insert(format!("{}", jmp_tid(f, b, 0)));
    if let Some(r) = ret {
        for x in flow.return_chain(f, r) {
            s.insert(format!("{}", blk_tid(f, x)));
        }
    }
    s
}

/// Find an injective assignment warning -> source call (`cand[w]` = admissible calls).
fn assign(cand: &[Vec<usize>], w: usize, used: &mut Vec<bool>, must: &[bool]) -> bool {
    if w == cand.len() {
        return must.iter().enumerate().all(|(e, m)| !*m || used[e]);
    }
    for &e in &cand[w] {
        if !used[e] {
            used[e] = true;
            if assign(cand, w + 1, used, must) {
                return true;
            }
            used[e] = false;
        }
    }
    false
}

fn judge_toctou(ctx: &Ctx, case: &Case, flow: &Flow, project: &Project, pairs: &[(&str, &str)], got: Result<Vec<CweWarning>, String>) -> (usize, usize) {
    let detail = |extra: Value| json!({"check": "CWE367", "pairs": pairs, "program_seen_by_check": render_for_detail(project), "info": extra});
    let warnings = match got {
        Err(p) => {
            ctx.violation(format!("cwe367 panic {}", panic_site(&p)), case_json(case), detail(json!({"panic": p})));
            return (0, 0);
        }
        Ok(w) => w,
    };
    let mut rest: Vec<&CweWarning> = warnings.iter().collect();
    let mut demanded = 0;
    for (src, snk) in pairs {
        // warnings of this pair
        let (mine, other): (Vec<&CweWarning>, Vec<&CweWarning>) = rest.into_iter().partition(|w| w.symbols == vec![src.to_string(), snk.to_string()]);
        rest = other;
        let (Some(source), Some(sink)) = (Callee::from_name(src), Callee::from_name(snk)) else {
            if !mine.is_empty() {
                ctx.violation("cwe367 spurious-warning (symbol not imported)", case_json(case), detail(json!({"pair": [src, snk], "warnings": mine.len()})));
            }
            continue;
        };
        let exp = toctou_expectation(flow, source, sink);
        let must: Vec<bool> = exp.iter().map(|e| !e.strict.is_empty()).collect();
        demanded += must.iter().filter(|m| **m).count();
        ctx.stat("cwe367_source_calls_open", exp.iter().filter(|e| e.strict.is_empty() && !e.liberal.is_empty()).count() as u64);
        let names: Vec<BTreeSet<String>> = exp.iter().map(|e| place_names(flow, e.f, e.block, e.ret)).collect();
        let mut cand: Vec<Vec<usize>> = Vec::new();
        let mut verdict: Option<(&str, Value)> = None;
        for w in &mine {
            if w.name != "CWE367" || w.tids.len() != 2 {
                verdict = Some(("cwe367 malformed-warning", json!({"warning": format!("{w:?}")})));
                break;
            }
            let place_ok: Vec<usize> = (0..exp.len()).filter(|e| names[*e].contains(&w.tids[0])).collect();
            let full: Vec<usize> = place_ok.iter().copied().filter(|e| exp[*e].liberal.iter().any(|s| format!("{}", jmp_tid(exp[*e].f, *s, 0)) == w.tids[1])).collect();
            if full.is_empty() {
                let class = if place_ok.iter().any(|e| !exp[*e].liberal.is_empty()) { "cwe367 wrong-sink" } else { "cwe367 spurious-warning" };
                verdict = Some((class, json!({"warning_tids": w.tids, "pair": [src, snk]})));
                break;
            }
            cand.push(full);
        }
        if verdict.is_none() {
            let mut used = vec![false; exp.len()];
            if !assign(&cand, 0, &mut used, &must) {
                // which demanded call is not covered by any warning?
                let uncovered: Vec<usize> = (0..exp.len()).filter(|e| must[*e] && !cand.iter().any(|c| c.contains(e))).collect();
                if let Some(e) = uncovered.first() {
                    let e = &exp[*e];
                    let only_noreturn_sinks = e.strict.iter().all(|s| matches!(flow.case.funs[e.f][*s], T::Call(_, None)));
                    let class = if only_noreturn_sinks { "cwe367 missing-warning (every reachable sink call lacks a return target)" } else { "cwe367 missing-warning" };
                    verdict = Some((class, json!({"pair": [src, snk], "source_call": format!("{}", jmp_tid(e.f, e.block, 0)), "reachable_sink_blocks": e.strict.iter().map(|s| format!("{}", blk_tid(e.f, *s))).collect::<Vec<_>>(), "warnings": mine.iter().map(|w| w.tids.clone()).collect::<Vec<_>>()})));
                } else {
                    verdict = Some(("cwe367 duplicate-warning", json!({"pair": [src, snk], "warnings": mine.iter().map(|w| w.tids.clone()).collect::<Vec<_>>()})));
                }
            }
        }
        if let Some((class, info)) = verdict {
            ctx.violation(class, case_json(case), detail(info));
        }
    }
    if !rest.is_empty() {
        ctx.violation("cwe367 spurious-warning (pair not configured)", case_json(case), detail(json!({"warnings": rest.iter().map(|w| w.symbols.clone()).collect::<Vec<_>>()})));
    }
    (warnings.len(), demanded)
}

fn judge_chroot(ctx: &Ctx, case: &Case, flow: &Flow, project: &Project, privs: &[&str], got: Result<Vec<CweWarning>, String>) -> (usize, usize) {
    let detail = |extra: Value| json!({"check": "CWE243", "priviledge_dropping_functions": privs, "chdir_imported": case.chdir_imported, "program_seen_by_check": render_for_detail(project), "info": extra});
    let imported_privs: Vec<Callee> = privs.iter().filter_map(|p| Callee::from_name(p)).collect();
    let exp = chroot_expectation(flow, &imported_privs);
    let demanded = exp.iter().filter(|e| e.demand == Demand::Warn).count();
    ctx.stat("cwe243_chroot_calls_open", exp.iter().filter(|e| e.demand == Demand::Open).count() as u64);
    let warnings = match got {
        Err(p) => {
            // which kind of chroot call is in the program (for the class only)
            let no_ret = exp.iter().any(|e| e.ret.is_none());
            ctx.violation(
                format!("cwe243 panic {}{}", panic_site(&p), if no_ret { " (a chroot call lacks a return target)" } else { "" }),
                case_json(case),
                detail(json!({"panic": p, "expected_warnings": demanded})),
            );
            return (0, demanded);
        }
        Ok(w) => w,
    };
    let mut seen: Vec<String> = Vec::new();
    for w in &warnings {
        if w.name != "CWE243" || w.tids.len() != 1 {
            ctx.violation("cwe243 malformed-warning", case_json(case), detail(json!({"warning": format!("{w:?}")})));
            return (warnings.len(), demanded);
        }
        seen.push(w.tids[0].clone());
    }
    for e in &exp {
        let id = format!("{}", jmp_tid(e.f, e.block, 0));
        let n = seen.iter().filter(|s| **s == id).count();
        seen.retain(|s| *s != id);
        let info = || json!({"chroot_call": id, "warnings_for_it": n, "return_target": e.ret.map(|r| format!("{}", blk_tid(e.f, r)))});
        match (e.demand, n) {
            (Demand::Warn, 0) => ctx.violation("cwe243 missing-warning", case_json(case), detail(info())),
            (Demand::NoWarn, 1) => {
                // class: is the only reason for the demanded silence a chdir call without return target?
                let only_noreturn = !e.both && e.strict.iter().all(|s| matches!(flow.case.funs[e.f][*s], T::Call(_, None)));
                let class = if only_noreturn { "cwe243 spurious-warning (every reachable chdir call lacks a return target)" } else { "cwe243 spurious-warning" };
                ctx.violation(class, case_json(case), detail(info()))
            }
            (_, n) if n > 1 => ctx.violation("cwe243 duplicate-warning", case_json(case), detail(info())),
            _ => (),
        }
    }
    if !seen.is_empty() {
        ctx.violation("cwe243 spurious-warning (not a chroot call)", case_json(case), detail(json!({"tids": seen})));
    }
    (warnings.len(), demanded)
}

fn run_case(ctx: &Ctx, case: &Case) {
    let mut project = build(case);
    if let Err(p) = catch(|| {
        let _ = project.normalize_basic();
        if case.full_normalize {
            let _ = project.normalize_optimize();
        }
    }) {
        ctx.violation(format!("normalization panic {}", panic_site(&p)), case_json(case), json!({"panic": p, "program": render(&build(case))}));
        return;
    }
    let cfg = match catch(|| get_program_cfg(&project.program)) {
        Ok(g) => g,
        Err(p) => {
            ctx.violation(format!("cfg construction panic {}", panic_site(&p)), case_json(case), json!({"panic": p, "program": render(&project)}));
            return;
        }
    };
    let binary: Vec<u8> = Vec::new();
    let results = AnalysisResults::new(&binary, &cfg, &project);
    let flow = Flow::new(case);
    let mut outcome: Vec<(usize, usize)> = Vec::new();
    let mut interesting = false;
    // the TOCTOU check does not depend on chdir being imported: run it in the `chdir imported` half only
    if case.chdir_imported {
        for pairs in PAIR_CONFIGS {
            let config = json!({"pairs": pairs.iter().map(|(a, b)| vec![*a, *b]).collect::<Vec<_>>()});
            let got = run_check(cwe_367::CWE_MODULE.run, &results, &config);
            let o = judge_toctou(ctx, case, &flow, &project, pairs, got);
            interesting |= o.1 > 0;
            outcome.push(o);
            ctx.add_transitions(1);
        }
    }
    for privs in PRIV_CONFIGS {
        let config = json!({"priviledge_dropping_functions": privs, "pairs": []});
        let got = run_check(cwe_243::CWE_MODULE.run, &results, &config);
        let panicked = got.is_err();
        let o = judge_chroot(ctx, case, &flow, &project, privs, got);
        interesting |= case.funs.iter().flatten().any(|t| matches!(t, T::Call(Callee::Chroot, _)));
        outcome.push(if panicked { (usize::MAX, o.1) } else { o });
        ctx.add_transitions(1);
    }
    ctx.outcome(&outcome);
    if interesting {
        ctx.add_nontrivial(1);
    }
    ctx.add_states(1);
}

/// One enumerated family: function 0 ranges over all terminator assignments of `n0` blocks; the
/// other functions are either fixed (`helper`) or range over all assignments of `n1` blocks.
struct Family {
    n0: usize,
    helper: Option<Vec<T>>,
    n1: usize,
    modes: Vec<bool>,
}

fn helper_shapes(thorough_small: bool) -> Vec<Vec<T>> {
    let c = |c: Callee| T::Call(c, Some(1));
    let mut v = vec![
        vec![T::Return],                         // returns
        vec![T::NoJump],                         // never returns
        vec![c(Callee::Use), T::Return],         // contains a sink: must not be seen from the caller
    ];
    if !thorough_small {
        v.extend([
            vec![T::NoJump, T::Return],              // contains a return that is not reachable (open reading)
            vec![c(Callee::Check), T::Return],       // contains a source
            vec![c(Callee::Chdir), T::Return],       // contains chdir
            vec![c(Callee::Fun(0)), T::Return],      // mutual recursion
            vec![T::Call(Callee::Fun(1), Some(1)), T::Return], // returns only through itself (strict: never; liberal: returns)
        ]);
    }
    v
}

fn main() {
    let ctx = Ctx::new("C17");
    if let Some(c) = ctx.replay_case() {
        let case: Case = serde_json::from_value(c.clone()).unwrap_or_else(|e| mcx::machinery(&format!("bad case: {e}")));
        run_case(&ctx, &case);
        ctx.finish("replay of one case", false);
    }
    let ctx = &ctx;
    let thorough = ctx.thorough();
    let mut families: Vec<Family> = Vec::new();
    for n0 in 1..=3 {
        for h in helper_shapes(false) {
            families.push(Family { n0, helper: Some(h), n1: 0, modes: vec![false, true] });
        }
    }
    if thorough {
        for (i, h) in helper_shapes(true).into_iter().enumerate() {
            // the optimizing normalization is the expensive part: for 4-block functions it is run with the first callee shape only
            families.push(Family { n0: 4, helper: Some(h), n1: 0, modes: if i == 0 { vec![false, true] } else { vec![false] } });
        }
        for (n0, n1) in [(1, 1), (1, 2), (2, 1), (2, 2), (3, 1)] {
            families.push(Family { n0, helper: None, n1, modes: vec![false] });
        }
    }
    let mut total = 0u64;
    let mut described = Vec::new();
    for fam in &families {
        for with_chdir in [true, false] {
            let a0 = alphabet(fam.n0, 2, with_chdir);
            let a1 = if fam.helper.is_none() { alphabet(fam.n1, 2, with_chdir) } else { vec![] };
            if let Some(h) = &fam.helper {
                if !with_chdir && h.iter().any(|t| matches!(t, T::Call(Callee::Chdir, _))) {
                    continue;
                }
            }
            let k0 = a0.len() as u64;
            let k1 = a1.len() as u64;
            let n_f0 = k0.pow(fam.n0 as u32);
            let n_f1 = if fam.helper.is_some() { 1 } else { k1.pow(fam.n1 as u32) };
            let n = n_f0 * n_f1 * fam.modes.len() as u64;
            total += n;
            described.push(json!({"blocks_f0": fam.n0, "f1": match &fam.helper { Some(h) => json!(h), None => json!(format!("all functions with {} blocks", fam.n1)) },
                "chdir_imported": with_chdir, "alphabet_per_block_f0": k0, "normalization_variants": fam.modes.len(), "cases": n}));
            par_for(n, 256, |i| {
                let mode = fam.modes[(i % fam.modes.len() as u64) as usize];
                let i = i / fam.modes.len() as u64;
                let d0 = mcx::space::decode(i % n_f0, &vec![k0; fam.n0]);
                let f0: Vec<T> = d0.into_iter().map(|d| a0[d].clone()).collect();
                let f1: Vec<T> = match &fam.helper {
                    Some(h) => h.clone(),
                    None => mcx::space::decode(i / n_f0, &vec![k1; fam.n1]).into_iter().map(|d| a1[d].clone()).collect(),
                };
                let case = Case { funs: vec![f0, f1], chdir_imported: with_chdir, full_normalize: mode };
                ctx.sample(|| json!({"case": case, "raw_program": render(&build(&case))}));
                run_case(ctx, &case);
            });
        }
    }
    // ---- forward (DAG) slice: deeper functions over a reduced alphabet, so that a join block can lie
    // behind a second source call on one branch and behind a plain path on the other
    let mut forward: Vec<(usize, Aim, Vec<bool>)> = vec![(5, Aim::Toctou, vec![false, true]), (5, Aim::Chroot, vec![false, true])];
    if thorough {
        forward.push((6, Aim::Toctou, vec![false]));
        forward.push((6, Aim::Chroot, vec![false]));
    }
    for (n0, aim, modes) in &forward {
        let alphabets: Vec<Vec<T>> = (0..*n0).map(|k| forward_alphabet(*n0, k, *aim)).collect();
        let dims: Vec<u64> = alphabets.iter().map(|a| a.len() as u64).collect();
        let programs = mcx::space::size(&dims);
        let n = programs * modes.len() as u64;
        total += n;
        described.push(json!({"forward_dag_slice": format!("{aim:?}"), "blocks_f0": n0, "alphabet_per_block": dims, "f1": ["Return"], "chdir_imported": true,
            "normalization_variants": modes.len(), "cases": n}));
        par_for(n, 256, |i| {
            let mode = modes[(i % modes.len() as u64) as usize];
            let d0 = mcx::space::decode(i / modes.len() as u64, &dims);
            let f0: Vec<T> = d0.into_iter().enumerate().map(|(k, d)| alphabets[k][d].clone()).collect();
            let case = Case { funs: vec![f0, vec![T::Return]], chdir_imported: true, full_normalize: mode };
            ctx.sample(|| json!({"case": case, "raw_program": render(&build(&case))}));
            ctx.stat("forward_dag_slice_cases", 1);
            run_case(ctx, &case);
        });
    }
    ctx.set("families", json!(described));
    ctx.set(
        "bounds",
        json!({"function_under_test_blocks": if thorough { "1..=4" } else { "1..=3" },
               "terminators": "none | return | jump t | cond-jump t,t' | call {check,use,chroot,chdir,setuid,other,self,second function} with return target r or without; t,t',r over all blocks of the function",
               "second_function": if thorough { "8 callee shapes (3 for 4-block functions); every second function with <= 2 blocks over the same alphabet for functions under test with <= 2 blocks, with 1 block for 3-block functions" } else { "8 callee shapes" },
               "import_table": "with and without chdir (programs without chdir import cannot call it)",
               "cwe367_configs": PAIR_CONFIGS.len(), "cwe243_configs": PRIV_CONFIGS.len(),
               "normalization": "normalize_basic, and normalize_basic+normalize_optimize (4-block functions: the latter with the first callee shape only; exhaustive second functions: normalize_basic only)",
               "forward_dag_slice": if thorough { "functions with 5 and 6 blocks whose targets only go forward (t > own index), reduced alphabet none | return | jump t | cond-pair t,t' (all ordered pairs) | call source -> r | call sink -> r | call sink without return; once with (check,use), once with (chroot,chdir); 6 blocks: normalize_basic only" } else { "functions with 5 blocks whose targets only go forward (t > own index), reduced alphabet none | return | jump t | cond-pair t,t' (all ordered pairs) | call source -> r | call sink -> r | call sink without return; once with (check,use), once with (chroot,chdir)" },
               "total_cases": total}),
    );
    ctx.assume("jump and return targets stay inside the own function; blocks have no defs; symbol names are unique in the import table (extractor guarantee)");
    ctx.assume("an internal call is passed only if the callee returns; 'returns' is judged in two readings (return reachable from the entry / function contains a return): demanded = reachable in the strict reading, forbidden = unreachable in the liberal reading, in between not judged (counted as *_open)");
    ctx.assume("every conditional jump tests a flag of its own, so normalize_optimize cannot decide one condition from another (condition-insensitive reachability is then exactly what the optimized program has)");
    ctx.assume("how a warning names the place of the check call is not judged: the call, its block, or the block it returns to (followed through jump-only blocks) are all accepted");
    ctx.assume("a pair whose source equals its sink, extern symbols flagged no_return, indirect calls/jumps and cross-function jumps are outside the space");
    ctx.finish(
        "one case per (function 0 terminators, second function, chdir imported?, normalization variant); each case runs CWE367 under 6 pair configurations (chdir-imported half) and CWE243 under 3 privilege lists, every run compared with reference reachability on the case description; non-trivial = some source call with a demanded warning or a chroot call in the program",
        true,
    );
}
