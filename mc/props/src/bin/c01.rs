//! C01 — constant folding of IR operations agrees with P-Code semantics.
//! Shape E: exhaustive over all 1-byte operand pairs (every op), boundary
//! alphabet pairs for widths 2,4,8,16, compared with `mcx::refsem::ops`.

use mcx::refsem::ops::{self, Bin, Cast, Un};
use mcx::{catch, par_for, Ctx};
use props::ccl::abstract_domain::{AbstractDomain, BitvectorDomain, RegisterDomain, SizedDomain, TryToBitvec};
use props::ccl::intermediate_representation::*;
use props::{bv, unbv};
use serde::{Deserialize, Serialize};
use serde_json::json;

#[derive(Serialize, Deserialize, Clone, Debug)]
enum Case {
    Bin { op: String, a: String, wa: u32, b: String, wb: u32 },
    Un { op: String, a: String, w: u32 },
    Cast { op: String, a: String, w: u32, to: u32 },
    Subpiece { a: String, w: u32, low: u32, size: u32 },
}

fn p(s: &str) -> u128 {
    u128::from_str_radix(s.trim_start_matches("0x"), 16).unwrap()
}

const ALL_BINOPS: [BinOpType; 34] = {
    use BinOpType::*;
    [
        Piece, IntEqual, IntNotEqual, IntLess, IntSLess, IntLessEqual, IntSLessEqual, IntAdd, IntSub, IntCarry,
        IntSCarry, IntSBorrow, IntXOr, IntAnd, IntOr, IntLeft, IntRight, IntSRight, IntMult, IntDiv, IntRem, IntSDiv,
        IntSRem, BoolXOr, BoolAnd, BoolOr, FloatEqual, FloatNotEqual, FloatLess, FloatLessEqual, FloatAdd, FloatSub,
        FloatMult, FloatDiv,
    ]
};
const ALL_UNOPS: [UnOpType; 10] = {
    use UnOpType::*;
    [IntNegate, Int2Comp, BoolNegate, FloatNegate, FloatAbs, FloatSqrt, FloatCeil, FloatFloor, FloatRound, FloatNaN]
};
const ALL_CASTS: [CastOpType; 7] = {
    use CastOpType::*;
    [IntZExt, IntSExt, Int2Float, Float2Float, Trunc, PopCount, LzCount]
};

fn binop_by_name(n: &str) -> BinOpType {
    *ALL_BINOPS.iter().find(|o| format!("{o:?}") == n).unwrap()
}
fn unop_by_name(n: &str) -> UnOpType {
    *ALL_UNOPS.iter().find(|o| format!("{o:?}") == n).unwrap()
}
fn cast_by_name(n: &str) -> CastOpType {
    *ALL_CASTS.iter().find(|o| format!("{o:?}") == n).unwrap()
}
/// Map the repository's enum onto the reference table *by name*.
fn ref_bin(op: BinOpType) -> Option<Bin> {
    Bin::from_loose_name(&format!("{op:?}"))
}
fn ref_un(op: UnOpType) -> Option<Un> {
    match format!("{op:?}").as_str() {
        "IntNegate" => Some(Un::IntNegate),
        "Int2Comp" => Some(Un::Int2Comp),
        "BoolNegate" => Some(Un::BoolNegate),
        _ => None,
    }
}
fn ref_cast(op: CastOpType) -> Option<Cast> {
    match format!("{op:?}").as_str() {
        "IntZExt" => Some(Cast::IntZExt),
        "IntSExt" => Some(Cast::IntSExt),
        "PopCount" => Some(Cast::PopCount),
        "LzCount" => Some(Cast::LzCount),
        _ => None,
    }
}

/// What the property allows as result for one evaluation.
enum Want {
    /// exactly this value with this width
    Exactly(u128, u32),
    /// must be reported as unknown
    Unknown,
    /// either the value or unknown (statement is silent: signed MIN / -1)
    Either(u128, u32),
}

fn want_bin(op: BinOpType, a: u128, wa: u32, b: u128, wb: u32) -> Want {
    let Some(r) = ref_bin(op) else { return Want::Unknown }; // float
    let w = ops::bin_width(r, wa, wb);
    if matches!(r, Bin::IntMult | Bin::IntDiv | Bin::IntRem | Bin::IntSDiv | Bin::IntSRem) && wa > 8 {
        return match ops::bin(r, a, wa, b, wb) {
            // "unsupported" is what the statement promises; a *correct* value would not be wrong either
            Some(v) => Want::Either(v, w),
            None => Want::Unknown,
        };
    }
    match ops::bin(r, a, wa, b, wb) {
        None => Want::Unknown,
        Some(v) if ops::is_signed_min_div_minus_one(r, a, b, wa) => Want::Either(v, w),
        Some(v) => Want::Exactly(v, w),
    }
}

fn judge(ctx: &Ctx, what: &str, key: String, case: &Case, want: &Want, got: Result<Result<(u128, u32), String>, String>) {
    // got: Err(panic) | Ok(Err(unknown-description)) | Ok(Ok(value,width))
    let bad = |obs: String, exp: String| {
        ctx.violation(key.clone(), serde_json::to_value(case).unwrap(), json!({"via": what, "observed": obs, "expected": exp}));
    };
    match (&got, want) {
        (Err(p), _) => bad(format!("panic: {p}"), "no panic".into()),
        (Ok(Ok((v, w))), Want::Exactly(ev, ew)) | (Ok(Ok((v, w))), Want::Either(ev, ew)) => {
            if v != ev || w != ew {
                bad(format!("{v:#x}:{w}"), format!("{ev:#x}:{ew}"));
            }
        }
        (Ok(Ok((v, w))), Want::Unknown) => bad(format!("{v:#x}:{w}"), "unknown".into()),
        (Ok(Err(e)), Want::Exactly(ev, ew)) => bad(format!("unknown ({e})"), format!("{ev:#x}:{ew}")),
        (Ok(Err(_)), Want::Either(..)) | (Ok(Err(_)), Want::Unknown) => (),
    }
}

fn dom_result(d: BitvectorDomain) -> Result<(u128, u32), String> {
    match d.try_to_bitvec() {
        Ok(b) => Ok(unbv(&b)),
        Err(_) => Err(format!("Top:{}", u64::from(d.bytesize()))),
    }
}

fn run_case(ctx: &Ctx, case: &Case) {
    match case {
        Case::Bin { op, a, wa, b, wb } => {
            let o = binop_by_name(op);
            let (a, b, wa, wb) = (p(a), p(b), *wa, *wb);
            let want = want_bin(o, a, wa, b, wb);
            let (x, y) = (bv(a, wa), bv(b, wb));
            // 1. concrete evaluation
            let got = catch(|| x.bin_op(o, &y).map(|r| unbv(&r)).map_err(|e| e.to_string()));
            judge(ctx, "Bitvector::bin_op", format!("bin_op {op} w={wa}"), case, &want, got);
            // 2. through the known-bitvector domain
            let (dx, dy) = (BitvectorDomain::Value(x.clone()), BitvectorDomain::Value(y.clone()));
            let got = catch(|| dom_result(dx.bin_op(o, &dy)));
            judge(ctx, "BitvectorDomain::bin_op", format!("domain bin_op {op} w={wa}"), case, &want, got);
            // 3. widths: Expression::bytesize and the domain's Top width
            let expr = Expression::BinOp { op: o, lhs: Box::new(Expression::Const(x.clone())), rhs: Box::new(Expression::Const(y.clone())) };
            let ew = ref_bin(o).map(|r| ops::bin_width(r, wa, wb));
            if let Some(ew) = ew {
                let got_w = u64::from(expr.bytesize()) as u32;
                if got_w != ew {
                    ctx.violation(format!("bytesize {op}"), serde_json::to_value(case).unwrap(), json!({"observed": got_w, "expected": ew}));
                }
                for (l, r) in [(BitvectorDomain::new_top(ByteSize::new(wa as u64)), dy.clone()), (dx.clone(), BitvectorDomain::new_top(ByteSize::new(wb as u64)))] {
                    match catch(|| l.bin_op(o, &r)) {
                        Ok(d) => {
                            let tw = u64::from(d.bytesize()) as u32;
                            // a Top operand must give Top (of the right width) -- except where one operand alone decides nothing: always Top.
                            if !d.is_top() || tw != ew {
                                ctx.violation(format!("top-operand {op}"), serde_json::to_value(case).unwrap(), json!({"observed": format!("{d:?}"), "expected": format!("Top:{ew}")}));
                            }
                        }
                        Err(pn) => ctx.violation(format!("top-operand {op}"), serde_json::to_value(case).unwrap(), json!({"observed": format!("panic {pn}")})),
                    }
                    ctx.add_transitions(1);
                }
            }
            ctx.add_transitions(2);
        }
        Case::Un { op, a, w } => {
            let o = unop_by_name(op);
            let (a, w) = (p(a), *w);
            let want = match ref_un(o).map(|r| ops::un(r, a, w)) {
                Some(Some(v)) => Want::Exactly(v, w),
                Some(None) => return, // BoolNegate outside {0,1}: outside the reference's domain
                None => Want::Unknown,
            };
            let x = bv(a, w);
            let got = catch(|| x.un_op(o).map(|r| unbv(&r)).map_err(|e| e.to_string()));
            judge(ctx, "Bitvector::un_op", format!("un_op {op} w={w}"), case, &want, got);
            let dx = BitvectorDomain::Value(x.clone());
            let got = catch(|| dom_result(dx.un_op(o)));
            judge(ctx, "BitvectorDomain::un_op", format!("domain un_op {op} w={w}"), case, &want, got);
            ctx.add_transitions(2);
        }
        Case::Cast { op, a, w, to } => {
            let o = cast_by_name(op);
            let (a, w, to) = (p(a), *w, *to);
            let want = match ref_cast(o) {
                Some(r) => Want::Exactly(ops::cast(r, a, w, to), to),
                None => Want::Unknown,
            };
            let x = bv(a, w);
            let got = catch(|| x.cast(o, ByteSize::new(to as u64)).map(|r| unbv(&r)).map_err(|e| e.to_string()));
            judge(ctx, "Bitvector::cast", format!("cast {op} {w}->{to}"), case, &want, got);
            let dx = BitvectorDomain::Value(x.clone());
            let got = catch(|| dom_result(dx.cast(o, ByteSize::new(to as u64))));
            judge(ctx, "BitvectorDomain::cast", format!("domain cast {op} {w}->{to}"), case, &want, got);
            // Top keeps the target width
            if let Ok(d) = catch(|| BitvectorDomain::new_top(ByteSize::new(w as u64)).cast(o, ByteSize::new(to as u64))) {
                if !d.is_top() || u64::from(d.bytesize()) as u32 != to {
                    ctx.violation(format!("top-operand cast {op}"), serde_json::to_value(case).unwrap(), json!({"observed": format!("{d:?}")}));
                }
            }
            let e = Expression::Cast { op: o, size: ByteSize::new(to as u64), arg: Box::new(Expression::Const(x)) };
            if u64::from(e.bytesize()) as u32 != to {
                ctx.violation(format!("bytesize cast {op}"), serde_json::to_value(case).unwrap(), json!({}));
            }
            ctx.add_transitions(3);
        }
        Case::Subpiece { a, w, low, size } => {
            let (a, w, low, size) = (p(a), *w, *low, *size);
            let want = Want::Exactly(ops::subpiece(a, w, low, size), size);
            let x = bv(a, w);
            let got = catch(|| Ok(unbv(&x.subpiece(ByteSize::new(low as u64), ByteSize::new(size as u64)))));
            judge(ctx, "Bitvector::subpiece", format!("subpiece w={w} low={low} size={size}"), case, &want, got);
            let dx = BitvectorDomain::Value(x);
            let got = catch(|| dom_result(dx.subpiece(ByteSize::new(low as u64), ByteSize::new(size as u64))));
            judge(ctx, "BitvectorDomain::subpiece", format!("domain subpiece w={w} low={low} size={size}"), case, &want, got);
            ctx.add_transitions(2);
        }
    }
}

fn h(v: u128) -> String {
    format!("{v:#x}")
}

fn main() {
    let ctx = Ctx::new("C01");
    match ops::self_check() {
        Ok(n) => ctx.stat("refsem_self_check_vectors", n),
        Err(e) => mcx::machinery(&e),
    }
    if let Some(c) = ctx.replay_case() {
        let case: Case = serde_json::from_value(c.clone()).unwrap_or_else(|e| mcx::machinery(&format!("bad case: {e}")));
        run_case(&ctx, &case);
        ctx.finish("replay of one case", false);
    }
    let ctx = &ctx;
    let mut cases_total = 0u64;

    // ---- width 1: ALL operand pairs, every binary op (Piece: 1+1 bytes)
    par_for(ALL_BINOPS.len() as u64 * 256, 8, |i| {
        let op = ALL_BINOPS[(i / 256) as usize];
        let a = (i % 256) as u128;
        for b in 0..256u128 {
            let is_bool = matches!(op, BinOpType::BoolAnd | BinOpType::BoolOr | BinOpType::BoolXOr);
            if is_bool && (a > 1 || b > 1) {
                continue; // P-Code booleans are 0/1
            }
            let case = Case::Bin { op: format!("{op:?}"), a: h(a), wa: 1, b: h(b), wb: 1 };
            ctx.sample(|| serde_json::to_value(&case).unwrap());
            run_case(ctx, &case);
            ctx.add_states(1);
            // non-trivial: operands differ and neither is zero
            if a != b && a != 0 && b != 0 {
                ctx.add_nontrivial(1);
            }
            if let Some(r) = ref_bin(op) {
                ctx.outcome(&(format!("{op:?}"), ops::bin(r, a, 1, b, 1)));
            }
        }
    });
    // ---- width 1: all values, unary ops, casts to 1,2,4,8,16, subpiece
    for op in ALL_UNOPS {
        for a in 0..256u128 {
            if matches!(op, UnOpType::BoolNegate) && a > 1 {
                continue;
            }
            run_case(ctx, &Case::Un { op: format!("{op:?}"), a: h(a), w: 1 });
            ctx.add_states(1);
            ctx.add_nontrivial((a != 0) as u64);
        }
    }
    for op in ALL_CASTS {
        for to in [1u32, 2, 4, 8, 16] {
            for a in 0..256u128 {
                run_case(ctx, &Case::Cast { op: format!("{op:?}"), a: h(a), w: 1, to });
                ctx.add_states(1);
                ctx.add_nontrivial((a != 0) as u64);
            }
        }
    }
    // ---- widths 2,4,8,16: boundary alphabet pairs
    let widths: &[u32] = &[2, 4, 8, 16];
    for &w in widths {
        let vals = ops::boundary_values(w);
        cases_total += (vals.len() * vals.len()) as u64;
        let nops = ALL_BINOPS.len() as u64;
        par_for(nops * vals.len() as u64, 4, |i| {
            let op = ALL_BINOPS[(i % nops) as usize];
            let a = vals[(i / nops) as usize];
            let is_bool = matches!(op, BinOpType::BoolAnd | BinOpType::BoolOr | BinOpType::BoolXOr);
            if is_bool {
                return; // booleans are 1 byte
            }
            let is_shift = matches!(op, BinOpType::IntLeft | BinOpType::IntRight | BinOpType::IntSRight);
            if matches!(op, BinOpType::Piece) {
                // every width pair that sums to <= 16
                for wb in [1u32, 2, 4, 8] {
                    if w + wb > 16 {
                        continue;
                    }
                    for &b in ops::boundary_values(wb).iter() {
                        let case = Case::Bin { op: "Piece".into(), a: h(a), wa: w, b: h(b), wb };
                        run_case(ctx, &case);
                        ctx.add_states(1);
                        ctx.add_nontrivial(1);
                    }
                }
                return;
            }
            if is_shift {
                // shift amounts of a different width and amounts >= bit width
                for wb in [1u32, w] {
                    let mut amounts: Vec<u128> = (0..=(w * 8 + 2) as u128).collect();
                    amounts.extend([0x7f, 0x80, 0xff, ops::mask(wb), ops::mask(wb) >> 1]);
                    amounts.retain(|x| *x <= ops::mask(wb) && (*x <= u64::MAX as u128));
                    amounts.sort();
                    amounts.dedup();
                    for b in amounts {
                        let case = Case::Bin { op: format!("{op:?}"), a: h(a), wa: w, b: h(b), wb };
                        run_case(ctx, &case);
                        ctx.add_states(1);
                        ctx.add_nontrivial(1);
                    }
                }
                return;
            }
            for &b in vals.iter() {
                let case = Case::Bin { op: format!("{op:?}"), a: h(a), wa: w, b: h(b), wb: w };
                ctx.sample(|| serde_json::to_value(&case).unwrap());
                run_case(ctx, &case);
                ctx.add_states(1);
                if a != b && a != 0 && b != 0 {
                    ctx.add_nontrivial(1);
                }
                if let Some(r) = ref_bin(op) {
                    ctx.outcome(&(format!("{op:?}"), w, ops::bin(r, a, w, b, w)));
                }
            }
        });
        for &a in vals.iter() {
            for op in ALL_UNOPS {
                if matches!(op, UnOpType::BoolNegate) {
                    continue;
                }
                run_case(ctx, &Case::Un { op: format!("{op:?}"), a: h(a), w });
                ctx.add_states(1);
            }
            for op in ALL_CASTS {
                for to in [1u32, 2, 4, 8, 16] {
                    let ext = matches!(op, CastOpType::IntZExt | CastOpType::IntSExt);
                    if ext && to < w {
                        continue; // extensions only grow
                    }
                    if !ext && !matches!(op, CastOpType::PopCount | CastOpType::LzCount) && false {
                        continue;
                    }
                    run_case(ctx, &Case::Cast { op: format!("{op:?}"), a: h(a), w, to });
                    ctx.add_states(1);
                }
            }
            for low in 0..w {
                for size in 1..=(w - low) {
                    run_case(ctx, &Case::Subpiece { a: h(a), w, low, size });
                    ctx.add_states(1);
                    ctx.add_nontrivial(1);
                }
            }
        }
    }
    // shifts at width 1 with a wider amount operand
    for op in [BinOpType::IntLeft, BinOpType::IntRight, BinOpType::IntSRight] {
        for a in 0..256u128 {
            for b in [0u128, 1, 7, 8, 9, 0xff, 0x100, 0xffff, 0x8000_0000, 0xffff_ffff] {
                run_case(ctx, &Case::Bin { op: format!("{op:?}"), a: h(a), wa: 1, b: h(b), wb: 4 });
                ctx.add_states(1);
            }
        }
    }
    // ---- thorough: 2-byte operands that are sign-/zero-extended 1-byte values, all pairs
    if ctx.thorough() {
        let mut ext: Vec<u128> = (0..256u128).collect();
        ext.extend((0x80..256u128).map(|v| v | 0xff00));
        ext.extend((0..256u128).map(|v| v << 8));
        ext.extend(ops::boundary_values(2));
        ext.sort();
        ext.dedup();
        let n = ext.len() as u64;
        let cheap: Vec<BinOpType> = ALL_BINOPS.iter().copied().filter(|o| ref_bin(*o).map(|r| r != Bin::Piece && !r.is_bool() && !r.is_shift()).unwrap_or(false)).collect();
        par_for(n * cheap.len() as u64, 2, |i| {
            let op = cheap[(i / n) as usize];
            let a = ext[(i % n) as usize];
            for &b in ext.iter() {
                run_case(ctx, &Case::Bin { op: format!("{op:?}"), a: h(a), wa: 2, b: h(b), wb: 2 });
                ctx.add_states(1);
                if a != b && a != 0 && b != 0 {
                    ctx.add_nontrivial(1);
                }
            }
        });
        ctx.set("thorough_width2_alphabet", json!(n));
        // every 2-byte value of one operand x the extended alphabet of the other operand, both positions, every op
        let all_ops: Vec<BinOpType> = ALL_BINOPS.iter().copied().filter(|o| ref_bin(*o).map(|r| r != Bin::Piece && !r.is_bool()).unwrap_or(false)).collect();
        let nops = all_ops.len() as u64;
        let mut ext2: Vec<u128> = (0..256u128).collect();
        ext2.extend(ops::boundary_values(2));
        ext2.sort();
        ext2.dedup();
        par_for(65536 * nops, 64, |i| {
            let op = all_ops[(i % nops) as usize];
            let a = (i / nops) as u128;
            for &b in ext2.iter() {
                run_case(ctx, &Case::Bin { op: format!("{op:?}"), a: h(a), wa: 2, b: h(b), wb: 2 });
                run_case(ctx, &Case::Bin { op: format!("{op:?}"), a: h(b), wa: 2, b: h(a), wb: 2 });
                ctx.add_states(2);
                if a != b && a != 0 && b != 0 {
                    ctx.add_nontrivial(2);
                }
            }
        });
        // every 2-byte value: unary ops, casts, subpieces
        par_for(65536, 256, |a| {
            let a = a as u128;
            for op in ALL_UNOPS {
                if matches!(op, UnOpType::BoolNegate) {
                    continue;
                }
                run_case(ctx, &Case::Un { op: format!("{op:?}"), a: h(a), w: 2 });
                ctx.add_states(1);
            }
            for op in ALL_CASTS {
                for to in [1u32, 2, 4, 8, 16] {
                    if matches!(op, CastOpType::IntZExt | CastOpType::IntSExt) && to < 2 {
                        continue;
                    }
                    run_case(ctx, &Case::Cast { op: format!("{op:?}"), a: h(a), w: 2, to });
                    ctx.add_states(1);
                }
            }
            for (low, size) in [(0u32, 1u32), (1, 1), (0, 2)] {
                run_case(ctx, &Case::Subpiece { a: h(a), w: 2, low, size });
                ctx.add_states(1);
            }
        });
    }
    let _ = cases_total;
    ctx.set("bounds", json!({"width1": "all 65536 operand pairs per binary op, all 256 per unary op/cast", "widths_2_4_8_16": "all pairs of the boundary alphabet B(w)", "piece": "all width pairs summing to <=16", "subpiece": "every (low_byte,size) that fits", "thorough": "plus all pairs of 2-byte operands that are extended 1-byte values; every 2-byte value x that alphabet in both operand positions for every op; every 2-byte value for unary ops, casts and subpieces"}));
    ctx.assume("signed MIN / -1 (and MIN % -1): either the wrapped value or 'unknown' is accepted (the manual is silent)");
    ctx.assume("mult/div/rem wider than 8 bytes: 'unknown' or the correct value accepted");
    ctx.assume("booleans are 0/1 as P-Code guarantees");
    ctx.finish("every (operation, operand widths, operand values) tuple of the stated alphabet is one case; each is evaluated through Bitvector::*, BitvectorDomain::* (values and Top operands) and Expression::bytesize and compared with the independent reference; non-trivial = operands differ and both are non-zero (binary) / operand non-zero (unary)", true);
}
