//! C07 — the worklist fixpoint solver computes the least solution for any order.
//!
//! Shape E. Part 1: every edge-labelled multigraph of the stated slices
//! (nodes <= 5, self-loops, <= 2 parallel edges, edge bound, transfer-function
//! alphabet; the exact slices are listed in the evidence under `bounds`) x every start configuration x every node-priority permutation
//! (plus `Computation::new`'s own order) x {compute(), compute_with_max_steps(1..=6)}
//! is run through the real `fixpoint::Computation` and judged against a naive
//! Kleene iteration. Part 2: real CFGs of a finite space of tiny IR programs:
//! `create_bottom_up_worklist` / `create_top_down_worklist` must be
//! permutations of the node indices (forward CFG and the reversed CFG the
//! backward analyses use), and the solver run on the real CFG under those
//! orders must reach the same least fixpoint.

#[path = "../shared/c07_cfg.rs"]
mod c07_cfg;
#[path = "../shared/c07_model.rs"]
mod c07_model;

use c07_cfg::{ProgSpec, TermSpec};
use c07_model::*;
use mcx::{catch, par_fold, Ctx};
use petgraph::graph::{DiGraph, EdgeIndex, NodeIndex};
use props::ccl::analysis::fixpoint::{Computation, Context};
use props::ccl::analysis::forward_interprocedural_fixpoint::{create_bottom_up_worklist, create_top_down_worklist};
use props::ccl::analysis::graph::{self as cfg, Edge, Node};
use serde::{Deserialize, Serialize};
use serde_json::{json, Value};
use std::cell::{Cell, RefCell};
use std::collections::BTreeSet;
use std::sync::atomic::{AtomicBool, Ordering};

const BUDGET_MSG: &str = "C07-TRANSFER-BUDGET-EXHAUSTED";
const MAX_BOUND: u64 = 6;
/// Stop enumerating once this many violations were counted (only ever reached on a broken solver).
const VIOLATION_CAP: u64 = 20_000;

#[derive(Serialize, Deserialize, Clone, Debug)]
enum Case {
    /// One solver run on a synthetic graph.
    Synth {
        n: usize,
        /// `(source, target, transfer function)` in insertion order
        edges: Vec<(usize, usize, Fun)>,
        default_empty: bool,
        /// `(node, start value as bit mask)`
        starts: Vec<(usize, u8)>,
        /// `None`: `Computation::new`; `Some(list)`: `from_node_priority_list(list)`
        order: Option<Vec<usize>>,
        /// `None`: `compute()`; `Some(b)`: `compute_with_max_steps(b)`
        bound: Option<u64>,
    },
    /// All C07 checks on the real CFG of one tiny program.
    Cfg { prog: ProgSpec },
}

/// The counting context handed to the real solver.
struct Cx<'a, N, E> {
    graph: &'a DiGraph<N, E>,
    funs: &'a [Fun],
    /// number of `update_edge` calls per edge
    counts: &'a RefCell<Vec<u32>>,
    total: &'a Cell<u32>,
    budget: u32,
}

impl<'a, N, E: Clone> Context for Cx<'a, N, E> {
    type EdgeLabel = E;
    type NodeLabel = N;
    type NodeValue = Val;
    fn get_graph(&self) -> &DiGraph<N, E> {
        self.graph
    }
    fn merge(&self, a: &Val, b: &Val) -> Val {
        a | b
    }
    fn update_edge(&self, value: &Val, edge: EdgeIndex) -> Option<Val> {
        let t = self.total.get() + 1;
        self.total.set(t);
        if t > self.budget {
            panic!("{}", BUDGET_MSG);
        }
        self.counts.borrow_mut()[edge.index()] += 1;
        self.funs[edge.index()].apply(*value)
    }
}

/// What was read back from the real `Computation` after the run.
struct Obs {
    values: Vec<Option<Val>>,
    foreign_keys: Vec<usize>,
    stabilized: bool,
    worklist: Vec<usize>,
}

#[derive(Default)]
struct Tally {
    runs: u64,
    bounded_stabilized: u64,
    bounded_not_stabilized: u64,
    bound_binding: u64,
    max_edge_count: u64,
    worklist_misses_unstable_node: u64,
    intermediate_not_below_lfp: u64,
    compute_leaves_worklist: u64,
    oracle_tests: u64,
    nontrivial: u64,
    graphs: u64,
    cfg_programs: u64,
    cfg_max_nodes: u64,
    cfg_max_edges: u64,
    worklist_calls: u64,
    worklist_not_identity: u64,
    outcomes: BTreeSet<u64>,
}

impl Tally {
    fn flush(&mut self, ctx: &Ctx) {
        ctx.add_states(self.runs);
        ctx.add_transitions(self.runs);
        ctx.add_evaluations(self.oracle_tests);
        ctx.add_nontrivial(self.nontrivial);
        ctx.stat("graphs", self.graphs);
        ctx.stat("cfg_programs", self.cfg_programs);
        ctx.add_transitions(self.worklist_calls);
        ctx.stat("cfg_worklists_checked", self.worklist_calls);
        ctx.stat("cfg_worklists_that_are_not_the_identity_order", self.worklist_not_identity);
        ctx.stat_max("cfg_max_nodes", self.cfg_max_nodes);
        ctx.stat_max("cfg_max_edges", self.cfg_max_edges);
        ctx.stat("bounded_runs_stabilized", self.bounded_stabilized);
        ctx.stat("bounded_runs_not_stabilized", self.bounded_not_stabilized);
        ctx.stat("bounded_runs_where_some_edge_reached_the_bound", self.bound_binding);
        ctx.stat_max("max_transfers_of_one_edge_in_one_run", self.max_edge_count);
        ctx.stat("info_worklist_misses_unstable_node", self.worklist_misses_unstable_node);
        ctx.stat("info_intermediate_not_below_lfp", self.intermediate_not_below_lfp);
        ctx.stat("info_compute_returned_with_nonempty_worklist", self.compute_leaves_worklist);
        for h in &self.outcomes {
            ctx.outcome(h);
        }
        *self = Tally::default();
    }
}

fn fmt_vals(v: &[Option<Val>]) -> Vec<Value> {
    v.iter().map(|x| x.map(|m| json!(format!("{m:03b}"))).unwrap_or(Value::Null)).collect()
}

/// One run of the real solver, judged. Returns the violations `(key, detail)`.
#[allow(clippy::too_many_arguments)]
fn run_one<N, E: Clone>(
    graph: &DiGraph<N, E>,
    edges: &[(usize, usize)],
    funs: &[Fun],
    sc: &StartCfg,
    lfp: &[Option<Val>],
    order: Option<&[usize]>,
    bound: Option<u64>,
    tally: &mut Tally,
) -> Vec<(String, Value)> {
    let n = graph.node_count();
    let counts = RefCell::new(vec![0u32; edges.len()]);
    let total = Cell::new(0u32);
    let budget = 1000 + 50 * edges.len() as u32;
    // ---- the real code
    let res = catch(|| {
        let cx = Cx { graph, funs, counts: &counts, total: &total, budget };
        let default = if sc.default_empty { Some(0u8) } else { None };
        let mut comp = match order {
            None => Computation::new(cx, default),
            Some(o) => Computation::from_node_priority_list(cx, default, o.iter().map(|i| NodeIndex::new(*i)).collect()),
        };
        for &(node, v) in &sc.starts {
            comp.set_node_value(NodeIndex::new(node), v);
        }
        match bound {
            None => comp.compute(),
            Some(b) => comp.compute_with_max_steps(b),
        }
        let mut values = vec![None; n];
        let mut foreign_keys = Vec::new();
        for (k, v) in comp.node_values().iter() {
            if k.index() < n {
                values[k.index()] = Some(*v);
            } else {
                foreign_keys.push(k.index());
            }
        }
        foreign_keys.sort();
        let mut worklist: Vec<usize> = comp.get_worklist().iter().map(|x| x.index()).collect();
        worklist.sort();
        Obs { values, foreign_keys, stabilized: comp.has_stabilized(), worklist }
    });
    tally.runs += 1;
    let counts = counts.into_inner();
    let max_count = counts.iter().copied().max().unwrap_or(0) as u64;
    tally.max_edge_count = tally.max_edge_count.max(max_count);
    let mut out = Vec::new();
    // ---- the oracle
    let obs = match res {
        Err(msg) if msg.contains(BUDGET_MSG) => {
            tally.outcomes.insert(mcx::fixed_hash(&("nonterm", bound.is_some())));
            out.push((
                "non-termination".to_string(),
                json!({"observed": format!("more than {budget} edge transfers without returning"), "expected": "terminates (finite lattice, monotone transfers)", "transfers_per_edge": counts}),
            ));
            return out;
        }
        Err(msg) => {
            tally.outcomes.insert(mcx::fixed_hash(&("panic", bound.is_some())));
            out.push((format!("panic {}", mcx::panic_site(&msg)), json!({"observed": format!("panic: {msg}"), "expected": "no panic"})));
            return out;
        }
        Ok(o) => o,
    };
    tally.outcomes.insert(mcx::fixed_hash(&(bound.is_some(), obs.stabilized, &obs.values)));
    if !obs.foreign_keys.is_empty() {
        out.push(("node-values-foreign-key".to_string(), json!({"observed_keys": obs.foreign_keys, "node_count": n})));
    }
    let unstable = violated_sources(edges, funs, &obs.values);
    tally.oracle_tests += edges.len() as u64 + n as u64;
    let below = obs.values.iter().zip(lfp).all(|(a, l)| leq(*a, *l));
    match bound {
        None => {
            // compute(): terminated; the result must be the least fixpoint.
            if obs.values != lfp {
                out.push((
                    "lfp-mismatch".to_string(),
                    json!({"observed": fmt_vals(&obs.values), "expected": fmt_vals(lfp), "closed": unstable.is_empty(), "below_lfp": below}),
                ));
            }
            if !obs.stabilized {
                tally.compute_leaves_worklist += 1;
            }
        }
        Some(b) => {
            // no node is processed more often than the bound. One processing of a node
            // evaluates each of its out-edges once, so: no edge is transferred more than b times.
            if max_count > b {
                let (e, c) = counts.iter().enumerate().max_by_key(|(i, c)| (**c, std::cmp::Reverse(*i))).unwrap();
                out.push((
                    "step-bound-exceeded".to_string(),
                    json!({"observed": format!("edge #{e} {:?} (source node {}) was transferred {c} times", edges[e], edges[e].0), "expected": format!("at most {b} times"), "transfers_per_edge": counts}),
                ));
            }
            if max_count == b {
                tally.bound_binding += 1;
            }
            if obs.stabilized {
                tally.bounded_stabilized += 1;
                if !unstable.is_empty() {
                    out.push((
                        "stabilized-but-not-closed".to_string(),
                        json!({"observed": fmt_vals(&obs.values), "nodes_with_violated_out_edge": unstable, "lfp": fmt_vals(lfp)}),
                    ));
                } else if obs.values != lfp {
                    out.push(("stabilized-but-not-lfp".to_string(), json!({"observed": fmt_vals(&obs.values), "expected": fmt_vals(lfp)})));
                }
            } else {
                tally.bounded_not_stabilized += 1;
                // informational only (the statement does not speak about unfinished runs)
                if !unstable.iter().all(|s| obs.worklist.contains(s)) {
                    tally.worklist_misses_unstable_node += 1;
                }
                if !below {
                    tally.intermediate_not_below_lfp += 1;
                }
            }
        }
    }
    out
}

fn build_synth_graph(n: usize, edges: &[(usize, usize)]) -> DiGraph<(), ()> {
    let mut g = DiGraph::new();
    for _ in 0..n {
        g.add_node(());
    }
    for &(s, t) in edges {
        g.add_edge(NodeIndex::new(s), NodeIndex::new(t), ());
    }
    g
}

fn synth_case(n: usize, edges: &[(usize, usize)], funs: &[Fun], sc: &StartCfg, order: Option<&[usize]>, bound: Option<u64>) -> Value {
    serde_json::to_value(Case::Synth {
        n,
        edges: edges.iter().zip(funs).map(|((s, t), f)| (*s, *t, *f)).collect(),
        default_empty: sc.default_empty,
        starts: sc.starts.clone(),
        order: order.map(|o| o.to_vec()),
        bound,
    })
    .unwrap()
}

static STOP: AtomicBool = AtomicBool::new(false);

/// Explore one slice: all skeletons (n, max_mult, max_edges) x all labellings over `letters`.
fn explore_slice(ctx: &Ctx, name: &str, n: usize, self_loops: bool, max_mult: usize, max_edges: usize, letters: &[Fun], all_positions: bool) -> Value {
    let skels = skeletons(n, self_loops, max_mult, max_edges);
    let k = letters.len() as u64;
    // work items: (skeleton, labelling index range)
    const CHUNK: u64 = 128;
    let mut items: Vec<(usize, u64, u64)> = Vec::new();
    let mut graphs = 0u64;
    for (si, s) in skels.iter().enumerate() {
        let total = k.checked_pow(s.edges.len() as u32).expect("labelling space too large");
        graphs += total;
        let mut lo = 0;
        while lo < total {
            let hi = (lo + CHUNK).min(total);
            items.push((si, lo, hi));
            lo = hi;
        }
    }
    let perms = mcx::space::permutations(n);
    let scs = start_configs(n, all_positions);
    par_fold(items.len() as u64, 1, Tally::default, |tally: &mut Tally, ii| {
        if STOP.load(Ordering::Relaxed) {
            return;
        }
        if ctx.violation_count() > VIOLATION_CAP {
            STOP.store(true, Ordering::Relaxed);
            return;
        }
        let (si, lo, hi) = items[ii as usize];
        let sk = &skels[si];
        let graph = build_synth_graph(n, &sk.edges);
        let mut funs = Vec::new();
        for li in lo..hi {
            labelling(li, k, sk.edges.len(), letters, &mut funs);
            for sc in &scs {
                let init = initial_assignment(n, sc.default_empty, &sc.starts);
                let (lfp, _) = kleene_lfp(n, &sk.edges, &funs, &init);
                ctx.sample(|| synth_case(n, &sk.edges, &funs, sc, None, None));
                let nt = lfp != init;
                for oi in 0..=perms.len() {
                    let order: Option<&[usize]> = if oi == 0 { None } else { Some(&perms[oi - 1]) };
                    for b in 0..=MAX_BOUND {
                        let bound = if b == 0 { None } else { Some(b) };
                        let viol = run_one(&graph, &sk.edges, &funs, sc, &lfp, order, bound, tally);
                        tally.nontrivial += nt as u64;
                        for (key, detail) in viol {
                            ctx.violation(key, synth_case(n, &sk.edges, &funs, sc, order, bound), detail);
                        }
                    }
                }
            }
        }
        tally.graphs += hi - lo;
    }, |mut tally| tally.flush(ctx));
    json!({"slice": name, "nodes": n, "self_loops": self_loops, "max_parallel_edges": max_mult, "max_edges": if max_edges >= max_mult * (if self_loops { n * n } else { n * n - n }) { json!("unbounded (all)") } else { json!(max_edges) },
        "alphabet": letters.iter().map(|f| format!("{f:?}")).collect::<Vec<_>>(), "skeletons": skels.len(), "labelled_graphs": graphs,
        "start_configs": scs.len(), "orders_per_graph": perms.len() + 1, "modes": MAX_BOUND + 1,
        "solver_runs": graphs * scs.len() as u64 * (perms.len() as u64 + 1) * (MAX_BOUND + 1)})
}

// ------------------------------------------------------------------ part 2: real CFGs

/// The transfer function attached to a real CFG edge (by edge kind only).
fn fun_of_edge(e: &Edge) -> Fun {
    match e {
        Edge::Block => Fun::Id,
        Edge::Jump(_, None) => Fun::Add(1),
        Edge::Jump(_, Some(_)) => Fun::Guard(1),
        Edge::Call(_) => Fun::Add(2),
        Edge::ExternCallStub(_) => Fun::Meet(0b110),
        Edge::CrCallStub => Fun::Blocked,
        Edge::CrReturnStub => Fun::Id,
        Edge::CallCombine(_) => Fun::Id,
        Edge::ReturnCombine(_) => Fun::Const(0b100),
    }
}

fn is_permutation(list: &[usize], n: usize) -> bool {
    let mut seen = vec![false; n];
    if list.len() != n {
        return false;
    }
    for &x in list {
        if x >= n || seen[x] {
            return false;
        }
        seen[x] = true;
    }
    true
}

fn run_cfg_case(ctx: &Ctx, prog: &ProgSpec, tally: &mut Tally) {
    let case = || serde_json::to_value(Case::Cfg { prog: prog.clone() }).unwrap();
    let program = c07_cfg::build_program(prog);
    let graph = match catch(|| cfg::get_program_cfg(&program)) {
        Ok(g) => g,
        Err(msg) => {
            ctx.violation(format!("cfg-build panic {}", mcx::panic_site(&msg)), case(), json!({"observed": msg}));
            return;
        }
    };
    let n = graph.node_count();
    tally.cfg_max_nodes = tally.cfg_max_nodes.max(n as u64);
    tally.cfg_max_edges = tally.cfg_max_edges.max(graph.edge_count() as u64);
    let entry = graph
        .node_indices()
        .find(|i| matches!(graph[*i], Node::BlkStart(b, s) if b.tid == c07_cfg::blk_tid(0, 0) && s.tid == c07_cfg::sub_tid(0)))
        .map(|i| i.index())
        .unwrap_or_else(|| mcx::machinery("entry node of FUN_0 not found"));
    // the backward analyses hand the *reversed* CFG to the same functions
    let mut reversed = graph.clone();
    reversed.reverse();
    for (gname, graph, start) in [("forward", &graph, entry), ("reversed", &reversed, n - 1)] {
        let mut orders: Vec<(&str, Option<Vec<usize>>)> = vec![("new", None), ("reverse_index", Some((0..n).rev().collect()))];
        for (name, f) in [
            ("bottom_up", create_bottom_up_worklist as fn(&cfg::Graph) -> Vec<NodeIndex>),
            ("top_down", create_top_down_worklist as fn(&cfg::Graph) -> Vec<NodeIndex>),
        ] {
            tally.worklist_calls += 1;
            match catch(|| f(graph)) {
                Err(msg) => ctx.violation(format!("panic {}", mcx::panic_site(&msg)), case(), json!({"in": name, "graph": gname, "observed": msg})),
                Ok(list) => {
                    let list: Vec<usize> = list.iter().map(|x| x.index()).collect();
                    tally.outcomes.insert(mcx::fixed_hash(&(name, &list)));
                    if is_permutation(&list, n) {
                        if list.iter().enumerate().any(|(i, x)| i != *x) {
                            tally.worklist_not_identity += 1;
                        }
                        orders.push((name, Some(list)));
                    } else {
                        ctx.violation(
                            format!("worklist-not-permutation {name}"),
                            case(),
                            json!({"graph": gname, "observed": list, "expected": format!("a permutation of 0..{n}")}),
                        );
                    }
                }
            }
        }
        // the solver on the real graph under the real orders
        let edges: Vec<(usize, usize)> = graph.edge_indices().map(|e| graph.edge_endpoints(e).map(|(s, t)| (s.index(), t.index())).unwrap()).collect();
        let funs: Vec<Fun> = graph.edge_indices().map(|e| fun_of_edge(&graph[e])).collect();
        for sc in [StartCfg { default_empty: false, starts: vec![(start, 0b001)] }, StartCfg { default_empty: true, starts: vec![(start, 0b001)] }] {
            let init = initial_assignment(n, sc.default_empty, &sc.starts);
            let (lfp, _) = kleene_lfp(n, &edges, &funs, &init);
            if lfp != init {
                tally.nontrivial += 1;
            }
            for (oname, order) in &orders {
                for bound in [None, Some(1), Some(2), Some(3), Some(6)] {
                    let viol = run_one(graph, &edges, &funs, &sc, &lfp, order.as_deref(), bound, tally);
                    for (key, mut detail) in viol {
                        detail["graph"] = json!(gname);
                        detail["order"] = json!(oname);
                        detail["bound"] = json!(bound);
                        detail["default_empty"] = json!(sc.default_empty);
                        ctx.violation(format!("cfg {key}"), case(), detail);
                    }
                }
            }
        }
    }
}

fn explore_cfgs(ctx: &Ctx, sizes: &[usize]) -> Value {
    let alph: Vec<Vec<TermSpec>> = (0..sizes.len()).map(|f| c07_cfg::terminators(sizes, f)).collect();
    // one dimension per block
    let mut dims = Vec::new();
    let mut owner = Vec::new();
    for (f, k) in sizes.iter().enumerate() {
        for _ in 0..*k {
            dims.push(alph[f].len() as u64);
            owner.push(f);
        }
    }
    let total = mcx::space::size(&dims);
    par_fold(total, 64, Tally::default, |tally: &mut Tally, i| {
        if STOP.load(Ordering::Relaxed) {
            return;
        }
        if i % 64 == 0 && ctx.violation_count() > VIOLATION_CAP {
            STOP.store(true, Ordering::Relaxed);
            return;
        }
        let d = mcx::space::decode(i, &dims);
        let mut subs: Vec<Vec<TermSpec>> = sizes.iter().map(|_| Vec::new()).collect();
        for (pos, letter) in d.iter().enumerate() {
            subs[owner[pos]].push(alph[owner[pos]][*letter].clone());
        }
        let prog = ProgSpec { subs };
        ctx.sample(|| serde_json::to_value(Case::Cfg { prog: prog.clone() }).unwrap());
        run_cfg_case(ctx, &prog, tally);
        tally.cfg_programs += 1;
    }, |mut tally| tally.flush(ctx));
    json!({"function_sizes": sizes, "terminators_per_block": dims, "programs": total})
}

fn run_case(ctx: &Ctx, case: &Case) {
    match case {
        Case::Synth { n, edges, default_empty, starts, order, bound } => {
            let e: Vec<(usize, usize)> = edges.iter().map(|(s, t, _)| (*s, *t)).collect();
            let funs: Vec<Fun> = edges.iter().map(|(_, _, f)| *f).collect();
            let graph = build_synth_graph(*n, &e);
            let sc = StartCfg { default_empty: *default_empty, starts: starts.clone() };
            let init = initial_assignment(*n, sc.default_empty, &sc.starts);
            let (lfp, _) = kleene_lfp(*n, &e, &funs, &init);
            let mut tally = Tally::default();
            let viol = run_one(&graph, &e, &funs, &sc, &lfp, order.as_deref(), *bound, &mut tally);
            println!("replay: init={:?} lfp={:?} violations={}", fmt_vals(&init), fmt_vals(&lfp), viol.len());
            for (key, detail) in viol {
                println!("replay: {key}: {detail}");
                ctx.violation(key, serde_json::to_value(case).unwrap(), detail);
            }
            tally.flush(ctx);
        }
        Case::Cfg { prog } => {
            let mut tally = Tally::default();
            run_cfg_case(ctx, prog, &mut tally);
            tally.flush(ctx);
        }
    }
}

fn main() {
    let ctx = Ctx::new("C07");
    match check_monotone(&alphabet_full()) {
        Ok(n) => ctx.stat("alphabet_monotonicity_tests", n),
        Err(e) => mcx::machinery(&e),
    }
    for a in [alphabet_core(), alphabet_wide(), alphabet_dense4(), alphabet_dense3(), alphabet_dense2()] {
        if let Some(f) = a.iter().find(|f| !alphabet_full().contains(f)) {
            mcx::machinery(&format!("letter {f:?} is not in the full alphabet"));
        }
    }
    if let Some(c) = ctx.replay_case() {
        let case: Case = serde_json::from_value(c.clone()).unwrap_or_else(|e| mcx::machinery(&format!("bad case: {e}")));
        run_case(&ctx, &case);
        ctx.finish("replay of one case", false);
    }
    let ctx = &ctx;
    let (core, wide, full) = (alphabet_core(), alphabet_wide(), alphabet_full());
    let mut slices = Vec::new();
    let mut cfgs = Vec::new();
    let shapes: &[&[usize]] = if ctx.thorough() { &[&[1], &[2], &[3], &[1, 1], &[2, 1], &[2, 2], &[3, 1], &[1, 1, 1], &[2, 1, 1]] } else { &[&[1], &[2], &[1, 1], &[2, 1], &[2, 2]] };
    for s in shapes {
        cfgs.push(explore_cfgs(ctx, s));
    }
    ctx.stat("elapsed_s_after_real_cfgs", ctx.elapsed_s() as u64);
    let (d2, d4) = (alphabet_dense2(), alphabet_dense4());
    // (name, nodes, self-loops, max parallel edges, max edges, alphabet, every start position)
    let plan: Vec<(&str, usize, bool, usize, usize, &[Fun], bool)> = if !ctx.thorough() {
        vec![
            ("n1-full-all", 1, true, 2, 2, &full, true),
            ("n2-full-le3", 2, true, 2, 3, &full, true),
            ("n2-wide-le4", 2, true, 2, 4, &wide, true),
            ("n2-core-all", 2, true, 2, 8, &core, true),
            ("n3-core-le4", 3, true, 2, 4, &core, true),
            ("n3-simple-all-dense2", 3, true, 1, 9, &d2, true),
            ("n4-core-le3", 4, true, 2, 3, &core, false),
            ("n5-core-le2", 5, true, 2, 2, &core, false),
        ]
    } else {
        vec![
            ("n1-full-all", 1, true, 2, 2, &full, true),
            ("n2-full-le4", 2, true, 2, 4, &full, true),
            ("n2-wide-le6", 2, true, 2, 6, &wide, true),
            ("n2-core-all", 2, true, 2, 8, &core, true),
            ("n3-wide-le4", 3, true, 2, 4, &wide, true),
            ("n3-core-le5", 3, true, 2, 5, &core, true),
            ("n3-simple-all-dense4", 3, true, 1, 9, &d4, true),
            ("n4-core-le4", 4, true, 2, 4, &core, false),
            ("n4-simple-noloops-all-dense2", 4, false, 1, 12, &d2, false),
            ("n5-core-le3", 5, true, 2, 3, &core, false),
        ]
    };
    for (name, n, loops, mult, me, letters, allpos) in plan {
        slices.push(explore_slice(ctx, name, n, loops, mult, me, letters, allpos));
        ctx.stat(&format!("elapsed_s_after_{name}"), ctx.elapsed_s() as u64);
    }
    if STOP.load(Ordering::Relaxed) {
        ctx.cap_hit(&format!("enumeration stopped early after more than {VIOLATION_CAP} violations"));
    }
    ctx.set("bounds", json!({
        "lattice": "subsets of {0,1,2} (u8 bit mask), join = union; 'no value' below the empty set",
        "synthetic_slices": slices,
        "orders": "Computation::new's own order + every permutation passed to from_node_priority_list",
        "modes": "compute(), compute_with_max_steps(b) for b = 1..=6",
        "start_configs": "one start node {0}; two start nodes {0},{1}; default Some(empty) alone; default Some(empty) + one start node {0} (every node position for n<=3, node 0 / nodes 0,1 for n>=4)",
        "transfer_budget": "1000 + 50*|E| update_edge calls per run",
        "real_cfgs": cfgs,
    }));
    ctx.assume("all transfer functions are monotone (checked at start-up for every letter) and the lattice is finite: the preconditions of the statement");
    ctx.assume("a node without a value is below every value and edges do not fire from it; with default_value = Some(empty) every node starts with the empty set, so the oracle's initial assignment is default everywhere, start values at the start nodes");
    ctx.assume("'processed at most b times' is judged per edge: one processing of a node evaluates each out-edge once, so no edge may be transferred more than b times within one compute_with_max_steps call; the sum over a node's out-edges may be larger");
    ctx.assume("unfinished bounded runs: only the step bound is demanded; 'worklist contains every node with a violated out-edge' and 'intermediate result below the lfp' are reported as info_* statistics only");
    ctx.assume("priority lists passed to from_node_priority_list are permutations of all node indices (what create_*_worklist is checked to return in part 2)");
    ctx.assume("n>=4: start positions are fixed to node 0 / nodes (0,1): the graph slice is closed under node renaming and all priority permutations are enumerated, so only edge-insertion-order variants are lost");
    ctx.finish(
        "one case = (edge-labelled multigraph, start configuration, priority order, mode); every case of every slice listed under bounds.synthetic_slices is run through the real Computation and compared with a naive Kleene iteration (compute: values == lfp and termination within the transfer budget; bounded: no edge transferred more than b times, stabilized => closed and == lfp). Part 2: every program of bounds.real_cfgs: create_bottom_up_worklist/create_top_down_worklist are permutations of the CFG's node indices, and the solver on the real CFG (transfer function by edge kind) under new/bottom-up/top-down/reverse orders reaches the Kleene lfp. non-trivial = the least fixpoint differs from the initial assignment (something must be propagated)",
        true,
    );
}
