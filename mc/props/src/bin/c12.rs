//! C12 — lifted and normalized IR is size-consistent.
//! Shape E over the P-Code block space of C11 (batched into functions, once with
//! unconnected blocks and once chained block-to-block so that inter-block passes
//! see flow): after lifting, after `normalize_basic` and after *each* pass of
//! `normalize_optimize` a typing walk checks every Def and Jmp.

#[path = "../shared/pcode_space.rs"]
mod pcode_space;

use mcx::{catch, par_for, Ctx};
use pcode_space::*;
use props::ccl::analysis;
use props::ccl::intermediate_representation as ir;
use props::ccl::pcode as pc;
use serde::{Deserialize, Serialize};
use serde_json::json;

#[derive(Serialize, Deserialize, Clone, Debug)]
struct Case {
    cases: Vec<BlockCase>,
    chained: bool,
}

/// The typing rules of the property statement.
fn type_expr(e: &ir::Expression) -> Result<(), String> {
    use ir::Expression::*;
    match e {
        Var(v) => {
            if u64::from(v.size) == 0 {
                return Err(format!("variable {v} of size 0"));
            }
            Ok(())
        }
        Const(_) | Unknown { .. } => Ok(()),
        BinOp { op, lhs, rhs } => {
            type_expr(lhs)?;
            type_expr(rhs)?;
            use ir::BinOpType::*;
            match op {
                Piece | IntLeft | IntRight | IntSRight => Ok(()),
                _ => {
                    if lhs.bytesize() != rhs.bytesize() {
                        Err(format!("{op:?} on operands of size {} and {}: {e}", u64::from(lhs.bytesize()), u64::from(rhs.bytesize())))
                    } else {
                        Ok(())
                    }
                }
            }
        }
        UnOp { arg, .. } => type_expr(arg),
        Cast { op, size, arg } => {
            type_expr(arg)?;
            if matches!(op, ir::CastOpType::IntZExt | ir::CastOpType::IntSExt) && *size < arg.bytesize() {
                return Err(format!("extension {op:?} from {} to {} bytes: {e}", u64::from(arg.bytesize()), u64::from(*size)));
            }
            Ok(())
        }
        Subpiece { low_byte, size, arg } => {
            type_expr(arg)?;
            if u64::from(*low_byte) + u64::from(*size) > u64::from(arg.bytesize()) || u64::from(*size) == 0 {
                return Err(format!("subpiece [{}, +{}) of a {}-byte value: {e}", u64::from(*low_byte), u64::from(*size), u64::from(arg.bytesize())));
            }
            Ok(())
        }
    }
}

fn type_project(p: &ir::Project, ctx: &Ctx) -> Vec<(String, String, String)> {
    // returns (class, tid, message)
    let ptr = p.stack_pointer_register.size;
    let mut out = Vec::new();
    for sub in p.program.term.subs.values() {
        for blk in &sub.term.blocks {
            for d in &blk.term.defs {
                let r: Result<(), (String, String)> = (|| {
                    match &d.term {
                        ir::Def::Assign { var, value } => {
                            type_expr(value).map_err(|m| ("ill-sized expression".to_string(), m))?;
                            if var.size != value.bytesize() {
                                return Err(("assignment size".to_string(), format!("{} := value of size {}: {}", var, u64::from(value.bytesize()), value)));
                            }
                        }
                        ir::Def::Load { address, .. } => {
                            type_expr(address).map_err(|m| ("ill-sized expression".to_string(), m))?;
                            if address.bytesize() != ptr {
                                return Err(("load address size".to_string(), format!("address of size {}: {address}", u64::from(address.bytesize()))));
                            }
                        }
                        ir::Def::Store { address, value } => {
                            type_expr(address).map_err(|m| ("ill-sized expression".to_string(), m))?;
                            type_expr(value).map_err(|m| ("ill-sized expression".to_string(), m))?;
                            if address.bytesize() != ptr {
                                return Err(("store address size".to_string(), format!("address of size {}: {address}", u64::from(address.bytesize()))));
                            }
                        }
                    }
                    Ok(())
                })();
                if let Err((c, m)) = r {
                    out.push((c, format!("{}", d.tid), m));
                }
            }
            for j in &blk.term.jmps {
                let e = match &j.term {
                    ir::Jmp::BranchInd(e) | ir::Jmp::Return(e) | ir::Jmp::CallInd { target: e, .. } => {
                        if e.bytesize() != ptr {
                            ctx.stat("reported_only_indirect_target_not_pointer_sized", 1);
                        }
                        Some(e)
                    }
                    ir::Jmp::CBranch { condition, .. } => {
                        if u64::from(condition.bytesize()) != 1 {
                            ctx.stat("reported_only_condition_not_one_byte", 1);
                        }
                        Some(condition)
                    }
                    _ => None,
                };
                if let Some(e) = e {
                    if let Err(m) = type_expr(e) {
                        out.push(("ill-sized expression".to_string(), format!("{}", j.tid), m));
                    }
                }
            }
        }
    }
    out
}

fn build(case: &Case) -> pc::Project {
    let mut cases = case.cases.clone();
    if case.chained {
        let n = cases.len();
        for (i, c) in cases.iter_mut().enumerate() {
            if c.jmps.is_empty() && i + 1 < n {
                let next = format!("{:08x}", 0x10000 + 0x10 * (i as u64 + 1));
                c.jmps.push(pc::Jmp { mnemonic: pc::JmpType::BRANCH, goto: Some(pc::Label::Direct(props::pcode::blk_tid(&next))), call: None, condition: None, target_hints: None });
            }
        }
    }
    project_for(&cases).0
}

fn run_case(ctx: &Ctx, case: &Case) {
    let raw = build(case);
    let case_json = |blk_label: Option<&str>| {
        // shrink the replay to the offending block when it is known and the batch is unchained
        match (blk_label, case.chained) {
            (Some(l), false) => serde_json::to_value(Case { cases: case.cases.iter().filter(|c| c.label == l).cloned().collect(), chained: false }).unwrap(),
            _ => serde_json::to_value(case).unwrap(),
        }
    };
    let label_of_tid = |tid: &str| -> Option<String> {
        // tids look like instr_<addr>_<k>...; block i has address 0x10000 + 0x10*i
        let addr = tid.split('_').nth(1)?;
        let a = u64::from_str_radix(addr, 16).ok()?;
        if a < 0x10000 {
            return None;
        }
        case.cases.get(((a - 0x10000) / 0x10) as usize).map(|c| c.label.clone())
    };
    let mut p = match catch(|| {
        let mut r = raw.clone();
        let _ = r.normalize();
        r.into_ir_project(0x10000)
    }) {
        Ok(p) => p,
        Err(pn) => {
            if case.cases.len() > 1 {
                for c in &case.cases {
                    run_case(ctx, &Case { cases: vec![c.clone()], chained: false });
                }
            } else {
                ctx.violation(format!("panic in lifting {}", mcx::panic_site(&pn)), case_json(None), json!({"panic": pn, "label": case.cases[0].label}));
            }
            return;
        }
    };
    type Pass = (&'static str, fn(&mut ir::Project));
    let passes: [Pass; 6] = [
        ("normalize_basic", |p| {
            let _ = p.normalize_basic();
        }),
        ("expression_propagation", |p| analysis::expression_propagation::propagate_input_expression(p)),
        ("substitute_trivial_expressions", |p| p.substitute_trivial_expressions()),
        ("dead_variable_elimination", |p| analysis::dead_variable_elimination::remove_dead_var_assignments(p)),
        ("propagate_control_flow", |p| ir::propagate_control_flow::propagate_control_flow(p)),
        ("stack_alignment_substitution", |p| {
            let _ = analysis::stack_alignment_substitution::substitute_and_on_stackpointer(p);
        }),
    ];
    let mut stage = "lift";
    let mut idx = 0;
    loop {
        ctx.add_transitions(1);
        let problems = type_project(&p, ctx);
        if !problems.is_empty() {
            let mut seen = std::collections::BTreeSet::new();
            for (class, tid, msg) in problems {
                let lbl = label_of_tid(&tid);
                let shape = lbl.as_deref().map(|l| l.split(' ').last().unwrap_or("").to_string()).unwrap_or_default();
                let key = format!("ill-sized after {stage}: {class} [{shape}]");
                if seen.insert(key.clone()) {
                    ctx.violation(key, case_json(lbl.as_deref()), json!({"stage": stage, "tid": tid, "message": msg, "block": lbl, "chained": case.chained}));
                }
            }
            return; // later stages would only repeat it
        }
        if idx == passes.len() {
            break;
        }
        let (name, f) = passes[idx];
        idx += 1;
        if let Err(pn) = catch(|| f(&mut p)) {
            if case.cases.len() > 1 && !case.chained {
                for c in &case.cases {
                    run_case(ctx, &Case { cases: vec![c.clone()], chained: false });
                }
            } else {
                ctx.violation(format!("panic in {name} {}", mcx::panic_site(&pn)), case_json(None), json!({"panic": pn, "chained": case.chained}));
            }
            return;
        }
        stage = name;
    }
    ctx.outcome(&p.program.term.subs.values().map(|s| s.term.blocks.iter().map(|b| b.term.defs.len()).sum::<usize>()).sum::<usize>());
}

fn main() {
    let ctx = Ctx::new("C12");
    if let Some(c) = ctx.replay_case() {
        let case: Case = serde_json::from_value(c.clone()).unwrap_or_else(|e| mcx::machinery(&format!("bad case: {e}")));
        run_case(&ctx, &case);
        ctx.finish("replay of one case", false);
    }
    let ctx = &ctx;
    let cases = all_cases(ctx.thorough());
    let n = cases.len() as u64;
    const BATCH: u64 = 64;
    let batches = (n + BATCH - 1) / BATCH;
    par_for(batches * 2, 1, |i| {
        let (b, chained) = (i / 2, i % 2 == 1);
        let lo = (b * BATCH) as usize;
        let hi = ((b + 1) * BATCH).min(n) as usize;
        let case = Case { cases: cases[lo..hi].to_vec(), chained };
        ctx.sample(|| json!({"batch": b, "chained": chained, "first_blocks": case.cases.iter().take(3).map(|c| c.label.clone()).collect::<Vec<_>>()}));
        ctx.add_states((hi - lo) as u64);
        ctx.add_nontrivial((hi - lo) as u64);
        run_case(ctx, &case);
    });
    ctx.set("bounds", json!({"block_cases": n, "batch": BATCH, "arrangements": ["unconnected blocks", "blocks chained by BRANCH"], "stages_checked": ["lift", "normalize_basic", "expression_propagation", "substitute_trivial_expressions", "dead_variable_elimination", "propagate_control_flow", "stack_alignment_substitution"]}));
    ctx.assume("the raw P-Code is size-consistent as Ghidra emits it");
    ctx.assume("zero/sign extensions are accepted with target size >= source size; condition sizes and indirect target sizes are reported as statistics, not required");
    ctx.finish("one case per batch of raw P-Code blocks (each block of the C11 space appears in an unconnected and in a chained arrangement); after lifting and after every normalization pass every Def/Jmp is typed by the statement's rules; every block is counted as a distinct non-trivial case", true);
}
