//! C21 — the analyzer completes on every well-formed input and its output is well-formed.
//! Shape E on the real CLI binary: a bounded family of P-Code projects (1-3 functions
//! from 23 body templates) x extern-symbol tables x ELF images x check selections,
//! each run through `cwe_checker ELF --pcode-raw JSON --json --quiet [--partial ...]`
//! with the shipped configuration installed in a scratch XDG_CONFIG_HOME.

#[path = "../shared/cli_gen.rs"]
mod cli_gen;
#[path = "../shared/cli_run.rs"]
mod cli_run;

use cli_gen::{hex_decode, input_family, CliInput};
use cli_run::{all_names, judge_wellformed, Cli, KNOWN_CHECKS};
use mcx::{par_for, Ctx};
use serde::{Deserialize, Serialize};
use serde_json::json;

#[derive(Serialize, Deserialize, Clone, Debug)]
struct Case {
    input: CliInput,
    /// CLI arguments after `ELF --pcode-raw JSON --json --quiet`
    args: Vec<String>,
}

/// default, all checks, each single check
fn selections(full: bool) -> Vec<Vec<String>> {
    let mut s = vec![vec![], vec!["--partial".to_string(), all_names()]];
    if full {
        for n in KNOWN_CHECKS {
            s.push(vec!["--partial".to_string(), n.to_string()]);
        }
    }
    s
}

fn run_input(ctx: &Ctx, cli: &Cli, input: &CliInput, sels: &[Vec<String>]) {
    let slot = cli.slot();
    let (elf, pcode) = cli.write_input(&slot, &input.pcode_json, &hex_decode(&input.elf_hex));
    for args in sels {
        let out = cli.run(&slot, &elf, &pcode, args, None);
        let j = judge_wellformed(cli, &out);
        ctx.add_transitions(1);
        ctx.stat_max("max_run_wall_ms", out.wall_ms);
        let names: Vec<&str> = j.warnings.as_ref().map(|w| w.iter().map(|x| x.name.as_str()).collect()).unwrap_or_default();
        ctx.outcome(&(out.status, &names, j.ran.len()));
        if !names.is_empty() {
            ctx.add_nontrivial(1);
            ctx.stat("warnings_reported", names.len() as u64);
        }
        ctx.sample(|| json!({"input": input.label, "args": args, "exit": out.status, "warnings": names, "executed": j.ran}));
        for (key, detail) in j.violations {
            let case = Case { input: input.clone(), args: args.clone() };
            let mut d = detail;
            d["input"] = json!(input.label);
            d["args"] = json!(args);
            ctx.violation(key, serde_json::to_value(&case).unwrap(), d);
        }
    }
    cli.drop_slot(&slot);
}

fn main() {
    let ctx = Ctx::new("C21");
    let cli = Cli::setup("C21", false);
    if let Some(c) = ctx.replay_case() {
        let case: Case = serde_json::from_value(c.clone()).unwrap_or_else(|e| mcx::machinery(&format!("bad case: {e}")));
        run_input(&ctx, &cli, &case.input, &[case.args.clone()]);
        cli.cleanup();
        ctx.finish("replay of one case", false);
    }
    let ctx = &ctx;
    let mut specs = input_family(ctx.thorough());
    if let Some(f) = cli_run::dev_filter() {
        specs.retain(|s| s.label().contains(&f));
        ctx.cap_hit(&format!("VERIF_CLI_ONLY={f}: only {} inputs explored", specs.len()));
    }
    let cpu0 = cli_run::children_cpu_ms();
    par_for(specs.len() as u64, 1, |i| {
        let spec = &specs[i as usize];
        let input = spec.build();
        let sels = selections(spec.all_selections);
        ctx.add_states(1);
        ctx.stat(&format!("inputs_{}_functions", spec.templates.len()), 1);
        run_input(ctx, &cli, &input, &sels);
    });
    ctx.stat("children_cpu_s", (cli_run::children_cpu_ms() - cpu0) / 1000);
    ctx.set(
        "bounds",
        json!({
            "templates": cli_gen::TEMPLATES,
            "functions_per_project": if ctx.thorough() { "1, 2 (all ordered pairs), 3 (all ordered triples)" } else { "1, 2 (all ordered pairs)" },
            "extern_tables": "Used, Full, Kernel, None",
            "register_tables": "x86_64 (8-byte) and ARM-style (4-byte)",
            "elf_kinds": "ET_DYN minimal, ET_DYN with sections+.debug_info, ET_EXEC, ET_REL kernel module, ET_REL plain (quick: without ET_EXEC)",
            "selections": "default, --partial <all 19>, --partial <each single check>; quick: all 21 only for single-function x86_64 inputs with (Full|Used, ET_DYN+sections), (Full|Kernel, kernel module), default + all otherwise; thorough: all 21 for 1- and 2-function inputs, default + all for 3-function inputs",
            "inputs": specs.len(),
        }),
    );
    ctx.assume("inputs are what the extractor can emit: blocks with 0, 1 or [CBRANCH, BRANCH] jumps, TIDs sub_/blk_/instr_, extern symbols with the default calling convention, register tables that contain every register used");
    ctx.assume("a check whose warning concerns the whole binary (CWE215, CWE332) defines no address; every other check must report at least one");
    ctx.assume("a warning names a known check with its version if some known check M reports under that CWE identifier and the version is M's; documented identifiers: CWE119 -> CWE119/CWE125/CWE787, CWE416 -> CWE416/CWE415, Memory -> CWE476, every other check its own name");
    ctx.assume("the table of known checks and versions is the library's get_modules(); the canonical order is the derived Ord of CweWarning re-implemented on the parsed JSON");
    cli.cleanup();
    ctx.finish(
        "one case = (P-Code project, ELF image, CLI selection); every case is run through the real cwe_checker binary; oracle: exit status 0, stderr empty apart from hook lines, stdout a JSON array of well-formed warnings with known name, that check's version, addresses where defined, sorted in canonical order; non-trivial = the run reported at least one warning",
        true,
    );
}
