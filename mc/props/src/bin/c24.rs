//! C24 — call-sequence queries return exactly the calls on source-to-target paths.
//!
//! Statement: for every program and every pair of functions, the call-sequence
//! query returns exactly those direct calls between internal functions that lie
//! on some call-graph path from the source function to the target function.
//!
//! Shape E: ALL call graphs on <= N functions where every function has <= 2 call
//! jumps, each one a direct call to any internal function (self-calls, cycles,
//! parallel edges), a direct call to an extern symbol, an indirect call, or a
//! direct call to a TID that does not exist; every ordered (source, target)
//! pair including source == target. The real `get_program_callgraph` +
//! `find_call_sequences_to_target` are compared with a brute-force oracle that
//! shares no code with them: the call jump `c` in function `u` with internal
//! callee `v` is expected iff `u` is reachable from the source and the target
//! is reachable from `v` (both reflexively) over direct internal call edges.
//! "Call identity" is the TID of the call jump (the query's doc comment:
//! "Collect and return all call TIDs of call sequences ..", type `BTreeSet<Tid>`).

use mcx::{catch, fixed_hash, panic_site, par_fold, Ctx};
use props::ccl::analysis::callgraph::{find_call_sequences_to_target, get_program_callgraph};
use props::ccl::intermediate_representation::*;
use props::irb::*;
use serde::{Deserialize, Serialize};
use serde_json::json;
use std::collections::{BTreeMap, BTreeSet};

/// Target of one call jump.
#[derive(Serialize, Deserialize, Clone, Copy, Debug, PartialEq, Eq, Hash, PartialOrd, Ord)]
enum Tgt {
    /// direct call to internal function number i
    Fn(usize),
    /// direct call to the extern symbol `puts`
    Extern,
    /// indirect call through a register
    Indirect,
    /// direct call to a TID that is neither a function nor an extern symbol
    Missing,
}

/// One case: a call graph (per function the list of its call jumps in block order)
/// and one ordered (source, target) pair of function numbers.
#[derive(Serialize, Deserialize, Clone, Debug)]
struct Case {
    calls: Vec<Vec<Tgt>>,
    source: usize,
    target: usize,
}

const MAX_CALLS: u32 = 2;

/// Bounds of the TID name tables (functions, call jumps + final return per function).
const MAXF: usize = 16;
const MAXK: usize = MAX_CALLS as usize + 1;

/// All TIDs of the generated programs, built once (extractor name spaces: `FUN_*`, `blk_*`, `instr_*`).
struct Names {
    fun: Vec<Tid>,
    call: Vec<Vec<Tid>>,
    blk: Vec<Vec<Tid>>,
    /// call jump TID -> bit number `u * MAXK + k`
    bit_of_call: BTreeMap<Tid, u32>,
}
fn names() -> &'static Names {
    static N: std::sync::OnceLock<Names> = std::sync::OnceLock::new();
    N.get_or_init(|| {
        let fun: Vec<Tid> = (0..MAXF).map(|i| tid_at(&format!("FUN_{:x}", 0x1000 * (i + 1)), &format!("{:x}", 0x1000 * (i + 1)))).collect();
        let at = |i: usize, k: usize, off: usize| 0x1000 * (i + 1) + 0x10 * k + off;
        let call: Vec<Vec<Tid>> = (0..MAXF).map(|i| (0..=MAXK).map(|k| tid_at(&format!("instr_{:x}_2", at(i, k, 8)), &format!("{:x}", at(i, k, 8)))).collect()).collect();
        let blk: Vec<Vec<Tid>> = (0..MAXF).map(|i| (0..=MAXK).map(|k| tid_at(&format!("blk_{:x}", at(i, k, 0)), &format!("{:x}", at(i, k, 0)))).collect()).collect();
        let mut bit_of_call = BTreeMap::new();
        for i in 0..MAXF {
            for k in 0..MAXK {
                bit_of_call.insert(call[i][k].clone(), (i * MAXK + k) as u32);
            }
        }
        Names { fun, call, blk, bit_of_call }
    })
}
fn fun_tid(i: usize) -> Tid {
    names().fun[i].clone()
}
fn call_tid(i: usize, k: usize) -> Tid {
    names().call[i][k].clone()
}
fn blk_tid(i: usize, k: usize) -> Tid {
    names().blk[i][k].clone()
}
fn extern_tid() -> Tid {
    tid("EXT_puts")
}
fn missing_tid() -> Tid {
    tid_at("FUN_dead0", "dead0")
}

/// The program for a call graph: function i consists of a chain of blocks, the k-th block ends in the
/// k-th call (returning to the next block), the last block returns. Well-formed: every return target exists.
fn build_program(calls: &[Vec<Tgt>]) -> Term<Program> {
    let mut subs = BTreeMap::new();
    for (i, cs) in calls.iter().enumerate() {
        let mut blocks = Vec::with_capacity(cs.len() + 1);
        for (k, c) in cs.iter().enumerate() {
            let ret = Some(blk_tid(i, k + 1));
            let term = match c {
                Tgt::Fn(v) => Jmp::Call { target: fun_tid(*v), return_: ret },
                Tgt::Extern => Jmp::Call { target: extern_tid(), return_: ret },
                Tgt::Missing => Jmp::Call { target: missing_tid(), return_: ret },
                Tgt::Indirect => Jmp::CallInd { target: reg("RAX", 8), return_: ret },
            };
            blocks.push(Term {
                tid: blk_tid(i, k),
                term: Blk { defs: Vec::new(), jmps: vec![Term { tid: call_tid(i, k), term }], indirect_jmp_targets: Vec::new() },
            });
        }
        let last = cs.len();
        let ret_jmp = Term { tid: call_tid(i, last), term: Jmp::Return(reg("RAX", 8)) };
        blocks.push(Term { tid: blk_tid(i, last), term: Blk { defs: Vec::new(), jmps: vec![ret_jmp], indirect_jmp_targets: Vec::new() } });
        let s = Term { tid: fun_tid(i), term: Sub { name: format!("f{i}"), blocks, calling_convention: None } };
        subs.insert(s.tid.clone(), s);
    }
    let mut extern_symbols = BTreeMap::new();
    let mut e = extern_symbol("EXT_puts", "puts", vec![arg_reg("RDI", 8)], vec![arg_reg("RAX", 8)], false);
    e.tid = extern_tid();
    extern_symbols.insert(e.tid.clone(), e);
    Term { tid: tid("program"), term: Program { subs, extern_symbols, entry_points: BTreeSet::new(), address_base_offset: 0 } }
}

/// Oracle side: reflexive-transitive closure of the direct internal call relation, as bit masks.
/// `reach[u]` has bit `v` set iff there is a (possibly empty) sequence of direct internal calls from u to v.
fn closure(calls: &[Vec<Tgt>]) -> Vec<u32> {
    let n = calls.len();
    let mut reach: Vec<u32> = (0..n).map(|u| 1u32 << u).collect();
    for (u, cs) in calls.iter().enumerate() {
        for c in cs {
            if let Tgt::Fn(v) = c {
                reach[u] |= 1 << v;
            }
        }
    }
    // brute force: repeat "u reaches everything its successors reach" until nothing changes
    loop {
        let mut changed = false;
        for u in 0..n {
            let mut r = reach[u];
            for v in 0..n {
                if reach[u] >> v & 1 == 1 {
                    r |= reach[v];
                }
            }
            if r != reach[u] {
                reach[u] = r;
                changed = true;
            }
        }
        if !changed {
            return reach;
        }
    }
}

#[derive(Default)]
struct Acc {
    states: u64,
    transitions: u64,
    nontrivial: u64,
    proper: u64,
    evaluations: u64,
    outcomes: BTreeSet<u64>,
}

impl Acc {
    fn flush(self, ctx: &Ctx) {
        ctx.add_states(self.states);
        ctx.add_transitions(self.transitions);
        ctx.add_evaluations(self.evaluations);
        ctx.add_nontrivial(self.nontrivial);
        ctx.stat("queries_expected_proper_nonempty_subset_of_internal_calls", self.proper);
        for o in &self.outcomes {
            ctx.outcome(o);
        }
    }
}

fn case_json(calls: &[Vec<Tgt>], s: usize, t: usize) -> serde_json::Value {
    serde_json::to_value(Case { calls: calls.to_vec(), source: s, target: t }).unwrap()
}

/// Run the real code on one call graph and judge the given (source, target) pairs
/// (`None`: all ordered pairs).
fn run_graph(ctx: &Ctx, acc: &mut Acc, calls: &[Vec<Tgt>], only: Option<(usize, usize)>) {
    let n = calls.len();
    let program = build_program(calls);
    let ftids: Vec<Tid> = (0..n).map(fun_tid).collect();
    // ---- real code: the call graph
    let cg = match catch(|| get_program_callgraph(&program)) {
        Ok(g) => g,
        Err(p) => {
            ctx.violation(format!("panic {}", panic_site(&p)), case_json(calls, 0, 0), json!({"in": "get_program_callgraph", "panic": p, "program": format!("{}", program.term)}));
            acc.transitions += 1;
            return;
        }
    };
    // ---- the graph itself (doc comment of get_program_callgraph): one node per function, one edge per
    // direct call between internal functions, weighted with the call jump
    let mut exp_edges: Vec<(Tid, Tid, Tid)> = Vec::new();
    for (u, cs) in calls.iter().enumerate() {
        for (k, c) in cs.iter().enumerate() {
            if let Tgt::Fn(v) = c {
                exp_edges.push((ftids[u].clone(), ftids[*v].clone(), call_tid(u, k)));
            }
        }
    }
    exp_edges.sort();
    let n_internal_edges = exp_edges.len();
    {
        use petgraph::visit::EdgeRef;
        let mut nodes: Vec<Tid> = cg.node_indices().map(|i| cg[i].clone()).collect();
        nodes.sort();
        let mut want_nodes = ftids.clone();
        want_nodes.sort();
        if nodes != want_nodes {
            ctx.violation("callgraph wrong-nodes", case_json(calls, 0, 0), json!({"observed": format!("{nodes:?}"), "expected": format!("{want_nodes:?}")}));
        }
        let mut edges: Vec<(Tid, Tid, Tid)> = cg.edge_references().map(|e| (cg[e.source()].clone(), cg[e.target()].clone(), e.weight().tid.clone())).collect();
        edges.sort();
        if edges != exp_edges {
            let show = |v: &Vec<(Tid, Tid, Tid)>| v.iter().map(|(a, b, c)| format!("{a}->{b} by {c}")).collect::<Vec<_>>();
            ctx.violation("callgraph wrong-edges", case_json(calls, 0, 0), json!({"observed": show(&edges), "expected": show(&exp_edges), "program": format!("{}", program.term)}));
        }
        acc.transitions += 1;
    }
    // ---- the query, for every ordered pair
    let reach = closure(calls);
    acc.evaluations += (n * n) as u64;
    for s in 0..n {
        for t in 0..n {
            if let Some(p) = only {
                if p != (s, t) {
                    continue;
                }
            }
            acc.states += 1;
            acc.transitions += 1;
            // expected set as a bit mask over call jumps (bit u*MAXK+k)
            let mut expected_mask: u64 = 0;
            for (u, cs) in calls.iter().enumerate() {
                for (k, c) in cs.iter().enumerate() {
                    if let Tgt::Fn(v) = c {
                        acc.evaluations += 1;
                        if reach[s] >> u & 1 == 1 && reach[*v] >> t & 1 == 1 {
                            expected_mask |= 1 << (u * MAXK + k);
                        }
                    }
                }
            }
            if expected_mask != 0 {
                acc.nontrivial += 1;
                if (expected_mask.count_ones() as usize) < n_internal_edges {
                    acc.proper += 1;
                }
            }
            match catch(|| find_call_sequences_to_target(&cg, &ftids[s], &ftids[t])) {
                Err(p) => {
                    acc.outcomes.insert(fixed_hash(&("panic", panic_site(&p))));
                    ctx.violation(format!("panic {}", panic_site(&p)), case_json(calls, s, t), json!({"in": "find_call_sequences_to_target", "panic": p, "expected": "no panic: both functions exist", "program": format!("{}", program.term)}));
                }
                Ok(observed) => {
                    // observed set as bit mask; a TID that is no call jump of the program at all makes the masks differ
                    let mut observed_mask: u64 = 0;
                    let mut foreign = false;
                    for call in observed.iter() {
                        match names().bit_of_call.get(call) {
                            Some(b) => observed_mask |= 1 << b,
                            None => foreign = true,
                        }
                    }
                    acc.outcomes.insert(fixed_hash(&(observed_mask, foreign)));
                    if observed_mask != expected_mask || foreign {
                        let mut expected: BTreeSet<Tid> = BTreeSet::new();
                        for u in 0..n {
                            for k in 0..MAXK {
                                if expected_mask >> (u * MAXK + k) & 1 == 1 {
                                    expected.insert(call_tid(u, k));
                                }
                            }
                        }
                        let missing: Vec<String> = expected.difference(&observed).map(|t| t.to_string()).collect();
                        let extra: Vec<String> = observed.difference(&expected).map(|t| t.to_string()).collect();
                        let detail = json!({
                            "source": ftids[s].to_string(), "target": ftids[t].to_string(),
                            "observed": observed.iter().map(|t| t.to_string()).collect::<Vec<_>>(),
                            "expected": expected.iter().map(|t| t.to_string()).collect::<Vec<_>>(),
                            "missing": missing, "extra": extra,
                            "program": format!("{}", program.term),
                        });
                        if !missing.is_empty() {
                            ctx.violation("callseq missing-call", case_json(calls, s, t), detail.clone());
                        }
                        if !extra.is_empty() {
                            ctx.violation("callseq extra-call", case_json(calls, s, t), detail);
                        }
                    }
                }
            }
        }
    }
}

/// The alphabet of call targets for n functions.
fn alphabet(n: usize) -> Vec<Tgt> {
    let mut a: Vec<Tgt> = (0..n).map(Tgt::Fn).collect();
    a.extend([Tgt::Extern, Tgt::Indirect, Tgt::Missing]);
    a
}

/// All call-jump lists of one function: every sequence over the alphabet with length 0..=MAX_CALLS
/// (`sorted_only`: only sequences whose letters are non-decreasing, i.e. one representative per multiset).
fn layouts(n: usize, sorted_only: bool) -> Vec<Vec<Tgt>> {
    let a = alphabet(n);
    let k = a.len() as u64;
    let mut out = Vec::new();
    for idx in 0..mcx::space::seq_count(k, MAX_CALLS) {
        let seq = mcx::space::seq_decode(idx, k, MAX_CALLS);
        if sorted_only && seq.windows(2).any(|w| w[0] > w[1]) {
            continue;
        }
        out.push(seq.into_iter().map(|i| a[i]).collect());
    }
    out
}

fn explore(ctx: &Ctx, n: usize, sorted_only: bool) -> u64 {
    let lay = layouts(n, sorted_only);
    let l = lay.len() as u64;
    let dims = vec![l; n];
    let total = mcx::space::size(&dims);
    par_fold(
        total,
        512,
        Acc::default,
        |acc, idx| {
            let d = mcx::space::decode(idx, &dims);
            let calls: Vec<Vec<Tgt>> = d.iter().map(|&i| lay[i].clone()).collect();
            ctx.sample(|| json!({"calls": calls, "pairs": "all ordered (source,target)"}));
            run_graph(ctx, acc, &calls, None);
        },
        |acc| acc.flush(ctx),
    );
    ctx.stat(&format!("graphs_n{n}{}", if sorted_only { "_unordered_call_pairs" } else { "" }), total);
    total
}

fn main() {
    let ctx = Ctx::new("C24");
    if let Some(c) = ctx.replay_case() {
        let case: Case = serde_json::from_value(c.clone()).unwrap_or_else(|e| mcx::machinery(&format!("bad case: {e}")));
        let n = case.calls.len();
        let ok = n >= 1 && n <= MAXF && case.calls.iter().all(|c| c.len() <= MAX_CALLS as usize) && case.source < n && case.target < n && case.calls.iter().flatten().all(|c| !matches!(c, Tgt::Fn(v) if *v >= n));
        if !ok {
            mcx::machinery("bad case: function index out of range");
        }
        let mut acc = Acc::default();
        run_graph(&ctx, &mut acc, &case.calls, Some((case.source, case.target)));
        acc.flush(&ctx);
        ctx.finish("replay of one case", false);
    }
    let ctx = &ctx;
    let max_n = if ctx.thorough() { 4 } else { 3 };
    let mut graphs = 0;
    for n in 1..=max_n {
        graphs += explore(ctx, n, false);
    }
    let mut bounds = json!({
        "functions": format!("1..={max_n}"),
        "call_jumps_per_function": "0..=2, every ordered sequence",
        "call_targets": "every internal function (self-calls, cycles, parallel edges), extern symbol, indirect call, missing TID",
        "pairs": "every ordered (source,target), including source==target",
    });
    if ctx.thorough() {
        graphs += explore(ctx, 5, true);
        bounds["functions_5"] = json!("additionally all graphs on 5 functions with <=2 call jumps per function, the two calls of a function taken as an unordered pair (one representative order)");
    }
    ctx.stat("graphs", graphs);
    ctx.set("bounds", bounds);
    ctx.assume("call jumps have unique TIDs (the query returns a set of call TIDs); every call has an existing return block");
    ctx.assume("a path may visit a function more than once (walks); for source == target the calls on cycles through the source are expected, an isolated source yields the empty set");
    ctx.finish(
        "one case = (call graph, ordered function pair); graphs are enumerated by mixed-radix index over the per-function call lists; for every graph the real call graph (nodes, edges) and the real query for every pair are compared with the brute-force closure oracle; non-trivial = the oracle expects at least one call",
        true,
    );
}
