//! C08 — the interprocedural control flow graph represents exactly the program's control flow.
//!
//! Shape E: every raw program of the shared program space (`shared/progspace.rs`) is normalized with the
//! real `Project::normalize_basic`; the result (a well-formed normalized program) is given to the real
//! `get_program_cfg` and the built graph is compared -- as multisets of nodes and of labelled edges --
//! with an independent specification computed from the text of the normalized program.
//! `get_entry_nodes_of_subs` is compared with "every non-empty function -> BlkStart of its first block".

#[path = "../shared/progspace.rs"]
mod progspace;

use mcx::{catch, Ctx};
use petgraph::visit::EdgeRef;
use progspace::*;
use props::ccl::analysis::graph::{get_entry_nodes_of_subs, get_program_cfg, Edge, Graph, Node};
use props::ccl::intermediate_representation::*;
use props::irb::render;
use serde::{Deserialize, Serialize};
use serde_json::json;
use std::collections::{BTreeMap, BTreeSet};

#[derive(Serialize, Deserialize, Clone, Debug)]
struct Case {
    /// blocks per function
    shape: Vec<usize>,
    /// one terminator per block
    letters: Vec<Letter>,
}

// ------------------------------------------------------------------ specification side

type Pair = (Tid, Tid); // (block tid, function tid)

#[derive(Clone, Debug, PartialEq, Eq, PartialOrd, Ord, Hash)]
enum N {
    Start(Pair),
    End(Pair),
    CallSource { source: Pair, target: Pair },
    CallReturn { call: Pair, return_: Pair },
}
impl N {
    fn kind(&self) -> &'static str {
        match self {
            N::Start(_) => "BlkStart",
            N::End(_) => "BlkEnd",
            N::CallSource { .. } => "CallSource",
            N::CallReturn { .. } => "CallReturn",
        }
    }
}

#[derive(Clone, Debug, PartialEq, Eq, PartialOrd, Ord, Hash)]
enum L {
    Block,
    /// jump tid, tid of the untaken conditional jump
    Jump(Tid, Option<Tid>),
    Call(Tid),
    ExternCallStub(Tid),
    CrCallStub,
    CrReturnStub,
    CallCombine(Tid),
    ReturnCombine(Tid),
}
impl L {
    fn kind(&self) -> &'static str {
        match self {
            L::Block => "Block",
            L::Jump(_, None) => "Jump",
            L::Jump(_, Some(_)) => "Jump-untaken",
            L::Call(_) => "Call",
            L::ExternCallStub(_) => "ExternCallStub",
            L::CrCallStub => "CrCallStub",
            L::CrReturnStub => "CrReturnStub",
            L::CallCombine(_) => "CallCombine",
            L::ReturnCombine(_) => "ReturnCombine",
        }
    }
}
type E = (N, N, L);

struct Spec {
    nodes: Vec<N>,
    edges: Vec<E>,
    entries: BTreeMap<Tid, N>,
}

/// The graph the property statement describes for `program`.
///
/// (block, function) pairs: every block listed in a function, closed under "a block that the function's
/// control flow continues in belongs to the function too" (jump targets, hints, return sites of calls) --
/// for a normalized program the closure adds nothing, the rule only matters for the raw-program statistic.
fn specification(program: &Term<Program>) -> Spec {
    let p = &program.term;
    let mut blocks: BTreeMap<&Tid, &Term<Blk>> = BTreeMap::new();
    for s in p.subs.values() {
        for b in &s.term.blocks {
            blocks.entry(&b.tid).or_insert(b);
        }
    }
    // pairs
    let mut pairs: BTreeSet<Pair> = BTreeSet::new();
    let mut work: Vec<Pair> = Vec::new();
    for s in p.subs.values() {
        for b in &s.term.blocks {
            work.push((b.tid.clone(), s.tid.clone()));
        }
    }
    while let Some(pair) = work.pop() {
        if !pairs.insert(pair.clone()) {
            continue;
        }
        let Some(b) = blocks.get(&pair.0) else { continue };
        let mut succ: Vec<&Tid> = Vec::new();
        for j in &b.term.jmps {
            match &j.term {
                Jmp::Branch(t) | Jmp::CBranch { target: t, .. } => succ.push(t),
                Jmp::BranchInd(_) => succ.extend(b.term.indirect_jmp_targets.iter()),
                Jmp::Call { return_: Some(r), .. } | Jmp::CallInd { return_: Some(r), .. } => succ.push(r),
                _ => (),
            }
        }
        for t in succ {
            work.push((t.clone(), pair.1.clone()));
        }
    }
    let returning_pairs_of = |f: &Tid| -> Vec<Pair> {
        pairs
            .iter()
            .filter(|(b, g)| g == f && blocks.get(b).map(|b| b.term.jmps.iter().any(|j| matches!(j.term, Jmp::Return(_)))).unwrap_or(false))
            .cloned()
            .collect()
    };
    let mut nodes = Vec::new();
    let mut edges = Vec::new();
    for pair in &pairs {
        nodes.push(N::Start(pair.clone()));
        nodes.push(N::End(pair.clone()));
        edges.push((N::Start(pair.clone()), N::End(pair.clone()), L::Block));
        let Some(b) = blocks.get(&pair.0) else { continue };
        let f = &pair.1;
        let end = N::End(pair.clone());
        let start_of = |t: &Tid| N::Start((t.clone(), f.clone()));
        for (i, j) in b.term.jmps.iter().enumerate() {
            // "marked with the untaken conditional where applicable": the jump is only executed when the
            // conditional jump directly before it was not taken.
            let untaken = if i > 0 && matches!(b.term.jmps[i - 1].term, Jmp::CBranch { .. }) { Some(b.term.jmps[i - 1].tid.clone()) } else { None };
            match &j.term {
                Jmp::Branch(t) | Jmp::CBranch { target: t, .. } => edges.push((end.clone(), start_of(t), L::Jump(j.tid.clone(), untaken))),
                Jmp::BranchInd(_) => {
                    for h in &b.term.indirect_jmp_targets {
                        edges.push((end.clone(), start_of(h), L::Jump(j.tid.clone(), untaken.clone())));
                    }
                }
                Jmp::Call { target, return_ } => {
                    if p.extern_symbols.contains_key(target) {
                        if let Some(r) = return_ {
                            edges.push((end.clone(), start_of(r), L::ExternCallStub(j.tid.clone())));
                        }
                    } else if let Some(callee) = p.subs.get(target) {
                        if let Some(entry) = callee.term.blocks.first() {
                            let entry_pair = (entry.tid.clone(), callee.tid.clone());
                            let cs = N::CallSource { source: pair.clone(), target: entry_pair.clone() };
                            nodes.push(cs.clone());
                            edges.push((end.clone(), cs.clone(), L::CallCombine(j.tid.clone())));
                            edges.push((cs.clone(), N::Start(entry_pair), L::Call(j.tid.clone())));
                            if let Some(r) = return_ {
                                for rp in returning_pairs_of(&callee.tid) {
                                    let cr = N::CallReturn { call: pair.clone(), return_: rp.clone() };
                                    nodes.push(cr.clone());
                                    edges.push((cs.clone(), cr.clone(), L::CrCallStub));
                                    edges.push((N::End(rp), cr.clone(), L::CrReturnStub));
                                    edges.push((cr, start_of(r), L::ReturnCombine(j.tid.clone())));
                                }
                            }
                        }
                    }
                }
                Jmp::CallInd { return_, .. } => {
                    if let Some(r) = return_ {
                        edges.push((end.clone(), start_of(r), L::ExternCallStub(j.tid.clone())));
                    }
                }
                Jmp::CallOther { .. } | Jmp::Return(_) => (),
            }
        }
    }
    let mut entries = BTreeMap::new();
    for s in p.subs.values() {
        if let Some(b) = s.term.blocks.first() {
            entries.insert(s.tid.clone(), N::Start((b.tid.clone(), s.tid.clone())));
        }
    }
    nodes.sort();
    edges.sort();
    Spec { nodes, edges, entries }
}

// ------------------------------------------------------------------ observation side

fn pair_of(b: &Term<Blk>, s: &Term<Sub>) -> Pair {
    (b.tid.clone(), s.tid.clone())
}
fn node_of(n: &Node) -> N {
    match n {
        Node::BlkStart(b, s) => N::Start(pair_of(b, s)),
        Node::BlkEnd(b, s) => N::End(pair_of(b, s)),
        Node::CallSource { source, target } => N::CallSource { source: pair_of(source.0, source.1), target: pair_of(target.0, target.1) },
        Node::CallReturn { call, return_ } => N::CallReturn { call: pair_of(call.0, call.1), return_: pair_of(return_.0, return_.1) },
    }
}
fn label_of(e: &Edge) -> L {
    match e {
        Edge::Block => L::Block,
        Edge::Jump(j, u) => L::Jump(j.tid.clone(), u.map(|u| u.tid.clone())),
        Edge::Call(j) => L::Call(j.tid.clone()),
        Edge::ExternCallStub(j) => L::ExternCallStub(j.tid.clone()),
        Edge::CrCallStub => L::CrCallStub,
        Edge::CrReturnStub => L::CrReturnStub,
        Edge::CallCombine(j) => L::CallCombine(j.tid.clone()),
        Edge::ReturnCombine(j) => L::ReturnCombine(j.tid.clone()),
    }
}

/// Do the term references carried by nodes and edges denote the terms of `program` (same content)?
fn references_ok(program: &Term<Program>, g: &Graph) -> Result<(), String> {
    let chk_pair = |b: &Term<Blk>, s: &Term<Sub>| -> Result<(), String> {
        let sub = program.term.subs.get(&s.tid).ok_or(format!("unknown sub {}", s.tid))?;
        if !std::ptr::eq(sub, s) && sub != s {
            return Err(format!("sub term {} differs from the program's", s.tid));
        }
        match program.term.find_block(&b.tid) {
            Some(pb) if std::ptr::eq(pb, b) || pb == b => Ok(()),
            _ => Err(format!("block term {} differs from the program's", b.tid)),
        }
    };
    for n in g.node_weights() {
        match n {
            Node::BlkStart(b, s) | Node::BlkEnd(b, s) => chk_pair(b, s)?,
            Node::CallSource { source, target } => {
                chk_pair(source.0, source.1)?;
                chk_pair(target.0, target.1)?;
            }
            Node::CallReturn { call, return_ } => {
                chk_pair(call.0, call.1)?;
                chk_pair(return_.0, return_.1)?;
            }
        }
    }
    for e in g.edge_references() {
        let src_blk = |n: &Node| -> Option<Pair> {
            match n {
                Node::BlkEnd(b, s) => Some(pair_of(b, s)),
                Node::CallSource { source, .. } => Some(pair_of(source.0, source.1)),
                Node::CallReturn { call, .. } => Some(pair_of(call.0, call.1)),
                _ => None,
            }
        };
        let jmps: Vec<&Term<Jmp>> = match e.weight() {
            Edge::Jump(j, u) => std::iter::once(*j).chain(u.iter().copied()).collect(),
            Edge::Call(j) | Edge::ExternCallStub(j) | Edge::CallCombine(j) | Edge::ReturnCombine(j) => vec![*j],
            _ => vec![],
        };
        if jmps.is_empty() {
            continue;
        }
        // the jump must be a jump of the block the edge is attributed to
        let Some((b, _)) = src_blk(&g[e.source()]) else { return Err("jump-labelled edge leaves a BlkStart node".into()) };
        let blk = program.term.find_block(&b).ok_or("edge source block unknown")?;
        for j in jmps {
            if !blk.term.jmps.iter().any(|x| x == j) {
                return Err(format!("edge label {} is not a jump of its source block {}", j.tid, b));
            }
        }
    }
    Ok(())
}

fn multiset_diff<T: Ord + Clone>(expected: &[T], observed: &[T]) -> (Vec<T>, Vec<T>) {
    // both sorted
    let (mut i, mut j) = (0, 0);
    let (mut missing, mut extra) = (Vec::new(), Vec::new());
    while i < expected.len() || j < observed.len() {
        if j >= observed.len() || (i < expected.len() && expected[i] < observed[j]) {
            missing.push(expected[i].clone());
            i += 1;
        } else if i >= expected.len() || observed[j] < expected[i] {
            extra.push(observed[j].clone());
            j += 1;
        } else {
            i += 1;
            j += 1;
        }
    }
    (missing, extra)
}

/// Compare the real graph of `program` with the specification. Returns (class, detail) per difference.
fn compare(program: &Term<Program>) -> Result<(Vec<(String, String)>, Spec, (usize, usize)), String> {
    let spec = specification(program);
    let built = catch(|| {
        let g = get_program_cfg(program);
        let mut nodes: Vec<N> = g.node_weights().map(node_of).collect();
        let mut edges: Vec<E> = g.edge_references().map(|e| (node_of(&g[e.source()]), node_of(&g[e.target()]), label_of(e.weight()))).collect();
        nodes.sort();
        edges.sort();
        let entries: BTreeMap<Tid, N> = get_entry_nodes_of_subs(&g).into_iter().map(|(t, n)| (t, node_of(&g[n]))).collect();
        let refs = references_ok(program, &g);
        (nodes, edges, entries, refs)
    });
    let (nodes, edges, entries, refs) = built?;
    let mut diffs = Vec::new();
    let (missing, extra) = multiset_diff(&spec.nodes, &nodes);
    for n in missing {
        diffs.push((format!("cfg-missing-node {}", n.kind()), format!("{n:?}")));
    }
    for n in extra {
        diffs.push((format!("cfg-extra-node {}", n.kind()), format!("{n:?}")));
    }
    let (missing, extra) = multiset_diff(&spec.edges, &edges);
    for e in missing {
        diffs.push((format!("cfg-missing-edge {}", e.2.kind()), format!("{e:?}")));
    }
    for e in extra {
        diffs.push((format!("cfg-extra-edge {}", e.2.kind()), format!("{e:?}")));
    }
    if let Err(e) = refs {
        diffs.push(("cfg-term-reference".to_string(), e));
    }
    for (f, n) in &spec.entries {
        match entries.get(f) {
            None => diffs.push(("cfg-entry-map missing".to_string(), format!("{f}"))),
            Some(o) if o != n => diffs.push(("cfg-entry-map wrong".to_string(), format!("{f}: {o:?} instead of {n:?}"))),
            _ => (),
        }
    }
    for f in entries.keys() {
        if !spec.entries.contains_key(f) {
            diffs.push(("cfg-entry-map extra".to_string(), format!("{f}")));
        }
    }
    Ok((diffs, spec, (nodes.len(), edges.len())))
}

/// Per-worker counters (merged into `Ctx` at the end; keeps the hot loop free of shared locks).
#[derive(Default)]
struct Acc {
    stats: BTreeMap<&'static str, u64>,
    outcomes: BTreeSet<u64>,
    states: u64,
    transitions: u64,
    evaluations: u64,
    nontrivial: u64,
}
impl Acc {
    fn stat(&mut self, k: &'static str, n: u64) {
        *self.stats.entry(k).or_default() += n;
    }
    fn outcome<H: std::hash::Hash>(&mut self, h: &H) {
        self.outcomes.insert(mcx::fixed_hash(h));
    }
    fn merge_into(self, ctx: &Ctx) {
        for (k, n) in &self.stats {
            ctx.stat(k, *n);
        }
        for v in &self.outcomes {
            ctx.outcome(v);
        }
        ctx.add_states(self.states);
        ctx.add_transitions(self.transitions);
        ctx.add_evaluations(self.evaluations);
        ctx.add_nontrivial(self.nontrivial);
    }
}

thread_local! {
    /// Scratch projects of this worker (everything but the functions stays the same between cases).
    static PROJECT: std::cell::RefCell<Project> = std::cell::RefCell::new(build_project(&[], &[], None));
    static RAW: std::cell::RefCell<Project> = std::cell::RefCell::new(build_project(&[], &[], None));
}

fn set_subs(project: &mut Project, case: &Case) {
    project.program.term.subs.clear();
    for s in build_subs(&case.shape, &case.letters) {
        project.program.term.subs.insert(s.tid.clone(), s);
    }
}

fn run_case(ctx: &Ctx, acc: &mut Acc, case: &Case, raw_stat: bool) {
    PROJECT.with(|cell| run_case_in(ctx, acc, case, &mut cell.borrow_mut()));
    // --- statistic only (outside the statement): the un-normalized program, where a block reached from a
    // foreign function is instantiated per (block, function) on demand by the builder.
    if raw_stat {
        let cross = case.letters.iter().enumerate().any(|(g, l)| l.targets().iter().any(|t| matches!(t, Tgt::B(x) if locate(&case.shape, *x).0 != locate(&case.shape, g).0)));
        if cross && !case.letters.iter().any(|l| l.has_dangling()) {
            acc.stat("raw_shared_block_programs", 1);
            RAW.with(|cell| {
                let mut raw = cell.borrow_mut();
                set_subs(&mut raw, case);
                // Judged as well: the statement speaks of one start/end node per (block, function) pair, i.e. of
                // blocks shared between functions, which only exist before block duplication. The program is
                // well-formed apart from the cross-function targets.
                match compare(&raw.program) {
                    Err(p) => {
                        acc.stat("raw_shared_block_programs_panic", 1);
                        ctx.violation(format!("shared-blocks panic {}", site(&p)), serde_json::to_value(case).unwrap(), serde_json::json!({"panic": p, "note": "get_program_cfg on the un-normalized program (blocks shared between functions)"}));
                    }
                    Ok((d, ..)) if !d.is_empty() => {
                        acc.stat("raw_shared_block_programs_differ", 1);
                        let mut seen = std::collections::BTreeSet::new();
                        for (class, what) in d {
                            if seen.insert(class.clone()) {
                                ctx.violation(format!("shared-blocks {class}"), serde_json::to_value(case).unwrap(), serde_json::json!({"difference": what, "note": "get_program_cfg on the un-normalized program (blocks shared between functions)"}));
                            }
                        }
                    }
                    _ => (),
                }
            });
        }
    }
}

fn run_case_in(ctx: &Ctx, acc: &mut Acc, case: &Case, project: &mut Project) {
    set_subs(project, case);
    let case_json = || serde_json::to_value(case).unwrap();
    let raw_text = || render(&build_project(&case.shape, &case.letters, None));
    // --- establish the precondition with the real basic normalization
    if let Err(p) = catch(|| {
        let _ = project.normalize_basic();
    }) {
        // the failure belongs to C09; here the case has no well-formed normalized program to look at
        acc.stat("skipped_normalize_basic_panicked", 1);
        acc.outcome(&("normalize-panic", site(&p)));
        return;
    }
    let broken = broken_invariants(&project.program);
    if !broken.is_empty() || !block_shapes_ok(&project.program) {
        acc.stat("skipped_not_wellformed_after_normalize_basic", 1);
        acc.outcome(&"not-wellformed");
        return;
    }
    acc.transitions += 1;
    if ctx.replay_case().is_some() {
        println!("--- raw program\n{}--- after normalize_basic\n{}", raw_text(), project.program.term);
    }
    match compare(&project.program) {
        Err(p) => ctx.violation(
            format!("panic {}", site(&p)),
            case_json(),
            json!({"observed": format!("get_program_cfg panicked: {p}"), "expected": "a graph", "raw": raw_text(), "normalized": render(project)}),
        ),
        Ok((diffs, spec, (nn, ne))) => {
            if ctx.replay_case().is_some() {
                println!("--- expected graph: {} nodes, {} edges; built graph: {nn} nodes, {ne} edges", spec.nodes.len(), spec.edges.len());
                for e in &spec.edges {
                    println!("    {e:?}");
                }
            }
            let mut by_class: BTreeMap<String, Vec<String>> = BTreeMap::new();
            for (k, d) in diffs {
                by_class.entry(k).or_default().push(d);
            }
            for (k, d) in by_class {
                ctx.violation(k, case_json(), json!({"differences": d, "raw": raw_text(), "normalized": render(project)}));
            }
            // outcome = shape of the graph
            let mut kinds: BTreeMap<&str, u32> = BTreeMap::new();
            for n in &spec.nodes {
                *kinds.entry(n.kind()).or_default() += 1;
            }
            for e in &spec.edges {
                *kinds.entry(e.2.kind()).or_default() += 1;
            }
            acc.outcome(&(nn, ne, &kinds));
            acc.evaluations += (spec.nodes.len() + spec.edges.len() + spec.entries.len()) as u64;
            if spec.edges.iter().any(|e| !matches!(e.2, L::Block)) {
                acc.nontrivial += 1;
            }
            for (k, name) in [
                ("Jump-untaken", "programs_with_untaken_conditional_edge"),
                ("CallReturn", "programs_with_CallReturn"),
                ("ExternCallStub", "programs_with_ExternCallStub"),
                ("CallSource", "programs_with_CallSource"),
            ] {
                if kinds.contains_key(k) {
                    acc.stat(name, 1);
                }
            }
        }
    }
}

fn explore(ctx: &Ctx, sp: &Space, only_with_dangling: bool, raw_stat: bool) {
    mcx::par_fold(
        sp.size,
        512,
        Acc::default,
        |acc, i| {
            let letters = sp.decode(i);
            if only_with_dangling && !letters.iter().any(|l| l.has_dangling()) {
                return; // enumerated by the part without dangling targets
            }
            let case = Case { shape: sp.shape.clone(), letters };
            ctx.sample(|| json!({"case": serde_json::to_value(&case).unwrap(), "raw": render(&build_project(&case.shape, &case.letters, None))}));
            acc.states += 1;
            run_case(ctx, acc, &case, raw_stat);
        },
        |acc| acc.merge_into(ctx),
    );
}

fn main() {
    let ctx = Ctx::new("C08");
    if let Some(c) = ctx.replay_case() {
        let case: Case = serde_json::from_value(c.clone()).unwrap_or_else(|e| mcx::machinery(&format!("bad case: {e}")));
        let mut acc = Acc::default();
        run_case(&ctx, &mut acc, &case, true);
        acc.merge_into(&ctx);
        ctx.finish("replay of one case", false);
    }
    // generator self test: index <-> program bijection on a small space
    {
        let sp = Space::new(&[2, 1], true, 3);
        let mut seen = BTreeSet::new();
        for i in 0..sp.size {
            let l = sp.decode(i);
            if sp.encode(&l) != Some(i) || !seen.insert(l) {
                mcx::machinery("program space: decode/encode is not a bijection");
            }
        }
        ctx.stat("generator_selftest_programs", sp.size);
    }
    let ctx = &ctx;
    // (shape, dangling targets, max weight); weight 2*blocks = full product space
    let full = 99usize;
    // (shape, dangling targets, max weight, also gather the raw-program statistic)
    let mut parts: Vec<(Vec<usize>, bool, usize, bool)> = vec![
        (vec![1], false, full, true),
        (vec![2], false, full, true),
        (vec![1, 0], false, full, true),
        (vec![1, 1], false, full, true),
        (vec![2, 0], false, full, true),
        (vec![2, 1], false, full, true),
        (vec![1, 2], false, full, true),
        (vec![1, 1], true, full, false),
        (vec![2, 1], true, 3, false),
    ];
    if ctx.thorough() {
        parts.extend([
            (vec![2, 2], false, full, false),
            (vec![2, 2], true, 4, false),
            (vec![3, 2], false, 4, false),
            (vec![2, 3], false, 4, false),
            (vec![2, 2, 0], false, 5, false),
            (vec![2, 2, 1], false, 4, false),
            (vec![1, 1, 1], false, full, false),
        ]);
    } else {
        parts.extend([(vec![2, 2], false, 4, false), (vec![2, 2], true, 2, false), (vec![2, 2, 0], false, 3, false), (vec![1, 1, 1], false, 3, false)]);
    }
    let mut described = Vec::new();
    for (shape, dangling, w, raw_stat) in &parts {
        let sp = Space::new(shape, *dangling, *w);
        described.push(sp.describe());
        if std::env::var("C08_SIZES_ONLY").is_ok() {
            println!("{}", sp.describe());
            continue;
        }
        explore(ctx, &sp, *dangling, *raw_stat);
    }
    ctx.set("bounds", json!({
        "parts": described,
        "alphabet": "per block: no jump | Return | Branch t | Call g->r (g: every internal function, ext, exit(no_return), [dangling FUN]; r: none or t) | CBranch t;Branch t' | BranchInd with every hint subset of size<=2 | CallInd->r | CallOther->r; t,t',r,hints over ALL blocks of the program incl. other functions [and a dangling blk]",
        "weight": "no jump/Return 0, Branch/Call 1, others 2; a part contains every program of its shape with total weight <= max_weight (99 = full product)",
        "parts_with_dangling_targets": "only programs with at least one dangling reference are run there (the others are in the part without)"
    }));
    ctx.assume("input = result of the real Project::normalize_basic on a raw program of the space; cases where that result is not well-formed (unique TIDs, existing same-function targets; checked by an independent predicate) or where normalize_basic panics are skipped and counted (they are C09 violations)");
    ctx.assume("blocks end in 0, 1 or exactly [CBranch, Branch] jumps (the only shapes the extractor emits and the Blk documentation allows); one call per block");
    ctx.assume("CallOther is a dead end and a call to an internal function without blocks has no linkage (documented builder behaviour, statement silent)");
    ctx.assume("nodes/edges are compared by (block tid, function tid) and jump tids; additionally every term reference in a node/edge label must be content-equal to the program's term");
    ctx.finish(
        "one case = one raw program (shape + one terminator letter per block); normalized by the real normalize_basic, graph built by the real get_program_cfg and compared as node/edge multisets (with labels) against the specification, plus get_entry_nodes_of_subs; non-trivial = the expected graph has at least one non-Block edge",
        true,
    );
}
