//! C23 — results do not depend on hashing (or scheduling) nondeterminism.
//! Every C21 input is analysed by the real CLI under K *owned* hash seeds (an
//! LD_PRELOAD shim makes the entropy std's `RandomState` draws a function of
//! `VERIF_HASH_SEED`), with the default and the all-checks selection; stdout and the
//! exit status must be byte-identical across the seeds, and identical when one seed is
//! run twice (the only other source of nondeterminism left is the log-collector thread).
//!
//! Level: exploration, `exhaustive = false` — the seed space (2^128) and the induced
//! space of iteration orders cannot be enumerated; only the seeds s..s+K are explored.

#[path = "../shared/cli_gen.rs"]
mod cli_gen;
#[path = "../shared/cli_run.rs"]
mod cli_run;

use cli_gen::{hex_decode, CliInput, ElfKind, ExtVariant, InputSpec};
use cli_run::{all_names, split_stderr, Cli};
use mcx::{par_for, Ctx};
use serde::{Deserialize, Serialize};
use serde_json::json;
use std::collections::BTreeSet;

#[derive(Serialize, Deserialize, Clone, Debug)]
struct Case {
    input: CliInput,
    /// CLI arguments after `ELF --pcode-raw JSON --json --quiet`
    args: Vec<String>,
    /// the owned hash seeds to run under
    seeds: Vec<u64>,
}

fn first_difference(a: &[u8], b: &[u8]) -> serde_json::Value {
    let (ta, tb) = (String::from_utf8_lossy(a), String::from_utf8_lossy(b));
    for (n, (la, lb)) in ta.lines().zip(tb.lines()).enumerate() {
        if la != lb {
            return json!({"line": n + 1, "first": la, "second": lb});
        }
    }
    json!({"line": ta.lines().count().min(tb.lines().count()) + 1, "first_len": a.len(), "second_len": b.len()})
}

fn run_case(ctx: &Ctx, cli: &Cli, case: &Case) {
    let slot = cli.slot();
    let (elf, pcode) = cli.write_input(&slot, &case.input.pcode_json, &hex_decode(&case.input.elf_hex));
    let mut first: Option<(u64, Option<i32>, Vec<u8>)> = None;
    let mut orders: BTreeSet<Vec<String>> = BTreeSet::new();
    let mut reported = false;
    let cj = || serde_json::to_value(case).unwrap();
    for (k, &seed) in case.seeds.iter().enumerate() {
        // the first seed is run twice: same seed => any difference is scheduling
        let repeats = if k == 0 { 2 } else { 1 };
        for rep in 0..repeats {
            let out = cli.run(&slot, &elf, &pcode, &case.args, Some(seed));
            ctx.add_transitions(1);
            if out.timed_out {
                ctx.stat("runs_timed_out", 1);
            }
            let (ran, _) = split_stderr(&out.stderr);
            orders.insert(ran);
            match &first {
                None => first = Some((seed, out.status, out.stdout.clone())),
                Some((s0, st0, o0)) => {
                    if reported {
                        continue;
                    }
                    let same_seed = rep == 1;
                    if *st0 != out.status {
                        reported = true;
                        let key = if same_seed { "exit status differs between two runs with the same hash seed" } else { "exit status differs across hash seeds" };
                        ctx.violation(key, cj(), json!({"input": case.input.label, "args": case.args, "seed_a": s0, "exit_a": st0, "seed_b": seed, "exit_b": out.status, "stderr_b": out.stderr.lines().filter(|l| !l.starts_with("VERIF-RUN")).take(4).collect::<Vec<_>>()}));
                    } else if *o0 != out.stdout {
                        reported = true;
                        let key = if same_seed { "output differs between two runs with the same hash seed" } else { "output differs across hash seeds" };
                        ctx.violation(key, cj(), json!({"input": case.input.label, "args": case.args, "seed_a": s0, "seed_b": seed, "difference": first_difference(o0, &out.stdout)}));
                    }
                }
            }
        }
    }
    if let Some((_, st, o)) = &first {
        ctx.outcome(&(st, mcx::fixed_hash(o)));
        if o.len() > 4 {
            ctx.add_nontrivial(1);
        }
    }
    ctx.stat_max("max_distinct_check_orders_per_case", orders.len() as u64);
    if orders.len() > 1 {
        ctx.stat("cases_with_seed_dependent_check_order", 1);
    }
    cli.drop_slot(&slot);
}

/// Seed control must work inside the CLI process: with `--partial <all names>` the checks run
/// in the iteration order of a `HashSet`, which the hook makes visible. Same seed => same
/// order; the seeds of the range must produce more than one order.
fn verify_seed_control(ctx: &Ctx, cli: &Cli, seeds: &[u64]) {
    let spec = InputSpec { arch: "x64", templates: vec!["straight"], ext: ExtVariant::Used, elf: ElfKind::DynMin, all_selections: false };
    let input = spec.build();
    let slot = cli.slot();
    let (elf, pcode) = cli.write_input(&slot, &input.pcode_json, &hex_decode(&input.elf_hex));
    let args = vec!["--partial".to_string(), all_names()];
    let mut orders: BTreeSet<Vec<String>> = BTreeSet::new();
    for &s in seeds.iter().take(8) {
        let a = cli.run(&slot, &elf, &pcode, &args, Some(s));
        let b = cli.run(&slot, &elf, &pcode, &args, Some(s));
        if a.status != Some(0) {
            mcx::machinery(&format!("seed-control probe: CLI failed under the shim: {}", a.stderr));
        }
        let (ra, _) = split_stderr(&a.stderr);
        let (rb, _) = split_stderr(&b.stderr);
        if ra.len() != cli_run::KNOWN_CHECKS.len() {
            mcx::machinery("seed-control probe: hook lines missing (CLI built without --cfg fkie_cad_cwe_checker_verif?)");
        }
        if ra != rb {
            mcx::machinery(&format!("seed control does not work: seed {s} gave two different hash iteration orders ({ra:?} vs {rb:?})"));
        }
        orders.insert(ra);
    }
    if orders.len() < 2 {
        mcx::machinery("seed control does not work: all probed seeds gave the same hash iteration order");
    }
    // and without the shim's variable the order is not pinned (informational)
    ctx.stat("seed_probe_distinct_orders", orders.len() as u64);
    cli.drop_slot(&slot);
}

fn main() {
    let ctx = Ctx::new("C23");
    ctx.set("level", json!("exploration"));
    let cli = Cli::setup("C23", true);
    let k: u64 = if ctx.thorough() { 64 } else { 8 };
    let offset = ctx.seed.max(0) as u64;
    let seeds: Vec<u64> = (offset..offset + k).collect();
    verify_seed_control(&ctx, &cli, &seeds);
    if let Some(c) = ctx.replay_case() {
        let case: Case = serde_json::from_value(c.clone()).unwrap_or_else(|e| mcx::machinery(&format!("bad case: {e}")));
        run_case(&ctx, &cli, &case);
        cli.cleanup();
        ctx.finish("replay of one case", false);
    }
    let ctx = &ctx;
    let cpu0 = cli_run::children_cpu_ms();
    let mut family = cli_gen::seed_family(ctx.thorough());
    if let Some(f) = cli_run::dev_filter() {
        family.retain(|(s, _, _)| s.label().contains(&f));
        ctx.cap_hit(&format!("VERIF_CLI_ONLY={f}: only {} inputs explored", family.len()));
    }
    let sels: [Vec<String>; 2] = [vec![], vec!["--partial".to_string(), all_names()]];
    // flatten to (input, selection) cases
    let cases: Vec<(usize, usize)> = family.iter().enumerate().flat_map(|(i, (_, ss, _))| ss.iter().map(move |s| (i, *s))).collect();
    par_for(cases.len() as u64, 1, |i| {
        let (fi, si) = cases[i as usize];
        let (spec, _, div) = &family[fi];
        let case = Case { input: spec.build(), args: sels[si].clone(), seeds: seeds[..(k / div) as usize].to_vec() };
        ctx.add_states(1);
        ctx.sample(|| json!({"input": case.input.label, "args": case.args, "seeds": case.seeds.len()}));
        run_case(ctx, &cli, &case);
    });
    let specs_len = family.len();
    ctx.stat("children_cpu_s", (cli_run::children_cpu_ms() - cpu0) / 1000);
    ctx.set(
        "bounds",
        json!({
            "inputs": specs_len,
            "cases": cases.len(),
            "selections": "default, --partial <all 19>",
            "hash_seeds": format!("{}..{} ({} seeds, the first one run twice)", offset, offset + k, k),
            "input_family": if ctx.thorough() {
                "every single-template input of the thorough C21 family (24 templates x 4 extern tables x 8 register-table/ELF combinations), both selections, all seeds; every ordered template pair (x86_64, Full table, ET_DYN+sections), both selections, first quarter of the seeds"
            } else {
                "every single template x {x86_64 Full/ET_DYN+sections, x86_64 Kernel/kernel module, ARM-style Full/ET_DYN}, both selections, all seeds; every ordered template pair (x86_64, Full table, ET_DYN+sections), all-checks selection, first half of the seeds"
            },
        }),
    );
    ctx.assume("LIMIT: the hash-seed space (2^128 key pairs) and the induced iteration-order space cannot be enumerated; only the owned seeds of the stated range are explored, so a divergence that needs a rare order can be missed (level: exploration, exhaustive=false)");
    ctx.assume("seed control verified at start-up in the CLI process itself: the execution order of `--partial <all>` (a HashSet iteration, visible through the hook) is a function of VERIF_HASH_SEED and differs between seeds");
    ctx.assume("thread scheduling of the log collector is decided exhaustively by C25; here it is only sampled by running one seed twice");
    ctx.assume("stderr is not compared: the hook lines legitimately show the seed-dependent execution order of the checks");
    cli.cleanup();
    ctx.finish(
        "one case = (C21 input, selection) analysed by the real CLI under every owned hash seed of the range; oracle: exit status and stdout byte-identical across all runs; non-trivial = output contains at least one warning",
        false,
    );
}
