//! C22 — check selection runs exactly the requested checks.
//! Shape E on the real CLI binary (built with the `VERIF-RUN` hook): inputs that make
//! many checks fire at once x every selection of a bounded family (default, kernel-module
//! default, `--partial` with every single name, ALL pairs, all names, every complement,
//! duplicates, stray commas, the empty list, unknown names; thorough: all triples and
//! more inputs) and `--module-versions`.

#[path = "../shared/cli_gen.rs"]
mod cli_gen;
#[path = "../shared/cli_run.rs"]
mod cli_run;

use cli_gen::{hex_decode, CliInput, ElfKind, ExtVariant, InputSpec};
use cli_run::{find_panic, judge_wellformed, msg_head, split_stderr, Cli, Warning, KNOWN_CHECKS};
use mcx::{par_for, Ctx};
use serde::{Deserialize, Serialize};
use serde_json::{json, Value};
use std::collections::{BTreeMap, BTreeSet};
use std::path::PathBuf;
use std::sync::Mutex;

#[derive(Serialize, Deserialize, Clone, Debug, PartialEq, Eq, PartialOrd, Ord)]
enum Sel {
    /// no `--partial`
    Default,
    /// `--partial <list>` where every non-empty item is a known check name
    Partial(String),
    /// `--partial <list>` containing a name that is not a known check
    Unknown(String),
    /// `--module-versions` (no input)
    ModuleVersions,
}

#[derive(Serialize, Deserialize, Clone, Debug)]
struct Case {
    input: Option<CliInput>,
    /// the ELF is a Linux kernel module (has `.modinfo` and `.gnu.linkonce.this_module`)
    lkm: bool,
    sel: Sel,
}

fn args_of(sel: &Sel) -> Vec<String> {
    match sel {
        Sel::Default => vec![],
        Sel::Partial(l) | Sel::Unknown(l) => vec!["--partial".into(), l.clone()],
        Sel::ModuleVersions => vec!["--module-versions".into()],
    }
}

/// What the statement says must execute.
fn expected_set(sel: &Sel, lkm: bool) -> BTreeSet<String> {
    match sel {
        Sel::Default if lkm => KNOWN_CHECKS.iter().filter(|n| props::ccl::checkers::MODULES_LKM.contains(*n)).map(|s| s.to_string()).collect(),
        Sel::Default => KNOWN_CHECKS.iter().filter(|n| **n != "CWE78").map(|s| s.to_string()).collect(),
        Sel::Partial(l) => l.split(',').filter(|t| !t.is_empty()).map(|s| s.to_string()).collect(),
        _ => BTreeSet::new(),
    }
}

fn selection_family(thorough: bool) -> Vec<Sel> {
    let n = KNOWN_CHECKS;
    let mut s = vec![Sel::Default, Sel::Partial(n.join(","))];
    for a in n {
        s.push(Sel::Partial(a.to_string()));
    }
    for i in 0..n.len() {
        for j in i + 1..n.len() {
            // both orders are the same set; alternate the written order
            s.push(Sel::Partial(if (i + j) % 2 == 0 { format!("{},{}", n[i], n[j]) } else { format!("{},{}", n[j], n[i]) }));
        }
    }
    for a in n {
        s.push(Sel::Partial(n.iter().filter(|x| **x != a).copied().collect::<Vec<_>>().join(",")));
    }
    // duplicates, stray commas, empty list, reversed full list
    for l in ["CWE476,CWE476", "CWE676,CWE476,CWE676", "CWE476,", ",CWE676", "CWE467,,CWE560", "", ","] {
        s.push(Sel::Partial(l.to_string()));
    }
    s.push(Sel::Partial(n.iter().rev().copied().collect::<Vec<_>>().join(",")));
    for l in ["CWE999", "CWE476,CWE999", "cwe476", "CWE4766", "Memory,memory"] {
        s.push(Sel::Unknown(l.to_string()));
    }
    if thorough {
        for i in 0..n.len() {
            for j in i + 1..n.len() {
                for k in j + 1..n.len() {
                    s.push(Sel::Partial(format!("{},{},{}", n[k], n[i], n[j])));
                }
            }
        }
    }
    s
}

const MULTI: [&str; 9] = ["heap", "heap_checked", "fmt", "sys", "toctou", "unchecked", "null", "stack", "subreg"];

fn input_specs(thorough: bool) -> Vec<InputSpec> {
    let mut v = vec![
        // user-space program: most checks fire (no srand: CWE332 fires; .debug_info: CWE215 fires)
        InputSpec { arch: "x64", templates: MULTI.to_vec(), ext: ExtVariant::Used, elf: ElfKind::DynSections, all_selections: true },
        // kernel module with kernel symbol names
        InputSpec { arch: "x64", templates: MULTI.to_vec(), ext: ExtVariant::Kernel, elf: ElfKind::RelLkm, all_selections: true },
        // bare input: no extern symbols at all
        InputSpec { arch: "x64", templates: MULTI.to_vec(), ext: ExtVariant::None, elf: ElfKind::DynMin, all_selections: true },
    ];
    if thorough {
        let mut with_prng = MULTI.to_vec();
        with_prng.push("prng");
        with_prng.push("scanf");
        v.push(InputSpec { arch: "x64", templates: with_prng, ext: ExtVariant::Full, elf: ElfKind::DynSections, all_selections: true });
        v.push(InputSpec { arch: "arm", templates: MULTI.to_vec(), ext: ExtVariant::Used, elf: ElfKind::DynMin, all_selections: true });
        for t in cli_gen::TEMPLATES {
            v.push(InputSpec { arch: "x64", templates: vec![t], ext: ExtVariant::Full, elf: ElfKind::DynSections, all_selections: true });
        }
    }
    v
}

struct Prepared {
    input: CliInput,
    lkm: bool,
    slot: PathBuf,
    elf: PathBuf,
    pcode: PathBuf,
}

fn prepare(cli: &Cli, input: CliInput, lkm: bool) -> Prepared {
    let slot = cli.slot();
    let (elf, pcode) = cli.write_input(&slot, &input.pcode_json, &hex_decode(&input.elf_hex));
    Prepared { input, lkm, slot, elf, pcode }
}

type RefMap = BTreeMap<String, Option<Vec<Warning>>>;

/// Reference for the differential part: the warnings of check M when M is run alone.
fn single_reference(cli: &Cli, p: &Prepared, m: &str) -> Option<Vec<Warning>> {
    let out = cli.run(&p.slot, &p.elf, &p.pcode, &["--partial".to_string(), m.to_string()], None);
    let j = judge_wellformed(cli, &out);
    if out.status != Some(0) {
        return None;
    }
    j.warnings.map(|w| w.into_iter().filter(|x| cli.owners(x).iter().any(|o| o == m)).collect())
}

fn fail_class(out: &cli_run::RunOut) -> String {
    if out.timed_out {
        return "timeout".into();
    }
    match find_panic(&out.stderr) {
        Some((loc, head)) => format!("cli panic {loc} {head}"),
        None => {
            let (_, other) = split_stderr(&out.stderr);
            format!("exit {:?} {}", out.status, msg_head(other.first().map(|s| s.as_str()).unwrap_or("")))
        }
    }
}

fn module_versions(ctx: &Ctx, cli: &Cli) {
    let slot = cli.slot();
    let out = cli.run_raw(&slot, &["--module-versions".to_string()], None);
    cli.drop_slot(&slot);
    ctx.add_transitions(1);
    let case = serde_json::to_value(Case { input: None, lkm: false, sel: Sel::ModuleVersions }).unwrap();
    let text = String::from_utf8_lossy(&out.stdout).to_string();
    if out.status != Some(0) {
        ctx.violation("module-versions run failed", case, json!({"exit": out.status, "stderr": out.stderr}));
        return;
    }
    let mut count: BTreeMap<String, u64> = BTreeMap::new();
    for l in text.lines().skip(1) {
        // "NAME": "VERSION"
        let name = l.trim().trim_start_matches('"').split('"').next().unwrap_or("").to_string();
        *count.entry(name).or_insert(0) += 1;
    }
    ctx.outcome(&("module-versions", &count));
    for n in KNOWN_CHECKS {
        match count.get(n).copied().unwrap_or(0) {
            1 => (),
            0 => ctx.violation(format!("module-versions does not list {n}"), case.clone(), json!({"stdout": text})),
            k => ctx.violation(format!("module-versions lists {n} more than once"), case.clone(), json!({"times": k, "stdout": text})),
        }
    }
    for n in count.keys() {
        if !KNOWN_CHECKS.contains(&n.as_str()) {
            ctx.violation("module-versions lists an unknown module", case.clone(), json!({"name": n, "stdout": text}));
        }
    }
    if !text.starts_with("[cwe_checker] module_versions:") {
        ctx.violation("module-versions header missing", case, json!({"stdout": text}));
    }
}

fn run_sel(ctx: &Ctx, cli: &Cli, p: &Prepared, sel: &Sel, reference: &dyn Fn(&str) -> Option<Vec<Warning>>) {
    let args = args_of(sel);
    let out = cli.run(&p.slot, &p.elf, &p.pcode, &args, None);
    ctx.add_transitions(1);
    let case = || serde_json::to_value(Case { input: Some(p.input.clone()), lkm: p.lkm, sel: sel.clone() }).unwrap();
    let detail = |extra: Value| {
        let mut d = json!({"input": p.input.label, "selection": format!("{sel:?}")});
        for (k, v) in extra.as_object().cloned().unwrap_or_default() {
            d[k] = v;
        }
        d
    };
    let (ran, _) = split_stderr(&out.stderr);
    if let Sel::Unknown(l) = sel {
        // must be rejected: no normal completion
        ctx.outcome(&("unknown", out.status, ran.len()));
        if out.status == Some(0) {
            ctx.violation("selection unknown name not rejected", case(), detail(json!({"list": l, "executed": ran, "stdout_head": String::from_utf8_lossy(&out.stdout).chars().take(200).collect::<String>()})));
        } else {
            ctx.stat("unknown_names_rejected", 1);
        }
        return;
    }
    let expected = expected_set(sel, p.lkm);
    if out.status != Some(0) || out.timed_out {
        let class = fail_class(&out);
        ctx.outcome(&("failed", &class));
        ctx.violation(format!("selection run failed: {class}"), case(), detail(json!({"exit": out.status, "executed_before_failure": ran, "stderr": out.stderr.lines().filter(|l| !l.starts_with("VERIF-RUN")).take(5).collect::<Vec<_>>()})));
        return;
    }
    // 1. executed set = requested set, each check once
    let ran_set: BTreeSet<String> = ran.iter().cloned().collect();
    if ran_set != expected {
        let missing: Vec<&String> = expected.difference(&ran_set).collect();
        let extra: Vec<&String> = ran_set.difference(&expected).collect();
        let kind = match sel {
            Sel::Default if p.lkm => "kernel-module default",
            Sel::Default => "default",
            _ => "partial",
        };
        ctx.violation(format!("selection executed-set mismatch ({kind})"), case(), detail(json!({"missing": missing, "unexpected": extra, "executed": ran})));
    }
    if ran.len() != ran_set.len() {
        ctx.violation("selection executed a check more than once", case(), detail(json!({"executed": ran})));
    }
    // 2. warnings only of executed checks; 3. same warnings as when the check runs alone
    let j = judge_wellformed(cli, &out);
    let Some(ws) = j.warnings else {
        ctx.violation("selection run failed: output unreadable", case(), detail(json!({"why": j.violations.first().map(|v| v.0.clone())})));
        return;
    };
    let names: BTreeSet<&str> = ws.iter().map(|w| w.name.as_str()).collect();
    ctx.outcome(&(&ran_set, &names, ws.len()));
    if !ws.is_empty() {
        ctx.add_nontrivial(1);
    }
    // a warning belongs to the checks that report under its name with its version (see cli_run::reports_as)
    let mut flagged: BTreeSet<&str> = BTreeSet::new();
    for w in &ws {
        let owners = cli.owners(w);
        if !owners.iter().any(|o| ran_set.contains(o)) && flagged.insert(w.name.as_str()) {
            ctx.violation(format!("warning of a check that was not executed: {} {}", w.name, w.version), case(), detail(json!({"executed": ran, "possible_origin": owners, "warning": w.description})));
        }
    }
    for m in &ran_set {
        let Some(want) = reference(m) else { continue };
        let got: Vec<&Warning> = ws.iter().filter(|w| cli.owners(w).iter().any(|o| o == m)).collect();
        let same = got.len() == want.len() && got.iter().zip(want.iter()).all(|(a, b)| **a == *b);
        ctx.add_evaluations(1);
        if !same {
            ctx.violation(
                format!("warnings of {m} differ from its single-check run"),
                case(),
                detail(json!({"executed": ran, "in_this_run": got.iter().map(|w| w.description.clone()).collect::<Vec<_>>(), "alone": want.iter().map(|w| w.description.clone()).collect::<Vec<_>>()})),
            );
        }
    }
}

fn main() {
    let ctx = Ctx::new("C22");
    let cli = Cli::setup("C22", false);
    if let Some(c) = ctx.replay_case() {
        let case: Case = serde_json::from_value(c.clone()).unwrap_or_else(|e| mcx::machinery(&format!("bad case: {e}")));
        match case.input {
            None => module_versions(&ctx, &cli),
            Some(input) => {
                let p = prepare(&cli, input, case.lkm);
                let r = |m: &str| single_reference(&cli, &p, m);
                run_sel(&ctx, &cli, &p, &case.sel, &r);
                cli.drop_slot(&p.slot);
            }
        }
        cli.cleanup();
        ctx.finish("replay of one case", false);
    }
    let ctx = &ctx;
    let cpu0 = cli_run::children_cpu_ms();
    let specs = input_specs(ctx.thorough());
    let prepared: Vec<Prepared> = specs.iter().map(|s| prepare(&cli, s.build(), s.is_lkm())).collect();
    let sels = selection_family(ctx.thorough());
    // phase 1: every check alone on every input (the differential reference)
    let refs: Vec<Mutex<RefMap>> = prepared.iter().map(|_| Mutex::new(BTreeMap::new())).collect();
    let nk = KNOWN_CHECKS.len() as u64;
    par_for(prepared.len() as u64 * nk, 1, |i| {
        let (pi, m) = ((i / nk) as usize, KNOWN_CHECKS[(i % nk) as usize]);
        let r = single_reference(&cli, &prepared[pi], m);
        ctx.add_transitions(1);
        if r.is_none() {
            ctx.stat("single_runs_without_reference", 1);
        }
        refs[pi].lock().unwrap().insert(m.to_string(), r);
    });
    let refs: Vec<RefMap> = refs.into_iter().map(|m| m.into_inner().unwrap()).collect();
    // phase 2: every selection on every input
    let ns = sels.len() as u64;
    par_for(prepared.len() as u64 * ns, 4, |i| {
        let (pi, si) = ((i / ns) as usize, (i % ns) as usize);
        let r = |m: &str| refs[pi].get(m).cloned().flatten();
        ctx.add_states(1);
        ctx.sample(|| json!({"input": prepared[pi].input.label, "selection": format!("{:?}", sels[si])}));
        run_sel(ctx, &cli, &prepared[pi], &sels[si], &r);
    });
    module_versions(ctx, &cli);
    ctx.add_states(1);
    for (pi, p) in prepared.iter().enumerate() {
        let fired: Vec<&String> = refs[pi].iter().filter(|(_, v)| v.as_ref().map(|w| !w.is_empty()).unwrap_or(false)).map(|(k, _)| k).collect();
        ctx.stat_max("max_checks_firing_on_one_input", fired.len() as u64);
        if pi < 3 {
            ctx.set(&format!("checks_firing_on_input_{pi}"), json!({"input": p.input.label, "fired": fired}));
        }
        cli.drop_slot(&p.slot);
    }
    ctx.stat("children_cpu_s", (cli_run::children_cpu_ms() - cpu0) / 1000);
    ctx.set(
        "bounds",
        json!({
            "inputs": specs.iter().map(|s| s.label()).collect::<Vec<_>>(),
            "selections_per_input": sels.len(),
            "selection_family": "default; --partial with each of the 19 names, all 171 pairs, all 19 (both orders), the complement of each name, duplicates, stray commas, empty list, 5 lists with an unknown name; thorough: all 969 triples; --module-versions",
        }),
    );
    ctx.assume("default selection = all known checks except CWE78; kernel-module default = the known checks named in MODULES_LKM (the constant is the definition of the subset)");
    ctx.assume("a warning belongs to check M if M reports under the warning's CWE identifier (CWE119: CWE119/CWE125/CWE787, CWE416: CWE416/CWE415, Memory: CWE476, otherwise its own name) and the warning carries M's version");
    ctx.assume("an unknown name in --partial must make the run fail (any non-zero exit counts as rejection); what a failing run printed is not judged");
    ctx.assume("the differential reference for check M is M's output when run alone on the same input; runs that fail are reported and give no reference");
    cli.cleanup();
    ctx.finish(
        "one case = (input, selection); executed checks are observed through the VERIF-RUN hook; oracle: executed set = requested set (each once), warning names within the executed set, warnings of every executed check identical to its single-check run, --module-versions lists each known check exactly once, unknown names rejected; non-trivial = run reported at least one warning",
        true,
    );
}
