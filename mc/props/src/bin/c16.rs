//! C16 — call-site checkers report exactly the specified call sites.
//!
//! Statement: for every program and configuration: the dangerous-function check
//! (CWE676) reports one warning per call to an imported symbol on the configured
//! list; the ioctl check (CWE782) reports one warning per call to ioctl; the
//! untrusted-search-path check (CWE426) reports each function that calls both
//! system and a configured privilege-changing function; the PRNG check (CWE332)
//! reports each configured (initializer, generator) pair whose generator is
//! imported while the initializer is not.
//!
//! Shape E. Enumerated: symbol universe {strcpy, memcpy, ioctl, system, setuid,
//! rand, srand, foo}; every extern table that is a subset of the universe with
//! <= 4 symbols; two functions (`main`, and an internal function that is itself
//! *named* `strcpy`) with call sites each targeting any table symbol, any
//! internal function, an absent TID, or being an indirect call; every
//! configuration list over the universe with <= 2 entries (ordered, duplicates
//! and names absent from the binary included). The four real checks are run
//! through `CWE_MODULE.run` on an `AnalysisResults` built from the program; the
//! warnings are compared, as multisets, with a transcription of the statement
//! computed from the case description alone.
//!
//! Judged per check (what the statement determines), everything else is left open:
//!   CWE676/782: check name, `addresses == [address of the call]`, `tids == [TID of the call]`
//!   CWE426:     check name, `addresses`/`tids`/`symbols` == address/TID/name of the function
//!   CWE332:     check name, number of warnings, and that the warning text names both symbols of its pair
//! Not judged: description wording, `other`, version, `symbols` of CWE676/782, log messages.

use mcx::{catch, fixed_hash, panic_site, par_fold, Ctx};
use props::ccl::analysis::graph::get_program_cfg;
use props::ccl::checkers::{cwe_332, cwe_426, cwe_676, cwe_782};
use props::ccl::intermediate_representation::*;
use props::ccl::pipeline::AnalysisResults;
use props::ccl::utils::log::CweWarning;
use props::ccl::CweModule;
use props::irb::*;
use serde::{Deserialize, Serialize};
use serde_json::{json, Value};
use std::collections::BTreeSet;

const UNIVERSE: [&str; 8] = ["strcpy", "memcpy", "ioctl", "system", "setuid", "rand", "srand", "foo"];
/// Names of the two internal functions. The second one deliberately carries the name of a universe
/// symbol: it is *not* imported, calls to it are not calls to an imported symbol.
const FN_NAMES: [&str; 2] = ["main", "strcpy"];
const NF: usize = 2;
const MAX_TABLE: usize = 4;
const MAX_SITES: usize = 3;

// ------------------------------------------------------------------ replayable case

/// Target of one call site.
#[derive(Serialize, Deserialize, Clone, Debug, PartialEq, Eq)]
enum Target {
    /// direct call to the extern symbol with this name (must be in the table)
    Sym(String),
    /// direct call to internal function number i
    Fn(usize),
    /// direct call to a TID that is neither a function nor an extern symbol
    Absent,
    /// indirect call
    Indirect,
}

#[derive(Serialize, Deserialize, Clone, Debug, PartialEq, Eq)]
enum Check {
    Cwe676 { symbols: Vec<String> },
    Cwe782,
    Cwe426 { symbols: Vec<String> },
    Cwe332 { pairs: Vec<(String, String)> },
}

/// How addresses are assigned to the call blocks and call jumps (TID ids are unique in every mode).
#[derive(Serialize, Deserialize, Clone, Copy, Debug, PartialEq, Eq, Default)]
enum Addr {
    /// every block and every call jump has its own address
    #[default]
    Distinct,
    /// the call chain of function 1 is a duplicate of the chain of function 0 (a block shared by two functions,
    /// as `normalize` duplicates it): ids carry the suffix `_FUN_2000`, block and jump addresses are those of function 0
    SharedAcrossFunctions,
    /// all call blocks of a function belong to one instruction: same block and jump address, ids differ in the
    /// P-Code operation index
    SharedWithinFunction,
    /// both of the above: every call site of the program has the same address
    SharedEverywhere,
}
impl Addr {
    fn across(self) -> bool {
        matches!(self, Addr::SharedAcrossFunctions | Addr::SharedEverywhere)
    }
    fn within(self) -> bool {
        matches!(self, Addr::SharedWithinFunction | Addr::SharedEverywhere)
    }
}

#[derive(Serialize, Deserialize, Clone, Debug)]
struct Case {
    /// names of the imported symbols (unique)
    table: Vec<String>,
    /// per internal function its call sites in block order
    funcs: Vec<Vec<Target>>,
    /// address assignment (absent in older replay files: distinct addresses)
    #[serde(default)]
    addr: Addr,
    check: Check,
}

// ------------------------------------------------------------------ compact form used by the explorer

#[derive(Clone, Copy, Debug, PartialEq, Eq)]
enum T {
    Sym(u8),
    Fn(u8),
    Absent,
    Indirect,
}

#[derive(Clone, Debug)]
struct Spec {
    /// universe indices, ascending
    table: Vec<u8>,
    funcs: [Vec<T>; NF],
    addr: Addr,
}

#[derive(Clone, Debug)]
enum Cfg {
    Cwe676(Vec<u8>),
    Cwe782,
    Cwe426(Vec<u8>),
    Cwe332(Vec<(u8, u8)>),
}

fn uidx(name: &str) -> u8 {
    UNIVERSE.iter().position(|u| *u == name).unwrap_or_else(|| mcx::machinery(&format!("bad case: symbol {name} not in universe"))) as u8
}
fn uname(i: u8) -> String {
    UNIVERSE[i as usize].to_string()
}

impl Spec {
    fn to_case(&self, cfg: &Cfg) -> Case {
        let t = |t: &T| match t {
            T::Sym(s) => Target::Sym(uname(*s)),
            T::Fn(i) => Target::Fn(*i as usize),
            T::Absent => Target::Absent,
            T::Indirect => Target::Indirect,
        };
        Case {
            table: self.table.iter().map(|s| uname(*s)).collect(),
            funcs: self.funcs.iter().map(|f| f.iter().map(t).collect()).collect(),
            addr: self.addr,
            check: match cfg {
                Cfg::Cwe676(l) => Check::Cwe676 { symbols: l.iter().map(|s| uname(*s)).collect() },
                Cfg::Cwe782 => Check::Cwe782,
                Cfg::Cwe426(l) => Check::Cwe426 { symbols: l.iter().map(|s| uname(*s)).collect() },
                Cfg::Cwe332(p) => Check::Cwe332 { pairs: p.iter().map(|(a, b)| (uname(*a), uname(*b))).collect() },
            },
        }
    }
    fn from_case(c: &Case) -> (Spec, Cfg) {
        let mut table: Vec<u8> = c.table.iter().map(|s| uidx(s)).collect();
        table.sort();
        let n = table.len();
        table.dedup();
        if table.len() != n {
            mcx::machinery("bad case: duplicate symbol names in the table (outside the assumption)");
        }
        if c.funcs.len() != NF {
            mcx::machinery("bad case: exactly two functions expected");
        }
        let conv = |t: &Target| match t {
            Target::Sym(s) => {
                let i = uidx(s);
                if !table.contains(&i) {
                    mcx::machinery("bad case: call to a symbol that is not in the table");
                }
                T::Sym(i)
            }
            Target::Fn(i) if *i < NF => T::Fn(*i as u8),
            Target::Fn(_) => mcx::machinery("bad case: function index"),
            Target::Absent => T::Absent,
            Target::Indirect => T::Indirect,
        };
        let f = |i: usize| -> Vec<T> {
            if c.funcs[i].len() > 6 {
                mcx::machinery("bad case: too many call sites");
            }
            c.funcs[i].iter().map(conv).collect()
        };
        let cfg = match &c.check {
            Check::Cwe676 { symbols } => Cfg::Cwe676(symbols.iter().map(|s| uidx(s)).collect()),
            Check::Cwe782 => Cfg::Cwe782,
            Check::Cwe426 { symbols } => Cfg::Cwe426(symbols.iter().map(|s| uidx(s)).collect()),
            Check::Cwe332 { pairs } => Cfg::Cwe332(pairs.iter().map(|(a, b)| (uidx(a), uidx(b))).collect()),
        };
        (Spec { table: table.clone(), funcs: [f(0), f(1)], addr: c.addr }, cfg)
    }
}

/// Configuration in the shape of the shipped `config.json`.
fn cfg_value(cfg: &Cfg) -> Value {
    match cfg {
        Cfg::Cwe676(l) => json!({"_comment": "dangerous functions", "symbols": l.iter().map(|s| uname(*s)).collect::<Vec<_>>()}),
        Cfg::Cwe782 => json!({"symbols": []}),
        Cfg::Cwe426(l) => json!({"_comment": "functions that change/drop privileges", "symbols": l.iter().map(|s| uname(*s)).collect::<Vec<_>>()}),
        Cfg::Cwe332(p) => json!({"pairs": p.iter().map(|(a, b)| json!([uname(*a), uname(*b)])).collect::<Vec<_>>()}),
    }
}

// ------------------------------------------------------------------ program construction

fn fn_base(i: usize) -> usize {
    0x1000 * (i + 1)
}
/// Function 1 starts with a conditional-branch block, so its call chain is shifted by one block.
fn chain_off(i: usize) -> usize {
    usize::from(i == 1)
}
/// Address of the k-th chain block of function i (k = number of sites: the final return block).
fn blk_addr(m: Addr, i: usize, k: usize) -> usize {
    let (base, off) = if m.across() { (fn_base(0), chain_off(0)) } else { (fn_base(i), chain_off(i)) };
    let pos = if m.within() { 0 } else { k };
    base + 0x10 * (pos + off)
}
fn call_addr(m: Addr, i: usize, k: usize) -> usize {
    blk_addr(m, i, k) + 8
}
/// Suffix that block duplication appends to the ids of the copy that ends up in function 1.
fn dup_suffix(m: Addr, i: usize) -> &'static str {
    if m.across() && i == 1 {
        "_FUN_2000"
    } else {
        ""
    }
}
fn fun_tid(i: usize) -> Tid {
    tid_at(&format!("FUN_{:x}", fn_base(i)), &format!("{:x}", fn_base(i)))
}
fn blk_tid(m: Addr, i: usize, k: usize) -> Tid {
    let a = blk_addr(m, i, k);
    let part = if m.within() && k > 0 { format!("_{k}") } else { String::new() };
    tid_at(&format!("blk_{a:x}{part}{}", dup_suffix(m, i)), &format!("{a:x}"))
}
/// TID of the `op`-th term (0 = def, 1 = jump) of the k-th call instruction of function i.
fn instr_tid(m: Addr, i: usize, k: usize, op: usize) -> Tid {
    let a = call_addr(m, i, k);
    let index = if m.within() { 2 * k + op } else { op };
    tid_at(&format!("instr_{a:x}_{index}{}", dup_suffix(m, i)), &format!("{a:x}"))
}
fn call_tid(m: Addr, i: usize, k: usize) -> Tid {
    instr_tid(m, i, k, 1)
}
fn ext_tid(s: u8) -> Tid {
    tid(&format!("EXT_{}", UNIVERSE[s as usize]))
}

fn build_sub(m: Addr, i: usize, sites: &[T]) -> Term<Sub> {
    let mut blocks = Vec::with_capacity(sites.len() + 2);
    let last = sites.len();
    if i == 1 {
        // entry block with the extractor's [CBRANCH, BRANCH] pair: either skip all calls or run them
        let a = fn_base(i);
        let jmps = vec![
            Term { tid: tid_at(&format!("instr_{:x}_0", a + 4), &format!("{:x}", a + 4)), term: Jmp::CBranch { target: blk_tid(m, i, last), condition: reg("ZF", 1) } },
            Term { tid: tid_at(&format!("instr_{:x}_1", a + 4), &format!("{:x}", a + 4)), term: Jmp::Branch(blk_tid(m, i, 0)) },
        ];
        blocks.push(Term { tid: tid_at(&format!("blk_{a:x}"), &format!("{a:x}")), term: Blk { defs: Vec::new(), jmps, indirect_jmp_targets: Vec::new() } });
    }
    for (k, t) in sites.iter().enumerate() {
        let ret = Some(blk_tid(m, i, k + 1));
        let term = match t {
            T::Sym(s) => Jmp::Call { target: ext_tid(*s), return_: ret },
            T::Fn(f) => Jmp::Call { target: fun_tid(*f as usize), return_: ret },
            T::Absent => Jmp::Call { target: tid_at("FUN_dead0", "dead0"), return_: ret },
            T::Indirect => Jmp::CallInd { target: reg("RAX", 8), return_: ret },
        };
        let defs = vec![Term { tid: instr_tid(m, i, k, 0), term: Def::Assign { var: var("RDI", 8), value: reg("RBX", 8) } }];
        blocks.push(Term { tid: blk_tid(m, i, k), term: Blk { defs, jmps: vec![Term { tid: call_tid(m, i, k), term }], indirect_jmp_targets: Vec::new() } });
    }
    let ret_jmp = Term { tid: call_tid(m, i, last), term: Jmp::Return(reg("RAX", 8)) };
    blocks.push(Term { tid: blk_tid(m, i, last), term: Blk { defs: Vec::new(), jmps: vec![ret_jmp], indirect_jmp_targets: Vec::new() } });
    Term { tid: fun_tid(i), term: Sub { name: FN_NAMES[i].to_string(), blocks, calling_convention: None } }
}

fn set_program(project: &mut Project, spec: &Spec) {
    let p = &mut project.program.term;
    p.subs.clear();
    for i in 0..NF {
        let s = build_sub(spec.addr, i, &spec.funcs[i]);
        p.subs.insert(s.tid.clone(), s);
    }
    p.extern_symbols.clear();
    for s in &spec.table {
        let mut e = extern_symbol("x", UNIVERSE[*s as usize], vec![arg_reg("RDI", 8)], vec![arg_reg("RAX", 8)], false);
        e.tid = ext_tid(*s);
        p.extern_symbols.insert(e.tid.clone(), e);
    }
}

// ------------------------------------------------------------------ oracle: transcription of the statement

/// A warning reduced to the fields the statement determines: (check name, addresses, tids, symbols).
type W = (String, Vec<String>, Vec<String>, Vec<String>);

fn imported(spec: &Spec, name: u8) -> bool {
    spec.table.contains(&name)
}
/// "function i has a call to an imported symbol whose name satisfies `pred`"
fn calls_imported(spec: &Spec, i: usize, pred: &dyn Fn(u8) -> bool) -> bool {
    spec.funcs[i].iter().any(|t| matches!(t, T::Sym(s) if imported(spec, *s) && pred(*s)))
}

/// Expected warnings of the three site-based checks: `(must, may)`. `may` holds warnings for which the
/// statement leaves the outcome open (see the CWE426 case); both outcomes are accepted for them.
fn expected_sites(spec: &Spec, cfg: &Cfg) -> (Vec<W>, Vec<W>) {
    let m = spec.addr;
    let mut out = Vec::new();
    let mut may = Vec::new();
    match cfg {
        // one warning per call to an imported symbol on the configured list
        Cfg::Cwe676(list) => {
            for i in 0..NF {
                for (k, t) in spec.funcs[i].iter().enumerate() {
                    if matches!(t, T::Sym(s) if imported(spec, *s) && list.contains(s)) {
                        out.push(("CWE676".to_string(), vec![format!("{:x}", call_addr(m, i, k))], vec![call_tid(m, i, k).to_string()], vec![]));
                    }
                }
            }
        }
        // one warning per call to ioctl
        Cfg::Cwe782 => {
            let ioctl = uidx("ioctl");
            for i in 0..NF {
                for (k, t) in spec.funcs[i].iter().enumerate() {
                    if matches!(t, T::Sym(s) if imported(spec, *s) && *s == ioctl) {
                        out.push(("CWE782".to_string(), vec![format!("{:x}", call_addr(m, i, k))], vec![call_tid(m, i, k).to_string()], vec![]));
                    }
                }
            }
        }
        // each function that calls both system and a configured privilege-changing function
        Cfg::Cwe426(list) => {
            let system = uidx("system");
            for i in 0..NF {
                let w = ("CWE426".to_string(), vec![format!("{:x}", fn_base(i))], vec![fun_tid(i).to_string()], vec![FN_NAMES[i].to_string()]);
                if calls_imported(spec, i, &|s| s == system) && calls_imported(spec, i, &|s| list.contains(&s)) {
                    out.push(w);
                } else if calls_imported(spec, i, &|s| s == system)
                    && spec.funcs[i].iter().any(|t| matches!(t, T::Fn(f) if list.iter().any(|l| UNIVERSE[*l as usize] == FN_NAMES[*f as usize])))
                {
                    // the function calls system and an *internal* function whose name is on the configured list
                    // (a privilege-changing function that is linked in, not imported): the statement does not
                    // say whether that counts, so neither outcome is judged
                    may.push(w);
                }
            }
        }
        Cfg::Cwe332(_) => unreachable!(),
    }
    (out, may)
}

fn project_warning(cfg: &Cfg, w: &CweWarning) -> W {
    match cfg {
        Cfg::Cwe676(_) | Cfg::Cwe782 => (w.name.clone(), w.addresses.clone(), w.tids.clone(), vec![]),
        Cfg::Cwe426(_) => (w.name.clone(), w.addresses.clone(), w.tids.clone(), w.symbols.clone()),
        Cfg::Cwe332(_) => (w.name.clone(), vec![], vec![], vec![]),
    }
}

/// Multiset difference `a - b` of two small lists.
fn msub(a: &[W], b: &[W]) -> Vec<W> {
    let mut rest: Vec<&W> = b.iter().collect();
    let mut out = Vec::new();
    for x in a {
        if let Some(p) = rest.iter().position(|y| *y == x) {
            rest.swap_remove(p);
        } else {
            out.push(x.clone());
        }
    }
    out
}

fn tokens(s: &str) -> BTreeSet<&str> {
    s.split(|c: char| !(c.is_ascii_alphanumeric() || c == '_')).filter(|t| !t.is_empty()).collect()
}

/// Is there an injective assignment of the pairs to warnings that name both symbols of the pair?
fn pairs_matchable(pairs: &[(u8, u8)], descs: &[BTreeSet<&str>], used: &mut Vec<bool>) -> bool {
    let Some(((a, b), rest)) = pairs.split_first() else { return true };
    for (i, d) in descs.iter().enumerate() {
        if !used[i] && d.contains(UNIVERSE[*a as usize]) && d.contains(UNIVERSE[*b as usize]) {
            used[i] = true;
            if pairs_matchable(rest, descs, used) {
                return true;
            }
            used[i] = false;
        }
    }
    false
}

// ------------------------------------------------------------------ running the real checks

struct Acc {
    project: Option<Project>,
    programs: u64,
    states: u64,
    transitions: u64,
    nontrivial: u64,
    evaluations: u64,
    warnings_seen: u64,
    open_cases: u64,
    per_check_nontrivial: [u64; 4],
    outcomes: BTreeSet<u64>,
}
impl Acc {
    fn new() -> Acc {
        Acc {
            project: Some(project_x64(Vec::new(), Vec::new())),
            programs: 0,
            states: 0,
            transitions: 0,
            nontrivial: 0,
            evaluations: 0,
            warnings_seen: 0,
            open_cases: 0,
            per_check_nontrivial: [0; 4],
            outcomes: BTreeSet::new(),
        }
    }
    fn flush(self, ctx: &Ctx) {
        ctx.add_states(self.states);
        ctx.add_transitions(self.transitions);
        ctx.add_evaluations(self.evaluations);
        ctx.add_nontrivial(self.nontrivial);
        ctx.stat("programs", self.programs);
        ctx.stat("warnings_observed", self.warnings_seen);
        ctx.stat("cwe426_outcome_left_open_by_statement", self.open_cases);
        for (i, n) in ["cwe676", "cwe782", "cwe426", "cwe332"].iter().enumerate() {
            ctx.stat(&format!("nontrivial_{n}"), self.per_check_nontrivial[i]);
        }
        for o in &self.outcomes {
            ctx.outcome(o);
        }
    }
}

fn module_of(cfg: &Cfg) -> (&'static CweModule, &'static str, usize) {
    match cfg {
        Cfg::Cwe676(_) => (&cwe_676::CWE_MODULE, "cwe676", 0),
        Cfg::Cwe782 => (&cwe_782::CWE_MODULE, "cwe782", 1),
        Cfg::Cwe426(_) => (&cwe_426::CWE_MODULE, "cwe426", 2),
        Cfg::Cwe332(_) => (&cwe_332::CWE_MODULE, "cwe332", 3),
    }
}

/// Build the program once, then run and judge every given (check, configuration).
fn run_program<'c>(ctx: &Ctx, acc: &mut Acc, spec: &Spec, cfgs: &mut dyn Iterator<Item = &'c (Cfg, Value)>) {
    let mut project = acc.project.take().expect("project is put back after every program");
    set_program(&mut project, spec);
    acc.programs += 1;
    {
        let project = &project;
        let graph = match catch(|| get_program_cfg(&project.program)) {
            Ok(g) => g,
            Err(p) => {
                ctx.violation(format!("panic {}", panic_site(&p)), serde_json::to_value(spec.to_case(&Cfg::Cwe782)).unwrap(), json!({"in": "get_program_cfg (building AnalysisResults)", "panic": p, "program": render(project)}));
                acc.project = Some(project.clone());
                return;
            }
        };
        let binary: Vec<u8> = Vec::new();
        let results = AnalysisResults::new(&binary, &graph, project);
        for (cfg, value) in cfgs {
            let (module, tag, check_no) = module_of(cfg);
            acc.states += 1;
            acc.transitions += 1;
            let got = catch(|| (module.run)(&results, value));
            let warnings = match got {
                Ok((_logs, warnings)) => warnings,
                Err(p) => {
                    acc.outcomes.insert(fixed_hash(&("panic", panic_site(&p))));
                    ctx.violation(format!("panic {}", panic_site(&p)), serde_json::to_value(spec.to_case(cfg)).unwrap(), json!({"check": module.name, "panic": p, "expected": "warnings, no panic", "program": render(project), "config": value}));
                    continue;
                }
            };
            acc.warnings_seen += warnings.len() as u64;
            let observed: Vec<W> = warnings.iter().map(|w| project_warning(cfg, w)).collect();
            acc.outcomes.insert(fixed_hash(&(check_no, &observed)));
            let viol = |class: &str, detail: Value| {
                ctx.violation(format!("{tag} {class}"), serde_json::to_value(spec.to_case(cfg)).unwrap(), detail);
            };
            let show = |ws: &[W]| ws.iter().map(|w| json!({"name": w.0, "addresses": w.1, "tids": w.2, "symbols": w.3})).collect::<Vec<_>>();
            let full = || warnings.iter().map(|w| serde_json::to_value(w).unwrap()).collect::<Vec<_>>();
            match cfg {
                Cfg::Cwe676(_) | Cfg::Cwe782 | Cfg::Cwe426(_) => {
                    let (expected, may) = expected_sites(spec, cfg);
                    acc.open_cases += may.len() as u64;
                    acc.evaluations += (spec.funcs[0].len() + spec.funcs[1].len()) as u64;
                    if !expected.is_empty() {
                        acc.nontrivial += 1;
                        acc.per_check_nontrivial[check_no] += 1;
                    }
                    if observed.is_empty() && expected.is_empty() {
                        continue;
                    }
                    let missing = msub(&expected, &observed);
                    let extra = msub(&msub(&observed, &expected), &may);
                    if !missing.is_empty() || !extra.is_empty() {
                        let detail = json!({"check": module.name, "config": value, "expected": show(&expected), "either_outcome_accepted": show(&may), "observed": show(&observed), "missing": show(&missing), "extra": show(&extra), "warnings": full(), "program": render(project)});
                        if !missing.is_empty() {
                            viol("missing-warning", detail.clone());
                        }
                        if !extra.is_empty() {
                            viol("extra-warning", detail);
                        }
                    }
                }
                Cfg::Cwe332(pairs) => {
                    // each configured pair whose generator is imported while the initializer is not
                    let qualifying: Vec<(u8, u8)> = pairs.iter().copied().filter(|(init, gen)| imported(spec, *gen) && !imported(spec, *init)).collect();
                    acc.evaluations += 2 * pairs.len() as u64;
                    let mut distinct = qualifying.clone();
                    distinct.sort();
                    distinct.dedup();
                    // a pair configured twice: the statement does not say whether it is reported once or twice
                    let (min, max) = (distinct.len(), qualifying.len());
                    if max > 0 {
                        acc.nontrivial += 1;
                        acc.per_check_nontrivial[check_no] += 1;
                    }
                    let wrong_name = observed.iter().filter(|w| w.0 != "CWE332").count();
                    let n = observed.len();
                    let exp_json = || json!({"pairs_to_report (initializer, generator)": qualifying.iter().map(|(a, b)| json!([uname(*a), uname(*b)])).collect::<Vec<_>>(), "count": if min == max { json!(max) } else { json!([min, max]) }});
                    let detail = |what: &str| json!({"check": module.name, "config": value, "what": what, "expected": exp_json(), "observed_count": n, "warnings": full(), "table": spec.table.iter().map(|s| uname(*s)).collect::<Vec<_>>()});
                    if n < min {
                        viol("missing-warning", detail("fewer warnings than pairs to report"));
                    } else if n > max || wrong_name > 0 {
                        viol("extra-warning", detail("more warnings than pairs to report (or a warning under a foreign check name)"));
                    } else if n > 0 {
                        // the warning carries its pair only in the text: it has to name both symbols
                        let descs: Vec<BTreeSet<&str>> = warnings.iter().map(|w| tokens(&w.description)).collect();
                        let every_pair_named = pairs_matchable(&distinct, &descs, &mut vec![false; n]);
                        let every_warning_names_a_pair = descs.iter().all(|d| distinct.iter().any(|(a, b)| d.contains(UNIVERSE[*a as usize]) && d.contains(UNIVERSE[*b as usize])));
                        if !every_pair_named || !every_warning_names_a_pair {
                            viol("wrong-pair", detail("the warnings do not name the symbols of the pairs to report"));
                        }
                    }
                }
            }
        }
    }
    acc.project = Some(project);
}

// ------------------------------------------------------------------ the space

/// Every extern table: subsets of the universe with <= MAX_TABLE symbols, by size then by bit mask.
fn tables() -> Vec<Vec<u8>> {
    let mut out: Vec<Vec<u8>> = mcx::space::subsets(UNIVERSE.len()).filter(|m| m.count_ones() as usize <= MAX_TABLE).map(|m| (0..UNIVERSE.len() as u8).filter(|b| m >> b & 1 == 1).collect()).collect();
    out.sort_by_key(|t: &Vec<u8>| (t.len(), t.clone()));
    out
}

/// Every list over the universe with <= 2 entries (ordered, with duplicates).
fn lists() -> Vec<Vec<u8>> {
    let k = UNIVERSE.len() as u64;
    (0..mcx::space::seq_count(k, 2)).map(|i| mcx::space::seq_decode(i, k, 2).into_iter().map(|x| x as u8).collect()).collect()
}

/// Call-target alphabet for a table.
fn alphabet(table: &[u8]) -> Vec<T> {
    let mut a: Vec<T> = table.iter().map(|s| T::Sym(*s)).collect();
    a.extend([T::Fn(0), T::Fn(1), T::Absent, T::Indirect]);
    a
}

/// The (number of sites in function 0, number of sites in function 1) shapes: each function <= MAX_SITES,
/// quick additionally <= MAX_SITES in total, and never more than `max_total` in total.
fn shapes(thorough: bool, max_total: usize) -> Vec<(usize, usize)> {
    let mut v = Vec::new();
    for a in 0..=MAX_SITES {
        for b in 0..=MAX_SITES {
            if (thorough || a + b <= MAX_SITES) && a + b <= max_total {
                v.push((a, b));
            }
        }
    }
    v.sort_by_key(|(a, b)| (a + b, *a));
    v
}

/// Run `cfgs` on every program of (every table) x (every shape) x (every target sequence) under one address mode.
/// Returns the number of programs.
fn explore_layouts(ctx: &Ctx, tabs: &[Vec<u8>], shp: &[(usize, usize)], addr: Addr, cfgs: &[(Cfg, Value)], what: &str) -> u64 {
    // index space: for every table, for every shape, all target sequences
    let mut segments: Vec<(usize, usize, u64, u64)> = Vec::new(); // (table, shape, first index, count)
    let mut total = 0u64;
    for (ti, t) in tabs.iter().enumerate() {
        let k = (t.len() + 4) as u64;
        for (si, (a, b)) in shp.iter().enumerate() {
            let n = k.pow((a + b) as u32);
            segments.push((ti, si, total, n));
            total += n;
        }
    }
    par_fold(
        total,
        64,
        Acc::new,
        |acc, idx| {
            let seg = segments.partition_point(|s| s.2 + s.3 <= idx);
            let (ti, si, first, _) = segments[seg];
            let table = &tabs[ti];
            let alpha = alphabet(table);
            let (a, b) = shp[si];
            let dims = vec![alpha.len() as u64; a + b];
            let d = mcx::space::decode(idx - first, &dims);
            let spec = Spec { table: table.clone(), funcs: [d[..a].iter().map(|i| alpha[*i]).collect(), d[a..].iter().map(|i| alpha[*i]).collect()], addr };
            ctx.sample(|| {
                let c = spec.to_case(&Cfg::Cwe782);
                json!({"table": c.table, "funcs": c.funcs, "addr": c.addr, "checks": what})
            });
            run_program(ctx, acc, &spec, &mut cfgs.iter());
        },
        |acc| acc.flush(ctx),
    );
    total
}

fn main() {
    let ctx = Ctx::new("C16");
    if let Some(c) = ctx.replay_case() {
        let case: Case = serde_json::from_value(c.clone()).unwrap_or_else(|e| mcx::machinery(&format!("bad case: {e}")));
        let (spec, cfg) = Spec::from_case(&case);
        let one = vec![(cfg.clone(), cfg_value(&cfg))];
        let mut acc = Acc::new();
        run_program(&ctx, &mut acc, &spec, &mut one.iter());
        acc.flush(&ctx);
        ctx.finish("replay of one case", false);
    }
    let ctx = &ctx;
    let thorough = ctx.thorough();

    // configurations
    let ls = lists();
    let mut per_program: Vec<(Cfg, Value)> = Vec::new();
    for l in &ls {
        per_program.push((Cfg::Cwe676(l.clone()), Value::Null));
    }
    per_program.push((Cfg::Cwe782, Value::Null));
    for l in &ls {
        per_program.push((Cfg::Cwe426(l.clone()), Value::Null));
    }
    let u = UNIVERSE.len() as u8;
    let all_pairs: Vec<(u8, u8)> = (0..u).flat_map(|a| (0..u).map(move |b| (a, b))).collect();
    per_program.push((Cfg::Cwe332(vec![]), Value::Null));
    for p in &all_pairs {
        per_program.push((Cfg::Cwe332(vec![*p]), Value::Null));
    }
    let mut two_pairs: Vec<(Cfg, Value)> = Vec::new();
    for p in &all_pairs {
        for q in &all_pairs {
            two_pairs.push((Cfg::Cwe332(vec![*p, *q]), Value::Null));
        }
    }
    for c in per_program.iter_mut().chain(two_pairs.iter_mut()) {
        c.1 = cfg_value(&c.0);
    }

    // phase A: every table x every call-site layout x every <=2-entry list (CWE676, CWE426), CWE782,
    // and every <=1-pair list (CWE332); all addresses distinct
    let tabs = tables();
    let total = explore_layouts(ctx, &tabs, &shapes(thorough, 2 * MAX_SITES), Addr::Distinct, &per_program, "CWE676 x 73 lists, CWE782, CWE426 x 73 lists, CWE332 x 65 pair lists");
    ctx.stat("phaseA_programs", total);

    // phase C: call sites that share an address (TID ids stay unique): a block duplicated into both functions,
    // several calls inside one instruction, and both at once. One warning per call is still demanded; the
    // oracle identifies a call by its TID and address. CWE332 does not look at call sites and is left out here.
    let site_checks: Vec<(Cfg, Value)> = per_program.iter().filter(|c| !matches!(c.0, Cfg::Cwe332(_))).cloned().collect();
    let shapes_c = shapes(thorough, if thorough { MAX_SITES + 1 } else { MAX_SITES });
    let mut total_c = 0;
    for mode in [Addr::SharedAcrossFunctions, Addr::SharedWithinFunction, Addr::SharedEverywhere] {
        total_c += explore_layouts(ctx, &tabs, &shapes_c, mode, &site_checks, "CWE676 x 73 lists, CWE782, CWE426 x 73 lists");
    }
    ctx.stat("phaseC_programs_with_shared_addresses", total_c);

    // phase B: CWE332 with every list of two pairs, on every table, for a program without call sites and a
    // program that calls every imported symbol (the statement does not look at call sites at all)
    let nb = tabs.len() as u64 * 2;
    par_fold(
        nb,
        1,
        Acc::new,
        |acc, idx| {
            let table = &tabs[(idx / 2) as usize];
            let mut funcs: [Vec<T>; NF] = [Vec::new(), Vec::new()];
            if idx % 2 == 1 {
                for (n, s) in table.iter().enumerate() {
                    funcs[n / 2].push(T::Sym(*s));
                }
            }
            let spec = Spec { table: table.clone(), funcs, addr: Addr::Distinct };
            run_program(ctx, acc, &spec, &mut two_pairs.iter());
        },
        |acc| acc.flush(ctx),
    );
    ctx.stat("phaseB_programs", nb);

    ctx.set(
        "bounds",
        json!({
            "universe": UNIVERSE,
            "extern_tables": format!("all {} subsets of the universe with <= {MAX_TABLE} symbols", tabs.len()),
            "functions": "2 internal functions: main (call chain), strcpy (internal function with the name of a universe symbol; conditional entry block, then call chain)",
            "call_sites": if thorough { "0..=3 per function (all 16 shapes)" } else { "0..=3 in total over both functions (all 10 shapes)" },
            "addresses": if thorough { "distinct for all of the above; additionally three shared-address modes (call chain of function 1 = duplicate of function 0's with suffixed ids; all calls of a function in one instruction; both) on all layouts with <= 3 sites per function and <= 4 in total, for CWE676/CWE782/CWE426" } else { "distinct for all of the above; additionally three shared-address modes (call chain of function 1 = duplicate of function 0's with suffixed ids; all calls of a function in one instruction; both) on all layouts of this tier, for CWE676/CWE782/CWE426" },
            "call_targets": "every table symbol, each internal function, an absent TID, an indirect call",
            "config_lists": "CWE676/CWE426: all 73 ordered lists with <= 2 entries over the universe (duplicates, names absent from the binary); CWE782: shipped config; CWE332: all pair lists with <= 1 pair on every program, all 4096 two-pair lists on every table for a program without and one with calls to every imported symbol",
        }),
    );
    ctx.assume("symbol names are unique per extern table (the extractor folds thunks into one symbol)");
    ctx.assume("the key of an extern symbol in the table is its own TID; call jumps have unique TID ids (addresses may coincide, see bounds.addresses); every call has an existing return block");
    ctx.assume("CWE332, a pair configured twice: one or two warnings are accepted (the statement does not fix the multiplicity)");
    ctx.assume("CWE426: a function that calls system and an internal (not imported) function whose name is on the privilege list, but no imported listed symbol: warning or no warning both accepted");
    ctx.assume("not judged: description wording (except that a CWE332 warning names both symbols of its pair as words), `other`, version, `symbols` of CWE676/CWE782 warnings, log messages");
    ctx.assume("'imported' is membership in the extern symbol table, independent of whether the symbol is called (CWE332)");
    ctx.finish(
        "one case = (extern table, call-site layout of two functions, one check with one configuration); programs are enumerated by index (table, shape, target sequence), each program is built once and every configuration of the tier is run on it through CWE_MODULE.run; the warning multiset is compared with the transcription of the statement; non-trivial = the statement demands at least one warning",
        true,
    );
}
