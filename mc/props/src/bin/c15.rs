//! C15 — the NULL-dereference check (CWE476) flags exactly the unchecked flows of return values.
//! Shape E: CFG skeleton family x per-block slot alphabet (copies, arithmetic, loads/stores with
//! and without a dependent address, checks on dependent and independent values directly and via
//! a flag, overwrites, library calls with declared parameters, indirect and internal calls, a
//! second allocation call, a spill of the value = out of scope) x branch conditions x
//! {function called from inside the program or not} x {internal callee returns or not}.
//! Every raw program goes through the real pipeline in the order of `caller/src/main.rs`:
//! `Project::normalize`, `get_program_cfg`, function signatures, pointer inference, then
//! `cwe_476::CWE_MODULE.run` with the shipped `config.json`. The oracle (`shared/c15_model.rs`)
//! is an independent path exploration on the same normalized program; it yields for every
//! source the statement's verdict P and a lower bound L (conditionals decided by the union of
//! all paths' carrying sets), so that `L <= reported <= P` separates join-merge effects from
//! outright violations.

#[path = "../shared/c14_common.rs"]
mod c14_common;
#[path = "../shared/c15_model.rs"]
mod c15_model;

use c14_common::*;
use c15_model::{judge_source, sources, Conv};
use mcx::{catch, par_for, Ctx};
use props::ccl::analysis::graph::get_program_cfg;
use props::ccl::checkers::cwe_476;
use props::ccl::intermediate_representation::*;
use props::ccl::pipeline::AnalysisResults;
use props::irb::*;
use serde::{Deserialize, Serialize};
use serde_json::{json, Value};
use std::collections::BTreeSet;
use std::sync::Mutex;

/// Labels of programs with L < P in which the implementation nevertheless reported what the statement demands.
static ORDER_DEPENDENT: Mutex<Vec<(usize, String, String)>> = Mutex::new(Vec::new());

#[derive(Serialize, Deserialize, Clone, Debug)]
struct Case {
    label: String,
    program: ProgramSpec,
    rendered: String,
}

// ------------------------------------------------------------------ program space

#[derive(Clone, Copy, Debug)]
enum Call {
    Ext(&'static str),
    Internal,
    Ind(&'static str),
}
struct Slot {
    defs: Vec<Term<Def>>,
    call: Option<Call>,
}

const N_SLOTS: usize = 28;
fn slot(i: usize, p: &str) -> Slot {
    let t = |k: usize| format!("instr_{p}_{k}");
    let d = |defs: Vec<Term<Def>>| Slot { defs, call: None };
    let c = |call: Call| Slot { defs: vec![], call: Some(call) };
    let zf = |e: Expression| assign(&t(0), var("ZF", 1), bin(BinOpType::IntEqual, e, cst(0, 8)));
    match i {
        0 => d(vec![]),
        1 => d(vec![assign(&t(0), r8("RBX"), e8("RAX"))]),
        2 => d(vec![assign(&t(0), r8("RDI"), e8("RAX"))]),
        3 => d(vec![assign(&t(0), r8("RCX"), add(e8("RAX"), cst(8, 8)))]),
        4 => d(vec![assign(&t(0), r8("RAX"), cst(0, 8))]),
        5 => d(vec![load(&t(0), r8("RDX"), e8("RAX"))]),
        6 => d(vec![load(&t(0), r8("RDX"), e8("RBX"))]),
        7 => d(vec![store(&t(0), e8("RAX"), cst(0, 8))]),
        8 => d(vec![load(&t(0), r8("RDX"), e8("RCX"))]),
        9 => d(vec![zf(e8("RAX"))]),
        10 => d(vec![zf(e8("RBX"))]),
        11 => d(vec![zf(e8("RDX"))]),
        12 => d(vec![assign(&t(0), r8("RBX"), cst(0, 8))]),
        13 => d(vec![assign(&t(0), r8("RDI"), cst(0, 8))]),
        14 => d(vec![assign(&t(0), r8("RAX"), e8("RBX"))]),
        15 => d(vec![store(&t(0), sp_off(8), e8("RAX"))]),
        16 => d(vec![load(&t(0), r8("RDX"), sp_off(8))]),
        17 => c(Call::Ext("ext1")),
        18 => c(Call::Ext("ext0")),
        19 => c(Call::Internal),
        20 => c(Call::Ind("RDX")),
        21 => c(Call::Ext("calloc")),
        22 => d(vec![assign(&t(0), r8("RAX"), add(e8("RAX"), e8("RDX")))]),
        23 => c(Call::Ext("ext2")),
        24 => d(vec![load(&t(0), r8("RDX"), add(e8("RAX"), cst(16, 8)))]),
        25 => d(vec![assign(&t(0), r8("RSI"), e8("RBX"))]),
        26 => c(Call::Ext("malloc")),
        // load through the value into the register that carries it: afterwards nothing carries it any more
        _ => d(vec![load(&t(0), r8("RAX"), e8("RAX"))]),
    }
}
// (slot 15, the spill, is thorough-only: programs with it are out of scope and skipped anyway)
const QUICK_SLOTS: [usize; 13] = [0, 1, 2, 4, 5, 6, 7, 9, 10, 17, 19, 21, 27];
const THOROUGH_4SLOT: [usize; 13] = [0, 1, 2, 4, 5, 6, 9, 10, 12, 14, 17, 19, 20];

fn externs() -> Vec<ExternSymbol> {
    let a = |n: &str| arg_reg(n, 8);
    let ret = || vec![arg_reg("RAX", 8)];
    vec![
        extern_symbol("malloc", "malloc", vec![a("RDI")], ret(), false),
        extern_symbol("calloc", "calloc", vec![a("RDI"), a("RSI")], ret(), false),
        extern_symbol("ext0", "ext0", vec![], ret(), false),
        extern_symbol("ext1", "ext1", vec![a("RDI")], ret(), false),
        extern_symbol("ext2", "ext2", vec![a("RDI"), a("RSI")], ret(), false),
        extern_symbol("exit", "exit", vec![a("RDI")], vec![], true),
    ]
}

const N_CONDS: u64 = 4;
fn cond(i: u64) -> Expression {
    match i {
        0 => reg("ZF", 1),
        1 => bin(BinOpType::IntEqual, e8("RAX"), cst(0, 8)),
        2 => bin(BinOpType::IntNotEqual, e8("RBX"), cst(0, 8)),
        _ => bin(BinOpType::IntEqual, e8("RDX"), cst(0, 8)),
    }
}

fn call_blocks(name: &str, mut defs: Vec<Term<Def>>, call: Call, cont: &str) -> Term<Blk> {
    defs.extend(push_retaddr(&format!("instr_{name}")));
    let jt = format!("instr_{name}_call");
    let j = match call {
        Call::Ext(sym) => j_call(&jt, sym, Some(cont)),
        Call::Internal => j_call(&jt, "FUN_g", Some(cont)),
        Call::Ind(r) => j_callind(&jt, e8(r), Some(cont)),
    };
    blk(&format!("blk_{name}"), defs, vec![j])
}

fn slot_blocks(name: &str, s: Slot, term: Vec<Term<Jmp>>) -> Vec<Term<Blk>> {
    match s.call {
        None => vec![blk(&format!("blk_{name}"), s.defs, term)],
        Some(call) => {
            let cont = format!("blk_{name}_c");
            vec![call_blocks(name, s.defs, call, &cont), blk(&cont, vec![], term)]
        }
    }
}

fn ret_block(name: &str, frame: u128) -> Term<Blk> {
    let (mut defs, j) = ret_seq(&format!("instr_{name}"));
    if frame > 0 {
        defs.insert(0, assign(&format!("instr_{name}_epi"), r8("RSP"), add(e8("RSP"), cst(frame, 8))));
    }
    blk(&format!("blk_{name}"), defs, vec![j])
}

const N_SKELETONS: u64 = 6;
fn skeleton_variants(s: u64) -> u64 {
    match s {
        0 => 1,
        4 => N_CONDS * N_CONDS,
        _ => N_CONDS,
    }
}
const FRAME: u128 = 24;

/// The subject function: `blk_a` calls malloc (the source), control continues in `blk_m`.
fn fun_f(s: u64, variant: u64, slots: &[usize]) -> Term<Sub> {
    let sl = |i: usize, n: &str| slot(slots.get(i).copied().unwrap_or(0), n);
    let c1 = cond(variant % N_CONDS);
    let c2 = cond((variant / N_CONDS) % N_CONDS);
    let br = |t: &str, to: &str| vec![j_branch(&format!("instr_{t}_j"), &format!("blk_{to}"))];
    let cb = |t: &str, c: Expression, yes: &str, no: &str| vec![j_cbranch(&format!("instr_{t}_cj"), &format!("blk_{yes}"), c), j_branch(&format!("instr_{t}_j"), &format!("blk_{no}"))];
    let mut b: Vec<Term<Blk>> = Vec::new();
    let pro = vec![assign("instr_f_pro", r8("RSP"), sub_(e8("RSP"), cst(FRAME, 8)))];
    if s == 3 {
        // the source call is inside the loop: a separate entry block
        b.push(blk("blk_entry", pro, br("entry", "a")));
        b.push(call_blocks("a", vec![], Call::Ext("malloc"), "blk_m"));
    } else {
        b.push(call_blocks("a", pro, Call::Ext("malloc"), "blk_m"));
    }
    match s {
        0 => {
            b.extend(slot_blocks("m", sl(0, "m"), br("m", "b")));
            b.extend(slot_blocks("b", sl(1, "b"), br("b", "c")));
            b.extend(slot_blocks("c", sl(2, "c"), br("c", "d")));
            b.extend(slot_blocks("d", sl(3, "d"), br("d", "r")));
        }
        1 => {
            b.extend(slot_blocks("m", sl(0, "m"), cb("m", c1, "b", "c")));
            b.extend(slot_blocks("b", sl(1, "b"), br("b", "d")));
            b.extend(slot_blocks("c", sl(3, "c"), br("c", "d")));
            b.extend(slot_blocks("d", sl(2, "d"), br("d", "r")));
        }
        2 => {
            b.extend(slot_blocks("m", sl(0, "m"), br("m", "b")));
            b.extend(slot_blocks("b", sl(1, "b"), cb("b", c1, "e", "c")));
            b.extend(slot_blocks("e", sl(3, "e"), br("e", "b")));
            b.extend(slot_blocks("c", sl(2, "c"), br("c", "r")));
        }
        3 => {
            b.extend(slot_blocks("m", sl(0, "m"), br("m", "b")));
            b.extend(slot_blocks("b", sl(1, "b"), cb("b", c1, "e", "c")));
            b.extend(slot_blocks("e", sl(3, "e"), br("e", "a")));
            b.extend(slot_blocks("c", sl(2, "c"), br("c", "r")));
        }
        4 => {
            // diamond, then a second conditional, then a slot
            b.extend(slot_blocks("m", sl(0, "m"), cb("m", c1, "b", "c")));
            b.extend(slot_blocks("b", sl(1, "b"), br("b", "d")));
            b.extend(slot_blocks("c", sl(3, "c"), br("c", "d")));
            b.push(blk("blk_d", vec![], cb("d", c2, "r", "e")));
            b.extend(slot_blocks("e", sl(2, "e"), br("e", "r")));
        }
        _ => {
            // early return
            b.extend(slot_blocks("m", sl(0, "m"), cb("m", c1, "r", "b")));
            b.extend(slot_blocks("b", sl(1, "b"), br("b", "c")));
            b.extend(slot_blocks("c", sl(2, "c"), br("c", "d")));
            b.extend(slot_blocks("d", sl(3, "d"), br("d", "r")));
        }
    }
    b.push(ret_block("r", FRAME));
    sub("FUN_f", "f", b)
}

/// Internal callee: returning (0) or never returning (1: calls exit, no Return instruction).
fn fun_g(v: u64) -> Term<Sub> {
    let blocks = if v == 0 {
        vec![blk("blk_g_a", vec![assign("instr_g_0", r8("RAX"), cst(0, 8))], vec![j_branch("instr_g_j", "blk_g_r")]), ret_block("g_r", 0)]
    } else {
        let mut d = vec![assign("instr_g_0", r8("RDI"), cst(1, 8))];
        d.extend(push_retaddr("instr_g_x"));
        vec![blk("blk_g_a", d, vec![j_call("instr_g_x_call", "exit", None)])]
    };
    sub("FUN_g", "g", blocks)
}

/// A caller of the subject function inside the program.
fn fun_h() -> Term<Sub> {
    let mut d = push_retaddr("instr_h");
    d.insert(0, assign("instr_h_0", r8("RDI"), cst(16, 8)));
    sub("FUN_h", "h", vec![blk("blk_h_a", d, vec![j_call("instr_h_call", "FUN_f", Some("blk_h_r"))]), ret_block("h_r", 0)])
}

fn build(s: u64, variant: u64, slots: &[usize], callee: u64, has_caller: bool) -> Project {
    let mut subs = vec![fun_f(s, variant, slots), fun_g(callee)];
    if has_caller {
        subs.push(fun_h());
    }
    project_x64(with_addresses(subs), externs())
}

fn calls_g(slots: &[usize]) -> bool {
    slots.iter().any(|s| matches!(slot(*s, "x").call, Some(Call::Internal)))
}

// ------------------------------------------------------------------ judging

struct Config {
    cwe476: Value,
    memory: Value,
    /// the same configuration with the other values of the (legacy) policy parameters
    cwe476_other_policies: Value,
    symbols: Vec<String>,
}

fn load_config() -> Config {
    let repo = std::env::var("VERIF_REPO_DIR").unwrap_or_else(|_| "/repo".to_string());
    let path = format!("{repo}/src/config.json");
    let text = std::fs::read_to_string(&path).unwrap_or_else(|e| mcx::machinery(&format!("cannot read {path}: {e}")));
    let v: Value = serde_json::from_str(&text).unwrap_or_else(|e| mcx::machinery(&format!("bad {path}: {e}")));
    let cwe476 = v["CWE476"].clone();
    let symbols: Vec<String> = cwe476["symbols"].as_array().unwrap_or_else(|| mcx::machinery("config.json: CWE476.symbols missing")).iter().map(|s| s.as_str().unwrap().to_string()).collect();
    let mut other = cwe476.clone();
    other["parameters"] = json!(["strict_call_policy=false", "strict_memory_policy=true", "max_steps=100"]);
    Config { cwe476, memory: v["Memory"].clone(), cwe476_other_policies: other, symbols }
}

fn conv_of(project: &Project) -> Conv {
    let cc = project.calling_conventions.get("__stdcall").unwrap_or_else(|| mcx::machinery("project without __stdcall convention"));
    Conv { params: names(&cc.integer_parameter_register), returns: names(&cc.integer_return_register), callee_saved: names(&cc.callee_saved_register) }
}

/// Run the real pipeline; returns the reported sources (TID of the source call) per configuration.
fn run_real(ctx: &Ctx, project: &Project, cfg: &Config, both_policies: bool) -> Result<(Vec<BTreeSet<String>>, Vec<Value>), String> {
    catch(|| {
        let graph = get_program_cfg(&project.program);
        let binary: Vec<u8> = Vec::new();
        let results = AnalysisResults::new(&binary, &graph, project);
        let (sigs, _logs) = results.compute_function_signatures();
        let results = results.with_function_signatures(Some(&sigs));
        let pi = results.compute_pointer_inference(&cfg.memory, false);
        let results = results.with_pointer_inference(Some(&pi));
        let mut out = Vec::new();
        let mut raw = Vec::new();
        let configs: Vec<&Value> = if both_policies { vec![&cfg.cwe476, &cfg.cwe476_other_policies] } else { vec![&cfg.cwe476] };
        for c in configs {
            let (_logs, warnings) = (cwe_476::CWE_MODULE.run)(&results, c);
            let mut set = BTreeSet::new();
            for w in &warnings {
                set.insert(w.tids.first().cloned().unwrap_or_default());
                if raw.len() < 8 {
                    raw.push(serde_json::to_value(w).unwrap());
                }
            }
            if set.len() != warnings.len() {
                // several warnings for one source do not contradict the statement
                ctx.stat("runs_with_several_warnings_for_one_source", 1);
            }
            out.push(set);
        }
        (out, raw)
    })
}

fn check_program(ctx: &Ctx, cfg: &Config, label: &str, raw: &Project, both_policies: bool) {
    let case = || serde_json::to_value(Case { label: label.to_string(), program: ProgramSpec::of(raw), rendered: render(raw) }).unwrap();
    let mut project = raw.clone();
    if let Err(p) = catch(|| {
        let _ = project.normalize();
    }) {
        ctx.violation(format!("panic {}", mcx::panic_site(&p)), case(), json!({"in": "Project::normalize", "panic": p, "program": render(raw)}));
        return;
    }
    let project = &project;
    let conv = conv_of(project);
    // oracle first: scope decision
    let srcs = sources(project, &cfg.symbols);
    let mut verdicts = Vec::new();
    for s in &srcs {
        let v = judge_source(project, &conv, s);
        ctx.add_evaluations(v.states);
        if v.out_of_scope {
            ctx.stat("skipped_out_of_scope_value_flows_through_memory", 1);
            return;
        }
        verdicts.push((tid_str(&s.call.tid), v));
    }
    let (reported_sets, raw_warnings) = match run_real(ctx, project, cfg, both_policies) {
        Ok(r) => r,
        Err(p) => {
            ctx.violation(format!("panic {}", mcx::panic_site(&p)), case(), json!({"in": "cfg / signatures / pointer inference / CWE476", "panic": p, "program": render(project)}));
            return;
        }
    };
    ctx.add_transitions(srcs.len().max(1) as u64);
    let reported = &reported_sets[0];
    if both_policies && reported_sets[1] != *reported {
        ctx.violation("cwe476 result depends on the legacy policy parameters", case(), json!({"shipped": reported, "other_policy_values": reported_sets[1], "program": render(project)}));
    }
    let l_set: BTreeSet<String> = verdicts.iter().filter(|(_, v)| v.l).map(|(t, _)| t.clone()).collect();
    let p_set: BTreeSet<String> = verdicts.iter().filter(|(_, v)| v.p).map(|(t, _)| t.clone()).collect();
    ctx.outcome(&(verdicts.iter().map(|(t, v)| (t.clone(), v.l, v.p, reported.contains(t))).collect::<Vec<_>>(), reported.len()));
    if !p_set.is_empty() {
        ctx.add_nontrivial(1);
    }
    let detail = |what: &str, src: &str, v: Option<&c15_model::Verdict>| {
        json!({"what": what, "source": src, "statement_verdict_P": v.map(|v| v.p), "lower_bound_L": v.map(|v| v.l),
               "path_to_sink": v.and_then(|v| v.p_witness.clone()).map(|(at, path)| json!({"sink": at, "blocks_from_the_call": path})),
               "reported_sources": reported, "P_set": p_set, "L_set": l_set, "warnings": raw_warnings, "normalized_program": render(project)})
    };
    let viol = |key: &str, d: Value| {
        ctx.stat(&format!("violations: {key}"), 1);
        ctx.violation(key, case(), d);
    };
    for r in reported {
        if !verdicts.iter().any(|(t, _)| t == r) {
            viol("cwe476 extra-warning (not a configured call)", detail("a warning names a source that is no call to a configured symbol", r, None));
        }
    }
    for (t, v) in &verdicts {
        let rep = reported.contains(t);
        ctx.stat("sources_judged", 1);
        match (v.l, v.p, rep) {
            (true, false, _) => mcx::machinery(&format!("oracle inconsistency: L holds but P does not for {t} in {label}")),
            (_, true, true) | (false, false, false) => {
                if v.p && !v.l {
                    ctx.stat("sources_with_L_below_P_reported_as_the_statement_demands", 1);
                    let mut o = ORDER_DEPENDENT.lock().unwrap();
                    let r = render(project);
                    o.push((r.len(), label.to_string(), r));
                    o.sort();
                    o.truncate(3);
                }
            }
            (_, false, true) => viol("cwe476 extra-warning", detail("reported although no path reaches a sink unchecked", t, Some(v))),
            (true, true, false) => viol("cwe476 missing-warning", detail("not reported although a path reaches a sink that no merge of carrying sets can hide", t, Some(v))),
            (false, true, false) => viol(
                "cwe476 missing-warning (join-merge: check on a register that carries the value only on another path)",
                detail("not reported: some path reaches a sink without passing a check of the value, but another path's carrying register makes the check look relevant after merging", t, Some(v)),
            ),
        }
        if v.p {
            ctx.stat(&format!("sources_expected, first sink: {}", v.p_sink_kind), 1);
            ctx.stat("sources_expected", 1);
        }
        if v.p != v.l {
            ctx.stat("sources_with_L_below_P", 1);
        }
    }
    if l_set != p_set {
        ctx.stat("programs_with_L_below_P", 1);
        if l_set != *reported && p_set != *reported && l_set.is_subset(reported) && reported.is_subset(&p_set) {
            ctx.stat("programs_reported_strictly_between_L_and_P", 1);
        }
    }
}

fn main() {
    let ctx = Ctx::new("C15");
    let cfg = load_config();
    if let Some(c) = ctx.replay_case() {
        let case: Case = serde_json::from_value(c.clone()).unwrap_or_else(|e| mcx::machinery(&format!("bad case: {e}")));
        check_program(&ctx, &cfg, &case.label, &case.program.to_project_x64(), true);
        ctx.finish("replay of one case", false);
    }
    let ctx = &ctx;
    let cfg = &cfg;
    let thorough = ctx.thorough();
    let full: Vec<usize> = (0..N_SLOTS).collect();
    // layers: (slot alphabet, slots, skip programs whose 4th slot is empty)
    let layers: Vec<(Vec<usize>, u32, bool)> = if thorough { vec![(full, 3, false), (THOROUGH_4SLOT.to_vec(), 4, true)] } else { vec![(QUICK_SLOTS.to_vec(), 3, false)] };
    let mut total = 0u64;
    for (alphabet, nslots, skip_empty_last) in &layers {
        let k = alphabet.len() as u64;
        let dims = vec![k; *nslots as usize];
        for s in 0..N_SKELETONS {
            let nv = skeleton_variants(s);
            let ns = k.pow(*nslots);
            let n = ns * nv * 2 * 2;
            par_for(n, 128, |i| {
                let slot_i = i % ns;
                let variant = (i / ns) % nv;
                let callee = (i / ns / nv) % 2;
                let has_caller = (i / ns / nv / 2) == 1;
                let sl: Vec<usize> = mcx::space::decode(slot_i, &dims).into_iter().map(|x| alphabet[x]).collect();
                if callee != 0 && !calls_g(&sl) {
                    return;
                }
                if *skip_empty_last && sl[3] == 0 {
                    return;
                }
                if !thorough && s != 0 && (variant % N_CONDS == 3 || (s == 4 && (variant / N_CONDS) % N_CONDS == 3)) {
                    return; // quick tier: three of the four branch conditions (the independent `RDX == 0` is thorough-only)
                }
                let p = build(s, variant, &sl, callee, has_caller);
                let label = format!("skeleton={s} variant={variant} slots={sl:?} callee={callee} has_caller={has_caller}");
                ctx.sample(|| json!({"label": label, "program": render(&p)}));
                // the second policy configuration is run on a tenth of the programs (the parameters are not read by the Rust implementation)
                check_program(ctx, cfg, &label, &p, i % 10 == 0);
                ctx.add_states(1);
            });
            total += n;
        }
    }
    ctx.set("index_space", json!(total));
    ctx.set("smallest_programs_with_L_below_P_reported_as_P", json!(ORDER_DEPENDENT.lock().unwrap().iter().map(|(_, l, r)| json!({"label": l, "normalized_program": r})).collect::<Vec<_>>()));
    ctx.set(
        "bounds",
        json!({"skeletons": "line, diamond, loop, loop through the source call, diamond + second conditional, early return",
               "layers": layers.iter().map(|(a, n, _)| json!({"slot_alphabet": a.len(), "slots": n})).collect::<Vec<_>>(),
               "branch_conditions": if thorough { N_CONDS } else { N_CONDS - 1 }, "callee": "returning / never returning (only multiplied in when a slot calls FUN_g)", "has_caller": 2,
               "configuration": "shipped src/config.json (CWE476 and Memory sections); every 10th program additionally with the other values of the legacy policy parameters",
               "configured_symbols_in_programs": ["malloc", "calloc"]}),
    );
    ctx.assume("programs in which (ignoring all checks) a store would write a value depending on the source value are outside the property's scope and skipped (counted)");
    ctx.assume("paths are CFG paths; an internal call returns iff a Return is reachable in the callee; calls to no_return symbols end the path; both outcomes of a conditional are feasible");
    ctx.assume("a value loaded from memory never depends on the source value (no flow through memory)");
    ctx.assume("library parameters are register parameters only; indirect-jump targets and call targets are not sinks (the statement lists none)");
    ctx.finish(
        "one case per (skeleton, condition variant, slot choices, callee variant, has_caller) with redundant callee variants skipped; each source call of the program is one judged evaluation: reported iff P, with L <= reported <= P separating join-merge effects; non-trivial = at least one source of the program is expected in the report",
        true,
    );
}
