// scratch probe (will be replaced)
use props::ccl::abstract_domain::{AbstractDomain, BricksDomain};
use serde_json::json;
fn main() {
    let which = std::env::args().nth(1).unwrap_or_default();
    let x: BricksDomain = serde_json::from_value(json!({"Value":[{"Value":{"sequence":["a"],"min":1,"max":2}}]})).unwrap();
    println!("{}", serde_json::to_string(&x).unwrap());
    if which == "merge" {
        let a = BricksDomain::from("a".to_string());
        let aa: BricksDomain = serde_json::from_value(json!({"Value":[{"Value":{"sequence":["a"],"min":1,"max":1}},{"Value":{"sequence":["a"],"min":1,"max":1}}]})).unwrap();
        println!("merging {a} with {aa}");
        let m = a.merge(&aa);
        println!("merged {m}");
        return;
    }
    let h = std::thread::spawn(move || {
        let n = x.normalize();
        println!("normalized: {n}");
    });
    std::thread::sleep(std::time::Duration::from_secs(3));
    println!("finished within 3s: {}", h.is_finished());
    std::process::exit(0);
}
