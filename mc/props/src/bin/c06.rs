//! C06 — the string abstractions (bricks, character inclusion) over-approximate.
//!
//! Shape E: every value of an explicitly enumerated finite family (brick lists over a small
//! brick alphabet; all character-inclusion values over {a,b,c}) is run through the real
//! `normalize`, `merge`, `widen`, `append_string_domain`, `From<String>` and judged by bounded
//! concretisation (`shared/bricks_lang.rs`): the set of all strings of length <= 6 over {a,b}
//! a value represents. Under a common length cut, equality / inclusion of these sets is exact.
//!
//! * `L6(normalize(x)) = L6(x)`
//! * `L6(x)·L6(y)` (cut at 6) `⊆ L6(append(x,y))`
//! * `L6(x) ∪ L6(y) ⊆ L6(merge(x,y))`, same for `widen`
//! * character inclusion: a string is represented iff certain ⊆ chars(s) ⊆ possible; merge and
//!   append as above on character sets; `From<String>` represents its argument.
//!
//! Real code is executed in **worker subprocesses** (the same binary with `VERIF_C06_WORKER=1`),
//! on a dedicated thread whose *CPU time* is watched (`pthread_getcpuclockid`): a call that does
//! not return within a few ms of CPU time (normal calls need microseconds) is parked forever, the
//! case is re-run alone with a long limit to confirm, and reported as `nontermination <op>` — it
//! can never hang or crash the explorer. Panics are caught in the worker and reported as
//! `panic <file:line> (<op>)`; a worker that dies from a signal is `crash signal <n> (<op>)`.

#[path = "../shared/bricks_lang.rs"]
mod bricks_lang;

use bricks_lang::*;
use mcx::{catch, par_for, Ctx};
use props::ccl::abstract_domain::{AbstractDomain, BricksDomain, CharacterInclusionDomain, DomainInsertion};
use serde::de::DeserializeOwned;
use serde::{Deserialize, Serialize};
use serde_json::{json, Value};
use std::io::{BufRead, BufReader, Write};
use std::process::{Child, ChildStdin, ChildStdout, Command, Stdio};
use std::sync::atomic::{AtomicU64, Ordering};

#[derive(Serialize, Deserialize, Clone, Debug)]
enum Case {
    Normalize { x: BricksSpec },
    Merge { x: BricksSpec, y: BricksSpec },
    Widen { x: BricksSpec, y: BricksSpec },
    Append { x: BricksSpec, y: BricksSpec },
    CiMerge { x: CiSpec, y: CiSpec },
    CiAppend { x: CiSpec, y: CiSpec },
    CiFrom { s: String },
}
impl Case {
    fn op_index(&self) -> usize {
        match self {
            Case::Normalize { .. } => 0,
            Case::Merge { .. } => 1,
            Case::Widen { .. } => 2,
            Case::Append { .. } => 3,
            Case::CiMerge { .. } => 4,
            Case::CiAppend { .. } => 5,
            Case::CiFrom { .. } => 6,
        }
    }
    fn op(&self) -> &'static str {
        match self {
            Case::Normalize { .. } => "BricksDomain::normalize",
            Case::Merge { .. } => "BricksDomain::merge",
            Case::Widen { .. } => "BricksDomain::widen",
            Case::Append { .. } => "BricksDomain::append_string_domain",
            Case::CiMerge { .. } => "CharacterInclusionDomain::merge",
            Case::CiAppend { .. } => "CharacterInclusionDomain::append_string_domain",
            Case::CiFrom { .. } => "CharacterInclusionDomain::from",
        }
    }
}

/// What a worker reports for one case.
#[derive(Serialize, Deserialize, Default, Debug)]
struct Report {
    viol: Vec<(String, Value)>,
    transitions: u64,
    evals: u64,
    nontrivial: bool,
    outcome: u64,
    stats: Vec<String>,
}

// ------------------------------------------------------------------ CPU-time watch (worker side)

mod sys {
    #[repr(C)]
    pub struct Timespec {
        pub tv_sec: i64,
        pub tv_nsec: i64,
    }
    extern "C" {
        pub fn pthread_self() -> u64;
        pub fn pthread_kill(thread: u64, sig: i32) -> i32;
        pub fn pthread_getcpuclockid(thread: u64, clock_id: *mut i32) -> i32;
        pub fn clock_gettime(clock_id: i32, tp: *mut Timespec) -> i32;
        pub fn signal(signum: i32, handler: usize) -> usize;
        pub fn pause() -> i32;
        pub fn kill(pid: i32, sig: i32) -> i32;
        pub fn getpid() -> i32;
    }
    pub const SIGUSR1: i32 = 10;
    pub const SIGTERM: i32 = 15;
    /// Signal handler that never returns: the thread it runs on sleeps forever (no CPU use).
    pub extern "C" fn park_forever(_sig: i32) {
        loop {
            unsafe {
                pause();
            }
        }
    }
    /// CPU time consumed so far by the thread behind `clock_id`, in microseconds.
    pub fn cpu_us(clock_id: i32) -> u64 {
        let mut ts = Timespec { tv_sec: 0, tv_nsec: 0 };
        if unsafe { clock_gettime(clock_id, &mut ts) } != 0 {
            eprintln!("MACHINERY-ERROR: clock_gettime on the thread CPU clock failed");
            std::process::exit(2);
        }
        ts.tv_sec as u64 * 1_000_000 + ts.tv_nsec as u64 / 1000
    }
}
const SIGKILL: i32 = 9;

// ------------------------------------------------------------------ spec <-> real

fn to_real<S: Serialize, R: DeserializeOwned>(s: &S) -> R {
    serde_json::from_value(serde_json::to_value(s).unwrap()).unwrap_or_else(|e| mcx::machinery(&format!("cannot build real value: {e}")))
}
fn from_real<R: Serialize, S: DeserializeOwned>(r: &R) -> S {
    serde_json::from_value(serde_json::to_value(r).unwrap()).unwrap_or_else(|e| mcx::machinery(&format!("cannot read real value: {e}")))
}
fn site(msg: &str) -> String {
    let s = mcx::panic_site(msg);
    match s.find("cwe_checker_lib/src/") {
        Some(i) => s[i + "cwe_checker_lib/src/".len()..].to_string(),
        None => s,
    }
}
fn short(v: &impl Serialize) -> Value {
    let s = serde_json::to_string(v).unwrap();
    if s.len() > 900 {
        json!(format!("{}...", &s[..900]))
    } else {
        serde_json::to_value(v).unwrap()
    }
}
fn in_normal_form(x: &BricksSpec) -> bool {
    match x {
        BricksSpec::Top => true,
        BricksSpec::Value(b) => b.iter().all(|b| match b {
            BrickSpec::Top => true,
            BrickSpec::Value(f) => (f.min, f.max) == (1, 1) || (f.min == 0 && f.max > 0),
        }),
    }
}

// ------------------------------------------------------------------ the oracle (runs in the worker)

fn judge(case: &Case) -> Report {
    let mut r = Report::default();
    let op = case.op();
    match case {
        Case::Normalize { x } => {
            let xr: BricksDomain = to_real(x);
            let lx = x.lang();
            r.transitions = 1;
            match catch(|| xr.normalize()) {
                Err(p) => r.viol.push((format!("panic {} ({op})", site(&p)), json!({"panic": p}))),
                Ok(n) => {
                    let ns: BricksSpec = from_real(&n);
                    let ln = ns.lang();
                    r.evals = 1;
                    if ln != lx {
                        r.viol.push((
                            "normalize-language".into(),
                            json!({"normalized": short(&ns), "language_before": show(lx), "language_after": show(ln), "lost": show(lx & !ln), "gained": show(ln & !lx)}),
                        ));
                    }
                    r.nontrivial = ns != *x && lx != 0 && lx != ALL;
                    r.outcome = mcx::fixed_hash(&("normalize", ln, ns.len(), ns == *x));
                    if !in_normal_form(&ns) {
                        r.stats.push("normalize: result not of the documented form [T]^{1,1} / [T]^{0,max>0} (not required by the property)".into());
                    }
                }
            }
        }
        Case::Merge { x, y } | Case::Widen { x, y } => {
            let is_merge = matches!(case, Case::Merge { .. });
            let (xr, yr): (BricksDomain, BricksDomain) = (to_real(x), to_real(y));
            let (lx, ly) = (x.lang(), y.lang());
            r.transitions = 1;
            match catch(|| if is_merge { xr.merge(&yr) } else { xr.widen(&yr) }) {
                Err(p) => r.viol.push((format!("panic {} ({op})", site(&p)), json!({"panic": p}))),
                Ok(m) => {
                    let ms: BricksSpec = from_real(&m);
                    let lm = ms.lang();
                    r.evals = 2;
                    if (lx | ly) & !lm != 0 {
                        r.viol.push((
                            format!("{}-overapprox", if is_merge { "merge" } else { "widen" }),
                            json!({"result": short(&ms), "language_x": show(lx), "language_y": show(ly), "language_result": show(lm), "lost": show((lx | ly) & !lm)}),
                        ));
                    }
                    r.nontrivial = x != y && lx & !ly != 0 && ly & !lx != 0;
                    r.outcome = mcx::fixed_hash(&(op, lm == ALL, lm == lx | ly, ms == BricksSpec::Top, ms.len()));
                    if lm != lx | ly {
                        r.stats.push(format!("{op}: result represents more than the union (precision only)"));
                    }
                }
            }
        }
        Case::Append { x, y } => {
            let (xr, yr): (BricksDomain, BricksDomain) = (to_real(x), to_real(y));
            let want = concat(x.lang(), y.lang());
            r.transitions = 1;
            match catch(|| xr.append_string_domain(&yr)) {
                Err(p) => r.viol.push((format!("panic {} ({op})", site(&p)), json!({"panic": p}))),
                Ok(a) => {
                    let s: BricksSpec = from_real(&a);
                    let la = s.lang();
                    r.evals = 1;
                    if want & !la != 0 {
                        r.viol.push(("append-overapprox".into(), json!({"result": short(&s), "concatenations": show(want), "language_result": show(la), "lost": show(want & !la)})));
                    }
                    r.nontrivial = want != 0 && want != ALL && x.len() > 0 && y.len() > 0;
                    r.outcome = mcx::fixed_hash(&(op, la == want, la == ALL, s.len()));
                    if la != want {
                        r.stats.push(format!("{op}: result represents more than the concatenations (precision only)"));
                    }
                }
            }
        }
        Case::CiMerge { x, y } | Case::CiAppend { x, y } => {
            let is_merge = matches!(case, Case::CiMerge { .. });
            let (xr, yr): (CharacterInclusionDomain, CharacterInclusionDomain) = (to_real(x), to_real(y));
            let (gx, gy) = (x.gamma(), y.gamma());
            let want = if is_merge { gx | gy } else { ci_concat(gx, gy) };
            r.transitions = 1;
            match catch(|| if is_merge { xr.merge(&yr) } else { xr.append_string_domain(&yr) }) {
                Err(p) => r.viol.push((format!("panic {} ({op})", site(&p)), json!({"panic": p}))),
                Ok(m) => {
                    let ms: CiSpec = from_real(&m);
                    let gm = ms.gamma();
                    r.evals = 1;
                    if want & !gm != 0 {
                        r.viol.push((
                            format!("ci-{}-overapprox", if is_merge { "merge" } else { "append" }),
                            json!({"result": short(&ms), "charsets_wanted": format!("{want:#018b}"), "charsets_represented": format!("{gm:#018b}")}),
                        ));
                    }
                    r.nontrivial = x != y && gx & !gy != 0 && gy & !gx != 0;
                    r.outcome = mcx::fixed_hash(&(op, gm == want, gm == u16::MAX, gm));
                    if gm != want {
                        r.stats.push(format!("{op}: result represents more than required (precision only)"));
                    }
                }
            }
        }
        Case::CiFrom { s } => {
            r.transitions = 1;
            let want: CiG = 1 << charset_mask(&s.chars().collect());
            match catch(|| CharacterInclusionDomain::from(s.clone())) {
                Err(p) => r.viol.push((format!("panic {} ({op})", site(&p)), json!({"panic": p}))),
                Ok(m) => {
                    let ms: CiSpec = from_real(&m);
                    let gm = ms.gamma();
                    r.evals = 1;
                    if want & !gm != 0 {
                        r.viol.push(("ci-from-string".into(), json!({"result": short(&ms)})));
                    }
                    r.nontrivial = !s.is_empty();
                    r.outcome = mcx::fixed_hash(&(op, gm));
                    if gm != want {
                        r.stats.push(format!("{op}: result represents more than the string (precision only)"));
                    }
                }
            }
        }
    }
    r
}

/// How many parked (non-terminating) threads a worker process accumulates before it asks to be
/// replaced.
const MAX_PARKED: u32 = 32;

/// Mailbox between the worker's main thread and one runner thread. It is leaked on purpose and
/// holds no owned heap data: a runner can be stopped at *any* instruction (possibly while it
/// holds the lock of its malloc arena), so the two threads never free each other's memory and
/// never share a lock: the main thread only *reads* the reply bytes, the runner only *reads* the
/// case line.
struct Mailbox {
    /// 0 = idle, 1 = case posted, 2 = reply ready
    state: std::sync::atomic::AtomicU32,
    job_ptr: std::sync::atomic::AtomicUsize,
    job_len: std::sync::atomic::AtomicUsize,
    rep_ptr: std::sync::atomic::AtomicUsize,
    rep_len: std::sync::atomic::AtomicUsize,
    pthread: AtomicU64,
}
struct Runner {
    mb: &'static Mailbox,
    handle: std::thread::JoinHandle<()>,
    clock: i32,
}
fn spawn_runner() -> Runner {
    use std::sync::atomic::{AtomicU32, AtomicUsize};
    let mb: &'static Mailbox = Box::leak(Box::new(Mailbox {
        state: AtomicU32::new(0),
        job_ptr: AtomicUsize::new(0),
        job_len: AtomicUsize::new(0),
        rep_ptr: AtomicUsize::new(0),
        rep_len: AtomicUsize::new(0),
        pthread: AtomicU64::new(0),
    }));
    let main_thread = std::thread::current();
    let handle = std::thread::Builder::new()
        .stack_size(16 << 20)
        .spawn(move || {
            mb.pthread.store(unsafe { sys::pthread_self() }, Ordering::SeqCst);
            main_thread.unpark();
            #[allow(unused_assignments)]
            let mut reply = String::new(); // owned (and only ever freed) by this thread
            loop {
                while mb.state.load(Ordering::SeqCst) != 1 {
                    std::thread::park();
                }
                let line: &str = unsafe { std::str::from_utf8_unchecked(std::slice::from_raw_parts(mb.job_ptr.load(Ordering::SeqCst) as *const u8, mb.job_len.load(Ordering::SeqCst))) };
                let case: Case = match serde_json::from_str(line) {
                    Ok(c) => c,
                    Err(e) => {
                        eprintln!("MACHINERY-ERROR: worker got a bad case: {e}");
                        std::process::exit(2);
                    }
                };
                reply = serde_json::to_string(&judge(&case)).unwrap();
                mb.rep_ptr.store(reply.as_ptr() as usize, Ordering::SeqCst);
                mb.rep_len.store(reply.len(), Ordering::SeqCst);
                mb.state.store(2, Ordering::SeqCst);
                main_thread.unpark();
            }
        })
        .unwrap_or_else(|e| mcx::machinery(&format!("cannot start runner thread: {e}")));
    while mb.pthread.load(Ordering::SeqCst) == 0 {
        std::thread::park_timeout(std::time::Duration::from_millis(1));
    }
    let mut clock = 0i32;
    if unsafe { sys::pthread_getcpuclockid(mb.pthread.load(Ordering::SeqCst), &mut clock) } != 0 {
        mcx::machinery("pthread_getcpuclockid failed");
    }
    Runner { mb, handle, clock }
}

/// Worker protocol: one case (JSON) per input line; one reply line per case:
/// a `Report` as JSON, or `!HANG <cpu_us>`; `!RECYCLE` asks the explorer for a fresh process.
fn worker_main() -> ! {
    mcx::install_quiet_panic_hook();
    let cpu_limit_us: u64 = std::env::var("VERIF_C06_CPU_MS").ok().and_then(|s| s.parse::<u64>().ok()).unwrap_or(1000) * 1000;
    unsafe {
        sys::signal(sys::SIGUSR1, sys::park_forever as *const () as usize);
    }
    // wall-clock guard against a wedged worker (never a verdict: SIGTERM is a machinery error for the explorer)
    static PROGRESS: AtomicU64 = AtomicU64::new(0);
    std::thread::spawn(|| {
        let mut last = (PROGRESS.load(Ordering::Relaxed), 0u32);
        loop {
            std::thread::sleep(std::time::Duration::from_secs(10));
            let p = PROGRESS.load(Ordering::Relaxed);
            last = if p == last.0 && p % 2 == 1 { (p, last.1 + 1) } else { (p, 0) };
            if last.1 >= 30 {
                unsafe {
                    sys::kill(sys::getpid(), sys::SIGTERM);
                }
            }
        }
    });
    let stdin = std::io::stdin();
    let mut runner = spawn_runner();
    let mut parked = 0u32;
    for line in stdin.lock().lines() {
        let Ok(line) = line else { break };
        if line.is_empty() {
            continue;
        }
        let start = sys::cpu_us(runner.clock);
        PROGRESS.fetch_add(1, Ordering::Relaxed); // odd = a case is in flight
        runner.mb.job_ptr.store(line.as_ptr() as usize, Ordering::SeqCst);
        runner.mb.job_len.store(line.len(), Ordering::SeqCst);
        runner.mb.state.store(1, Ordering::SeqCst);
        runner.handle.thread().unpark();
        let mut hang = false;
        let mut out = loop {
            if runner.mb.state.load(Ordering::SeqCst) == 2 {
                let bytes = unsafe { std::slice::from_raw_parts(runner.mb.rep_ptr.load(Ordering::SeqCst) as *const u8, runner.mb.rep_len.load(Ordering::SeqCst)) };
                let copy = String::from_utf8_lossy(bytes).into_owned();
                runner.mb.state.store(0, Ordering::SeqCst);
                break copy;
            }
            std::thread::park_timeout(std::time::Duration::from_millis(1));
            if runner.mb.state.load(Ordering::SeqCst) == 2 {
                continue;
            }
            let used = sys::cpu_us(runner.clock) - start;
            if used > cpu_limit_us {
                // stop the runner for good (it sleeps in the signal handler) and continue with a fresh one
                unsafe {
                    sys::pthread_kill(runner.mb.pthread.load(Ordering::SeqCst), sys::SIGUSR1);
                }
                parked += 1;
                hang = true;
                let old = std::mem::replace(&mut runner, spawn_runner());
                std::mem::forget(old);
                break format!("!HANG {used}");
            }
        };
        PROGRESS.fetch_add(1, Ordering::Relaxed);
        if hang {
            std::mem::forget(line); // the stopped runner still points into the line
        }
        let recycle = parked >= MAX_PARKED;
        out.push('\n');
        if recycle {
            out.push_str("!RECYCLE\n");
        }
        let mut so = std::io::stdout();
        if so.write_all(out.as_bytes()).is_err() || so.flush().is_err() {
            break;
        }
        if recycle {
            break;
        }
    }
    std::process::exit(0);
}

// ------------------------------------------------------------------ explorer side: worker pool

struct Worker {
    child: Child,
    inp: Option<ChildStdin>,
    out: BufReader<ChildStdout>,
}
impl Worker {
    fn spawn(cpu_ms: u64) -> Worker {
        let exe = std::env::current_exe().unwrap_or_else(|e| mcx::machinery(&format!("current_exe: {e}")));
        let mut child = Command::new(exe)
            .env("VERIF_C06_WORKER", "1")
            .env("VERIF_C06_CPU_MS", cpu_ms.to_string())
            .stdin(Stdio::piped())
            .stdout(Stdio::piped())
            .stderr(Stdio::inherit())
            .spawn()
            .unwrap_or_else(|e| mcx::machinery(&format!("cannot spawn worker: {e}")));
        let inp = child.stdin.take();
        let out = BufReader::new(child.stdout.take().unwrap());
        Worker { child, inp, out }
    }
}
impl Drop for Worker {
    fn drop(&mut self) {
        self.inp = None; // EOF: the worker exits by itself
        let _ = self.child.kill();
        let _ = self.child.wait();
    }
}
enum Res {
    Report(Report),
    /// the call did not return within the worker's CPU limit (microseconds used when it was parked)
    Hang(u64),
    /// the worker was terminated by this signal while working on the case
    Killed(i32),
    /// the worker exited by itself with this code while working on the case
    Exited(i32),
}
/// Run `lines` (one serialised case each) through `slot`'s worker; a worker that dies is
/// replaced and the remaining cases are sent to the new one.
fn run_batch(slot: &mut Option<Worker>, cpu_ms: u64, lines: &[String]) -> Vec<Res> {
    use std::os::unix::process::ExitStatusExt;
    let mut res = Vec::with_capacity(lines.len());
    while res.len() < lines.len() {
        let w = slot.get_or_insert_with(|| Worker::spawn(cpu_ms));
        let from = res.len();
        {
            let inp = w.inp.as_mut().unwrap();
            let mut buf = String::new();
            for l in &lines[from..] {
                buf.push_str(l);
                buf.push('\n');
            }
            // a broken pipe just means the worker died early; the reads below notice
            let _ = inp.write_all(buf.as_bytes());
            let _ = inp.flush();
        }
        let mut died = false;
        let mut recycle = false;
        for _ in from..lines.len() {
            let mut reply = String::new();
            match w.out.read_line(&mut reply) {
                Ok(n) if n > 0 && reply.starts_with("!HANG ") && reply.ends_with('\n') => res.push(Res::Hang(reply[6..].trim().parse().unwrap_or(0))),
                Ok(n) if n > 0 && reply.starts_with("!RECYCLE") => {
                    recycle = true;
                    break;
                }
                Ok(n) if n > 0 && reply.ends_with('\n') => match serde_json::from_str::<Report>(&reply) {
                    Ok(rep) => res.push(Res::Report(rep)),
                    Err(e) => mcx::machinery(&format!("worker sent garbage: {e}: {reply}")),
                },
                _ => {
                    died = true;
                    break;
                }
            }
        }
        if recycle {
            *slot = None; // replies so far stand; the rest goes to a fresh process
            continue;
        }
        if died {
            let mut w = slot.take().unwrap();
            w.inp = None;
            let status = w.child.wait().unwrap_or_else(|e| mcx::machinery(&format!("wait: {e}")));
            res.push(match status.signal() {
                Some(s) => Res::Killed(s),
                None => Res::Exited(status.code().unwrap_or(-1)),
            });
        }
    }
    res
}

/// CPU limit per case in the sweep workers (a case needs microseconds) and in the confirmation run.
const CPU_MS_SWEEP: u64 = 3;
const CPU_MS_CONFIRM: u64 = 1000;
/// How many non-terminations *per operation* are confirmed by re-running the case alone with the
/// long limit (suspects of an operation with fewer confirmed non-terminations are always re-run).
const MAX_CONFIRMATIONS: u64 = 8;

struct Explorer<'a> {
    ctx: &'a Ctx,
    /// confirmed non-terminations (plus confirmation runs in flight), per operation
    confirmed: [AtomicU64; 7],
    /// killed in a sweep but not re-run (only after MAX_CONFIRMATIONS confirmed ones)
    unjudged: AtomicU64,
    kills: AtomicU64,
    kill_budget: u64,
}
thread_local! {
    static SLOT: std::cell::RefCell<Option<Worker>> = const { std::cell::RefCell::new(None) };
}
impl<'a> Explorer<'a> {
    fn fold(&self, case: &Case, res: Res, confirmed_run: bool) {
        let ctx = self.ctx;
        let cj = || serde_json::to_value(case).unwrap();
        match res {
            Res::Report(rep) => {
                for (k, d) in rep.viol {
                    ctx.violation(k, cj(), d);
                }
                ctx.add_transitions(rep.transitions);
                ctx.add_evaluations(rep.evals);
                ctx.add_nontrivial(rep.nontrivial as u64);
                ctx.outcome(&rep.outcome);
                for s in rep.stats {
                    ctx.stat(&s, 1);
                }
            }
            Res::Hang(used_us) => {
                if confirmed_run {
                    ctx.add_transitions(1);
                    ctx.outcome(&("nontermination", case.op()));
                    ctx.stat("nontermination confirmed (re-run alone with the long CPU limit)", 1);
                    ctx.violation(format!("nontermination {}", case.op()), cj(), json!({"observed": format!("the call did not return within {CPU_MS_CONFIRM} ms of CPU time ({used_us} us used when it was stopped; normal calls take microseconds)"), "expected": "a result"}));
                    return;
                }
                self.kills.fetch_add(1, Ordering::Relaxed);
                // reserve one of the confirmation slots of this operation; a refuted suspect gives it back
                let slots = &self.confirmed[case.op_index()];
                if slots.fetch_add(1, Ordering::SeqCst) < MAX_CONFIRMATIONS {
                    let line = serde_json::to_string(case).unwrap();
                    let mut slot = None;
                    let r = run_batch(&mut slot, CPU_MS_CONFIRM, &[line]).pop().unwrap();
                    if !matches!(r, Res::Hang(_)) {
                        slots.fetch_sub(1, Ordering::SeqCst);
                        ctx.stat("nontermination suspect refuted by the long run (judged normally)", 1);
                    }
                    self.fold(case, r, true);
                } else {
                    slots.fetch_sub(1, Ordering::SeqCst);
                    self.unjudged.fetch_add(1, Ordering::Relaxed);
                    ctx.stat(&format!("stopped after {CPU_MS_SWEEP} ms CPU and not re-run ({MAX_CONFIRMATIONS} non-terminations of this operation were already confirmed): {}", case.op()), 1);
                }
            }
            Res::Killed(SIGKILL) => mcx::machinery("a worker was killed by SIGKILL (out of memory?)"),
            Res::Killed(sys::SIGTERM) => mcx::machinery("a worker made no progress for 5 minutes of wall time and terminated itself"),
            Res::Killed(s) => {
                ctx.add_transitions(1);
                ctx.violation(format!("crash signal {s} ({})", case.op()), cj(), json!({"observed": format!("the worker process died with signal {s}")}));
            }
            Res::Exited(c) => mcx::machinery(&format!("a worker exited with code {c}")),
        }
    }

    /// Run cases `0..n` (made by `make`) through the worker pool.
    fn sweep(&self, name: &str, n: u64, make: &(dyn Fn(u64) -> Case + Sync)) {
        const BATCH: u64 = 24;
        let chunks = (n + BATCH - 1) / BATCH;
        let skipped = AtomicU64::new(0);
        let kills_before = self.kills.load(Ordering::Relaxed);
        par_for(chunks, 1, |c| {
            let lo = c * BATCH;
            let hi = (lo + BATCH).min(n);
            if self.kills.load(Ordering::Relaxed) - kills_before >= self.kill_budget {
                skipped.fetch_add(hi - lo, Ordering::Relaxed);
                return;
            }
            let cases: Vec<Case> = (lo..hi).map(make).collect();
            let lines: Vec<String> = cases.iter().map(|c| serde_json::to_string(c).unwrap()).collect();
            let res = SLOT.with(|s| run_batch(&mut s.borrow_mut(), CPU_MS_SWEEP, &lines));
            for (case, r) in cases.iter().zip(res) {
                self.ctx.add_states(1);
                self.ctx.sample(|| serde_json::to_value(case).unwrap());
                self.fold(case, r, false);
            }
        });
        let sk = skipped.load(Ordering::Relaxed);
        if sk > 0 {
            self.ctx.cap_hit(&format!("{name}: {sk} of {n} cases not run: the sweep's budget of {} stopped (non-terminating) calls was used up", self.kill_budget));
        }
        self.ctx.stat(&format!("cases: {name}"), n - sk);
        eprintln!("[C06] {name}: {n} cases ({sk} skipped), kills so far {}, done at {:.1}s", self.kills.load(Ordering::Relaxed), self.ctx.elapsed_s());
    }
}

// ------------------------------------------------------------------ families

/// The `i`-th list of at most `max_len` bricks over `alpha` (shorter lists first).
fn list_at(alpha: &[BrickSpec], max_len: u32, i: u64) -> BricksSpec {
    BricksSpec::Value(mcx::space::seq_decode(i, alpha.len() as u64, max_len).into_iter().map(|k| alpha[k].clone()).collect())
}
fn all_lists(alpha: &[BrickSpec], max_len: u32) -> Vec<BricksSpec> {
    (0..mcx::space::seq_count(alpha.len() as u64, max_len)).map(|i| list_at(alpha, max_len, i)).collect()
}
/// Family for the pair operations: Top, all lists of <= 1 brick over `one`, all 2-brick lists over `two`.
fn pair_family(one: &[BrickSpec], two: &[BrickSpec]) -> Vec<BricksSpec> {
    let mut v = vec![BricksSpec::Top];
    v.extend(all_lists(one, 1));
    for a in two {
        for b in two {
            v.push(BricksSpec::Value(vec![a.clone(), b.clone()]));
        }
    }
    v
}
fn ci_values() -> Vec<CiSpec> {
    let abc = ['a', 'b', 'c'];
    let set = |m: u32| -> std::collections::BTreeSet<char> { (0..3).filter(|i| m >> i & 1 == 1).map(|i| abc[i as usize]).collect() };
    let mut v = vec![CiSpec::Top];
    for c in 0..8u32 {
        for p in 0..8u32 {
            if c & !p == 0 {
                v.push(CiSpec::Value((CharSetSpec::Value(set(c)), CharSetSpec::Value(set(p)))));
            }
        }
        v.push(CiSpec::Value((CharSetSpec::Value(set(c)), CharSetSpec::Top)));
    }
    v
}
fn strings_upto(alpha: &[char], max_len: u32) -> Vec<String> {
    (0..mcx::space::seq_count(alpha.len() as u64, max_len)).map(|i| mcx::space::seq_decode(i, alpha.len() as u64, max_len).into_iter().map(|k| alpha[k]).collect()).collect()
}

fn main() {
    if std::env::var("VERIF_C06_WORKER").is_ok() {
        worker_main();
    }
    let ctx = Ctx::new("C06");
    match self_check() {
        Ok(n) => ctx.stat("oracle self check: vectors", n),
        Err(e) => mcx::machinery(&e),
    }
    let th = ctx.thorough();
    let ex = Explorer { ctx: &ctx, confirmed: std::array::from_fn(|_| AtomicU64::new(0)), unjudged: AtomicU64::new(0), kills: AtomicU64::new(0), kill_budget: if th { 40_000 } else { 2_000 } };
    if let Some(c) = ctx.replay_case() {
        let case: Case = serde_json::from_value(c.clone()).unwrap_or_else(|e| mcx::machinery(&format!("bad case: {e}")));
        let mut slot = None;
        let r = run_batch(&mut slot, CPU_MS_CONFIRM, &[serde_json::to_string(&case).unwrap()]).pop().unwrap();
        ex.fold(&case, r, true);
        ctx.finish("replay of one case", false);
    }

    // ---- normalize: every list of <= 2 (quick) / <= 3 (thorough) bricks over the full alphabet
    let full = brick_alphabet_full();
    let max_len = if th { 3 } else { 2 };
    let n_lists = mcx::space::seq_count(full.len() as u64, max_len);
    // a fixed multiplicative permutation spreads the order over the space (only matters if the kill budget runs out)
    let mult = 1_000_003u64;
    assert!(gcd(mult, n_lists) == 1);
    ex.sweep("normalize", n_lists, &|i| Case::Normalize { x: list_at(&full, max_len, (i as u128 * mult as u128 % n_lists as u128) as u64) });

    // ---- merge / widen / append: all ordered pairs of a sub-family
    let fam = if th {
        let two = brick_alphabet(&[0b0000, 0b0001, 0b0010, 0b0100, 0b0110, 0b0011], &MINMAX);
        pair_family(&full, &two)
    } else {
        let one = brick_alphabet(&[0b0000, 0b0001, 0b0010, 0b0100, 0b0110, 0b0011, 0b1000, 0b1010], &MINMAX);
        let two = brick_alphabet(&[0b0010, 0b0100, 0b0110], &[(0, 1), (1, 1), (0, INF)]);
        pair_family(&one, &two)
    };
    let nf = fam.len() as u64;
    ctx.stat("pair family size (bricks)", nf);
    ex.sweep("merge", nf * nf, &|i| Case::Merge { x: fam[(i / nf) as usize].clone(), y: fam[(i % nf) as usize].clone() });
    ex.sweep("append", nf * nf, &|i| Case::Append { x: fam[(i / nf) as usize].clone(), y: fam[(i % nf) as usize].clone() });
    let fam_v: Vec<BricksSpec> = fam.iter().filter(|x| **x != BricksSpec::Top).cloned().collect();
    let nv = fam_v.len() as u64;
    ex.sweep("widen", nv * nv, &|i| Case::Widen { x: fam_v[(i / nv) as usize].clone(), y: fam_v[(i % nv) as usize].clone() });

    // ---- character inclusion: all values over {a,b,c}
    let ci = ci_values();
    let nc = ci.len() as u64;
    ctx.stat("character inclusion values", nc);
    ex.sweep("ci-merge", nc * nc, &|i| Case::CiMerge { x: ci[(i / nc) as usize].clone(), y: ci[(i % nc) as usize].clone() });
    ex.sweep("ci-append", nc * nc, &|i| Case::CiAppend { x: ci[(i / nc) as usize].clone(), y: ci[(i % nc) as usize].clone() });
    let strs = strings_upto(&['a', 'b', 'c'], 3);
    ex.sweep("ci-from", strs.len() as u64, &|i| Case::CiFrom { s: strs[i as usize].clone() });

    ctx.stat("calls stopped by the CPU limit of the sweep", ex.kills.load(Ordering::Relaxed));
    let unj = ex.unjudged.load(Ordering::Relaxed);
    if unj > 0 {
        ctx.cap_hit(&format!("{unj} calls were stopped by the {CPU_MS_SWEEP} ms CPU limit of the sweep and not re-run with the long limit, because {MAX_CONFIRMATIONS} non-terminations of the same operation had already been confirmed; these cases have no verdict"));
    }
    ctx.set(
        "bounds",
        json!({
            "brick alphabet": "Top, or string set = any subset of {\"\",a,b,ab} with (min,max) in {(0,0),(0,1),(1,1),(0,2),(1,2),(2,2),(1,3),(0,inf),(1,inf)}, inf = u32::MAX: 145 bricks",
            "normalize": format!("every list of <= {max_len} bricks: {n_lists} values"),
            "merge/append/widen": format!("all ordered pairs of {nf} values: Top, all lists of <= 1 brick ({}), all 2-brick lists over a reduced alphabet ({})", if th { "full alphabet" } else { "8 string sets x 9 (min,max) + Top" }, if th { "Top + string sets {},{\"\"},{a},{b},{a,b},{\"\",a} x all 9 (min,max)" } else { "Top + string sets {a},{b},{a,b} x (0,1),(1,1),(0,inf)" }),
            "character inclusion": "all 36 values over {a,b,c} (certain ⊆ possible, possible may be Top, plus Top): all ordered pairs for merge and append; From<String> for all 40 strings of length <= 3",
            "concretisation": "all 127 strings of length <= 6 over {a,b}",
        }),
    );
    ctx.assume("bricks satisfy min <= max; normalize and widen are called on non-Top values only (as merge does)");
    ctx.assume("a brick [S]^{min,max} represents the concatenations of k elements of S for min <= k <= max; an empty S with min = 0 represents the empty string");
    ctx.assume("character inclusion: the set of certainly contained characters is never Top (the constructors cannot produce it)");
    ctx.assume(&format!("a call that uses more than {CPU_MS_CONFIRM} ms of CPU time when re-run alone is reported as non-terminating (normal calls take microseconds)"));
    ctx.finish(
        "every value / ordered pair of the stated families is one case, run through the real operation in a worker process and compared by bounded concretisation; non-trivial = normalize changed the list and the language is neither empty nor everything / the two inputs are incomparable",
        true,
    );
}
fn gcd(a: u64, b: u64) -> u64 {
    if b == 0 {
        a
    } else {
        gcd(b, a % b)
    }
}
