//! C03 — merging abstract values over-approximates both inputs and is stable.
//!
//! Shape E: for every abstract domain an explicitly enumerated finite family of values is
//! built, and **all ordered pairs** `(a, b)` of the family are run through the real
//! `merge` / `merge_with`. Oracle (by concretisation γ, see `shared/merge_gamma.rs`):
//!
//! * over-approximation: γ(a) ∪ γ(b) ⊆ γ(merge(a,b)), same for `merge_with`;
//! * stability: γ(merge(merge(a,b), b)) = γ(merge(a,b)) and γ(merge(merge(a,b), a)) = γ(merge(a,b))
//!   (both `a` and `b` were already absorbed), γ(merge(a,a)) = γ(a) (also for `a.merge(&a.clone())`);
//! * `merge(a,b)` has the width of the inputs.
//!
//! Widening hints and delays are not part of γ: only a represented value going missing, or a
//! represented set growing when nothing new was merged in, raises an alarm.

#[path = "../shared/merge_gamma.rs"]
mod merge_gamma;

use merge_gamma::*;
use mcx::{catch, par_fold, Ctx};
use props::ccl::abstract_domain::*;
use props::ccl::intermediate_representation::*;
use props::bv;
use serde::{Deserialize, Serialize};
use serde_json::{json, Value};
use std::collections::{BTreeMap, BTreeSet};

type DataIv = DataSpec<IvSpec>;
type DataBv = DataSpec<BvSpec>;

#[derive(Serialize, Deserialize, Clone, Debug)]
enum Case {
    Bv { a: BvSpec, b: BvSpec },
    Iv { a: IvSpec, b: IvSpec },
    Data { a: DataIv, b: DataIv },
    Taint { a: TaintSpec, b: TaintSpec },
    MapBv { strat: Strat, a: BTreeMap<u64, BvSpec>, b: BTreeMap<u64, BvSpec> },
    MapData { strat: Strat, a: BTreeMap<u64, DataIv>, b: BTreeMap<u64, DataIv> },
    MapTaint { strat: Strat, a: BTreeMap<u64, TaintSpec>, b: BTreeMap<u64, TaintSpec> },
    MemBv { a: MemSpec<BvSpec>, b: MemSpec<BvSpec> },
    MemData { a: MemSpec<DataBv>, b: MemSpec<DataBv> },
}

// ------------------------------------------------------------------ local accumulators

#[derive(Default)]
struct Acc {
    states: u64,
    transitions: u64,
    nontrivial: u64,
    evals: u64,
    outcomes: BTreeSet<u64>,
    /// merge result is everything although neither input is (precision, not a verdict)
    result_all: u64,
    /// a re-merge changed the object but not its γ (hint / delay bookkeeping)
    bookkeeping_only: u64,
    /// merge_with and merge produced different γ (each judged on its own)
    mw_differs: u64,
}
impl Acc {
    fn flush(self, ctx: &Ctx, dom: &str) {
        ctx.stat(&format!("{dom}: merge result is everything although neither input is"), self.result_all);
        ctx.stat(&format!("{dom}: re-merge changed bookkeeping only (γ equal)"), self.bookkeeping_only);
        ctx.stat(&format!("{dom}: merge_with and merge differ in γ (both judged separately)"), self.mw_differs);
        ctx.add_states(self.states);
        ctx.add_transitions(self.transitions);
        ctx.add_nontrivial(self.nontrivial);
        ctx.add_evaluations(self.evals);
        for v in &self.outcomes {
            ctx.outcome(v);
        }
    }
}

/// A family member with everything that does not depend on the partner precomputed.
struct Pre<D: Dom> {
    spec: D,
    real: D::Real,
    g: D::G,
}
fn pre<D: Dom>(spec: D) -> Pre<D> {
    let real = spec.build();
    let g = spec.gamma();
    // the real object must concretise to what the specification says (harness sanity)
    match D::read(&real) {
        Ok((gr, w)) => {
            if !gr.same(&g) || w != spec.width() {
                mcx::machinery(&format!("specification and real object disagree: {spec:?} -> {gr:?} (width {w})"));
            }
        }
        Err(e) => mcx::machinery(&format!("cannot read back {spec:?}: {e}")),
    }
    Pre { spec, real, g }
}

fn short<T: std::fmt::Debug>(x: &T) -> String {
    let mut s = format!("{x:?}");
    if s.len() > 700 {
        s.truncate(700);
        s.push_str("...");
    }
    s
}
/// `…/src/cwe_checker_lib/src/abstract_domain/x.rs:12` -> `abstract_domain/x.rs:12` (stable across scratch copies)
fn site(msg: &str) -> String {
    let s = mcx::panic_site(msg);
    match s.find("cwe_checker_lib/src/") {
        Some(i) => s[i + "cwe_checker_lib/src/".len()..].to_string(),
        None => s,
    }
}

/// The whole oracle for one ordered pair.
fn check_pair<D: Dom>(ctx: &Ctx, acc: &mut Acc, dom: &str, a: &Pre<D>, b: &Pre<D>, same: bool, class: &dyn Fn(&D, &D, &D::G) -> u64, case: &dyn Fn() -> Value)
where
    D::Real: std::fmt::Debug,
{
    acc.states += 1;
    let bad = |key: String, detail: Value| ctx.violation(key, case(), detail);
    let read = |what: &str, r: &D::Real| -> Option<(D::G, u64)> {
        match D::read(r) {
            Ok(x) => Some(x),
            Err(e) => {
                // a result that cannot be concretised (e.g. bounds of different widths) represents nothing we can name
                bad(format!("merge-width {dom}"), json!({"what": what, "unreadable_result": e, "result": short(r)}));
                None
            }
        }
    };
    let incomparable = !a.g.subset(&b.g) && !b.g.subset(&a.g);
    if incomparable {
        acc.nontrivial += 1;
    }

    // ---- merge
    let m = match catch(|| a.real.merge(&b.real)) {
        Ok(m) => m,
        Err(p) => {
            bad(format!("panic {} ({dom} merge)", site(&p)), json!({"panic": p}));
            return;
        }
    };
    acc.transitions += 1;
    let Some((gm, wm)) = read("merge(a,b)", &m) else { return };
    acc.evals += 2;
    if !a.g.subset(&gm) || !b.g.subset(&gm) {
        bad(
            format!("merge-overapprox {dom}"),
            json!({"lost_from": if !a.g.subset(&gm) { "a" } else { "b" }, "merge(a,b)": short(&m), "gamma_a": short(&a.g), "gamma_b": short(&b.g), "gamma_merge": short(&gm)}),
        );
    }
    if wm != a.spec.width() {
        bad(format!("merge-width {dom}"), json!({"expected": a.spec.width(), "observed": wm, "merge(a,b)": short(&m)}));
    }
    acc.outcomes.insert(mcx::fixed_hash(&(dom, gm.subset(&a.g), gm.subset(&b.g), gm.is_all(), incomparable, class(&a.spec, &b.spec, &gm))));
    if gm.is_all() && !a.g.is_all() && !b.g.is_all() {
        acc.result_all += 1;
    }

    // ---- stability: both inputs are already absorbed by m
    for (label, other) in [("b", &b.real), ("a", &a.real)] {
        match catch(|| m.merge(other)) {
            Ok(m2) => {
                acc.transitions += 1;
                if m2 != m {
                    if let Some((g2, _)) = read("merge(merge(a,b),x)", &m2) {
                        acc.evals += 1;
                        if !g2.same(&gm) {
                            bad(
                                format!("merge-stable {dom}"),
                                json!({"again_with": label, "merge(a,b)": short(&m), "merged_again": short(&m2), "gamma_before": short(&gm), "gamma_after": short(&g2)}),
                            );
                        } else {
                            acc.bookkeeping_only += 1;
                        }
                    }
                }
            }
            Err(p) => bad(format!("panic {} ({dom} merge)", site(&p)), json!({"panic": p, "in": format!("merge(merge(a,b),{label})")})),
        }
    }

    // ---- self merge (diagonal only)
    if same {
        if !gm.same(&a.g) {
            bad(format!("merge-self {dom}"), json!({"merge(a,a)": short(&m), "gamma_a": short(&a.g), "gamma_merge": short(&gm)}));
        }
        // the clone shares its Arc with the original for DomainMap / MemRegion
        let c = a.real.clone();
        match catch(|| a.real.merge(&c)) {
            Ok(mc) => {
                acc.transitions += 1;
                if let Some((gc, _)) = read("a.merge(&a.clone())", &mc) {
                    if !gc.same(&a.g) {
                        bad(format!("merge-self {dom}"), json!({"a.merge(&a.clone())": short(&mc), "gamma_a": short(&a.g)}));
                    }
                }
            }
            Err(p) => bad(format!("panic {} ({dom} merge)", site(&p)), json!({"panic": p, "in": "a.merge(&a.clone())"})),
        }
    }

    // ---- merge_with
    let mut w = a.real.clone();
    if let Err(p) = catch(|| {
        w.merge_with(&b.real);
    }) {
        bad(format!("panic {} ({dom} merge_with)", site(&p)), json!({"panic": p}));
        return;
    }
    acc.transitions += 1;
    let gw = if w == m {
        gm.clone()
    } else {
        let Some((gw, ww)) = read("a.merge_with(b)", &w) else { return };
        if ww != a.spec.width() {
            bad(format!("merge-width {dom}"), json!({"via": "merge_with", "expected": a.spec.width(), "observed": ww}));
        }
        gw
    };
    if !a.g.subset(&gw) || !b.g.subset(&gw) {
        bad(
            format!("merge_with-overapprox {dom}"),
            json!({"lost_from": if !a.g.subset(&gw) { "a" } else { "b" }, "a.merge_with(b)": short(&w), "gamma_a": short(&a.g), "gamma_b": short(&b.g), "gamma_result": short(&gw)}),
        );
    }
    if !gw.same(&gm) {
        acc.mw_differs += 1;
    }
    let mut w2 = w.clone();
    match catch(|| {
        w2.merge_with(&b.real);
    }) {
        Ok(()) => {
            acc.transitions += 1;
            if w2 != w {
                if let Some((g2, _)) = read("merge_with twice", &w2) {
                    if !g2.same(&gw) {
                        bad(format!("merge_with-stable {dom}"), json!({"once": short(&w), "twice": short(&w2)}));
                    }
                }
            }
        }
        Err(p) => bad(format!("panic {} ({dom} merge_with)", site(&p)), json!({"panic": p, "in": "second merge_with"})),
    }
}

fn no_class<D: Dom>(_: &D, _: &D, _: &D::G) -> u64 {
    0
}
/// Which widening path an interval merge took (for the outcome statistics only).
fn iv_class(a: &IvSpec, b: &IvSpec, m: &IvG) -> u64 {
    let lo = a.s.min(b.s) as i128;
    let hi = a.e.max(b.e) as i128;
    let (lb, ub, d) = m.hints;
    let mut c = 0;
    if m.s < lo {
        c |= 1; // start moved below both inputs: widened downwards
    }
    if m.e > hi {
        c |= 2; // widened upwards
    }
    if lb.is_some() {
        c |= 4;
    }
    if ub.is_some() {
        c |= 8;
    }
    if d != a.d.max(b.d) {
        c |= 16; // delay was reset by a widening
    }
    c | ((m.st.min(3) as u64) << 5)
}

/// All ordered pairs of `fam`.
fn sweep<D: Dom>(ctx: &Ctx, dom: &str, fam: Vec<D>, class: &(dyn Fn(&D, &D, &D::G) -> u64 + Sync), mk: &(dyn Fn(&D, &D) -> Case + Sync))
where
    D::Real: std::fmt::Debug,
{
    let fam: Vec<Pre<D>> = fam.into_iter().map(pre).collect();
    let n = fam.len() as u64;
    ctx.stat(&format!("{dom}: family size"), n);
    par_fold(
        n,
        1,
        Acc::default,
        |acc, i| {
            let a = &fam[i as usize];
            for (j, b) in fam.iter().enumerate() {
                let case = || serde_json::to_value(mk(&a.spec, &b.spec)).unwrap();
                if (i * n + j as u64) % 4099 == 0 {
                    ctx.sample(case);
                }
                check_pair(ctx, acc, dom, a, b, i == j as u64, class, &case);
            }
        },
        |acc| acc.flush(ctx, dom),
    );
    eprintln!("[C03] {dom}: {n} values, {} ordered pairs, done at {:.1}s", n * n, ctx.elapsed_s());
}

// ------------------------------------------------------------------ families

fn divisors(d: u64) -> Vec<u64> {
    (1..=d).filter(|k| d % k == 0).collect()
}
/// Well-formed strided intervals with both bounds in `endpoints`.
fn intervals(w: u32, endpoints: &[i64], all_divisors_up_to: u64) -> Vec<IvSpec> {
    let mut out = Vec::new();
    for &s in endpoints {
        for &e in endpoints {
            if s > e {
                continue;
            }
            if s == e {
                out.push(IvSpec::plain(w, s, e, 0));
                continue;
            }
            let d = (e as i128 - s as i128) as u128;
            let strides: Vec<u64> = if d <= all_divisors_up_to as u128 {
                divisors(d as u64)
            } else {
                let mut v: Vec<u128> = vec![1, 2, 3, 4, 5, 8, d / 2, d / 3, d];
                v.retain(|k| *k > 0 && *k <= u64::MAX as u128 && d % *k == 0);
                v.sort();
                v.dedup();
                v.into_iter().map(|k| k as u64).collect()
            };
            for st in strides {
                out.push(IvSpec::plain(w, s, e, st));
            }
        }
    }
    out
}
/// Attach every admissible combination of widening hints / delay. Hints respect the invariant the
/// library maintains (`lower < start`, `upper > end`); they need not respect the stride.
fn with_hints(base: &[IvSpec], lbs: &[Option<i64>], ubs: &[Option<i64>], ds: &[u64]) -> Vec<IvSpec> {
    let mut out = Vec::new();
    for iv in base {
        for &lb in lbs {
            if lb.map_or(false, |v| v >= iv.s) {
                continue;
            }
            for &ub in ubs {
                if ub.map_or(false, |v| v <= iv.e) {
                    continue;
                }
                for &d in ds {
                    out.push(IvSpec { lb, ub, d, ..iv.clone() });
                }
            }
        }
    }
    out
}
fn iv_family(thorough: bool) -> Vec<IvSpec> {
    if thorough {
        let e1: Vec<i64> = vec![-128, -127, -126, -64, -5, -3, -2, -1, 0, 1, 2, 3, 4, 6, 8, 9, 64, 126, 127];
        let base = intervals(1, &e1, 16);
        with_hints(&base, &[None, Some(-128), Some(-100), Some(-4)], &[None, Some(3), Some(7), Some(127)], &[0, 1, 4, 255])
    } else {
        let e1: Vec<i64> = vec![-128, -127, -3, -1, 0, 1, 2, 4, 6, 8, 127];
        let base = intervals(1, &e1, 8);
        with_hints(&base, &[None, Some(-128), Some(-2)], &[None, Some(7), Some(127)], &[0, 3, 200])
    }
}
/// 8-byte intervals around the boundaries where the implementation switches paths
/// (`try_to_u64` of a length, i64 conversions). Inclusion is decided symbolically.
fn iv_family_w8(thorough: bool) -> Vec<IvSpec> {
    let (mn, mx) = (i64::MIN, i64::MAX);
    let mut e8: Vec<i64> = vec![mn, mn + 1, -(1 << 32) - 1, -1, 0, 1, 3, (1 << 31) - 1, 1 << 32, mx - 1, mx];
    if thorough {
        e8.extend([-(1 << 31), -2, 2, 6, mx - 2]);
        e8.sort();
    }
    let base = intervals(8, &e8, 8);
    if thorough {
        with_hints(&base, &[None, Some(mn), Some(-10)], &[None, Some(10), Some(mx)], &[0, 5, 1 << 40])
    } else {
        with_hints(&base, &[None, Some(mn)], &[None, Some(mx)], &[0, 1 << 40])
    }
}
fn data_family(thorough: bool) -> Vec<DataIv> {
    let iv = |s, e, st, lb, ub, d| IvSpec { w: 1, s, e, st, lb, ub, d };
    let mut abs = vec![iv(0, 0, 0, None, None, 0), iv(1, 1, 0, None, None, 0), iv(0, 4, 1, None, Some(10), 0), iv(0, 8, 2, None, None, 0), iv(-128, 127, 1, None, None, 0), iv(2, 2, 0, Some(-5), Some(20), 0), iv(-3, 5, 4, None, None, 2)];
    let mut off = vec![iv(0, 0, 0, None, None, 0), iv(4, 4, 0, None, None, 0), iv(0, 8, 4, None, Some(16), 0), iv(-8, -1, 1, Some(-64), None, 0)];
    if thorough {
        abs.extend([iv(-1, -1, 0, None, None, 0), iv(0, 1, 1, None, None, 0), iv(0, 100, 1, Some(-1), Some(127), 100), iv(127, 127, 0, None, None, 0), iv(-128, -128, 0, None, None, 0), iv(0, 6, 3, None, Some(9), 0)]);
        off.extend([iv(1, 1, 0, None, None, 0), iv(-128, 127, 1, None, None, 0)]);
    }
    let mut out = Vec::new();
    let opt = |v: &Vec<IvSpec>| -> Vec<Option<IvSpec>> { std::iter::once(None).chain(v.iter().cloned().map(Some)).collect() };
    for a in opt(&abs) {
        for r0 in opt(&off) {
            for r1 in opt(&off) {
                for top in [false, true] {
                    let mut rel = BTreeMap::new();
                    if let Some(x) = &r0 {
                        rel.insert("id0".to_string(), x.clone());
                    }
                    if let Some(x) = &r1 {
                        rel.insert("id1".to_string(), x.clone());
                    }
                    out.push(DataSpec { w: 1, abs: a.clone(), rel, top });
                }
            }
        }
    }
    out
}
/// All maps over `keys` keys, each key absent or bound to one of `vals`.
fn map_family<V: Clone>(keys: u64, vals: &[V]) -> Vec<BTreeMap<u64, V>> {
    let dims: Vec<u64> = (0..keys).map(|_| vals.len() as u64 + 1).collect();
    (0..mcx::space::size(&dims))
        .map(|i| {
            let d = mcx::space::decode(i, &dims);
            d.iter().enumerate().filter(|(_, c)| **c > 0).map(|(k, c)| (k as u64, vals[*c - 1].clone())).collect()
        })
        .collect()
}
fn map_values_bv() -> Vec<BvSpec> {
    vec![BvSpec { w: 1, v: None }, BvSpec { w: 1, v: Some(0) }, BvSpec { w: 1, v: Some(1) }, BvSpec { w: 1, v: Some(2) }, BvSpec { w: 1, v: Some(255) }]
}
fn map_values_data() -> Vec<DataIv> {
    let one = |s: i64, e: i64, st: u64| IvSpec::plain(1, s, e, st);
    let d = |abs: Option<IvSpec>, rel: Option<IvSpec>, top: bool| DataSpec { w: 1, abs, rel: rel.into_iter().map(|x| ("id0".to_string(), x)).collect(), top };
    vec![d(Some(one(0, 0, 0)), None, false), d(Some(one(0, 4, 1)), None, false), d(None, Some(one(0, 0, 0)), false), d(None, None, true), d(Some(one(1, 1, 0)), None, true)]
}
fn map_values_taint() -> Vec<TaintSpec> {
    vec![TaintSpec { w: 1, tainted: true }, TaintSpec { w: 1, tainted: false }]
}

/// Regions reachable from the empty region by at most two real `add`s; returned as cell lists.
fn mem_family<X: Dom + Ord>(offsets: std::ops::RangeInclusive<i64>, values: &[X]) -> Vec<MemSpec<X>>
where
    X::Real: SizedDomain + HasTop + std::fmt::Debug + PartialEq,
{
    let reals: Vec<X::Real> = values.iter().map(|v| v.build()).collect();
    let adds: Vec<(i64, usize)> = offsets.flat_map(|o| (0..values.len()).map(move |v| (o, v))).collect();
    let mut set: BTreeSet<MemSpec<X>> = BTreeSet::new();
    let to_spec = |r: &MemRegion<X::Real>| -> MemSpec<X> {
        let cells = r
            .entry_map()
            .iter()
            .map(|(off, v)| {
                let i = reals.iter().position(|c| c == v).unwrap_or_else(|| mcx::machinery("region holds a value that was never added"));
                (*off, values[i].clone())
            })
            .collect();
        MemSpec { addr_bytes: 8, cells }
    };
    let empty = MemRegion::<X::Real>::new(ByteSize::new(8));
    set.insert(to_spec(&empty));
    for &(o1, v1) in &adds {
        let mut r1 = empty.clone();
        r1.add(reals[v1].clone(), bv(o1 as i128 as u128, 8));
        set.insert(to_spec(&r1));
        for &(o2, v2) in &adds {
            let mut r2 = r1.clone();
            r2.add(reals[v2].clone(), bv(o2 as i128 as u128, 8));
            set.insert(to_spec(&r2));
        }
    }
    set.into_iter().collect()
}
fn mem_values_bv(sizes: &[u32]) -> Vec<BvSpec> {
    sizes.iter().flat_map(|&w| [BvSpec { w, v: Some(1) }, BvSpec { w, v: Some(2) }]).collect()
}
fn mem_values_data(sizes: &[u32]) -> Vec<DataBv> {
    sizes
        .iter()
        .flat_map(|&w| {
            [
                DataSpec { w, abs: Some(BvSpec { w, v: Some(1) }), rel: BTreeMap::new(), top: false },
                DataSpec { w, abs: None, rel: [("id0".to_string(), BvSpec { w, v: Some(0) })].into_iter().collect(), top: false },
            ]
        })
        .collect()
}

// ------------------------------------------------------------------ replay

fn run_one<D: Dom>(ctx: &Ctx, dom: &str, a: D, b: D, class: &dyn Fn(&D, &D, &D::G) -> u64, case: &Case)
where
    D::Real: std::fmt::Debug,
{
    let same = serde_json::to_value(&a).unwrap() == serde_json::to_value(&b).unwrap();
    let (a, b) = (pre(a), pre(b));
    let mut acc = Acc::default();
    check_pair(ctx, &mut acc, dom, &a, &b, same, class, &|| serde_json::to_value(case).unwrap());
    acc.flush(ctx, dom);
}
fn mapspec<V, S>(m: &BTreeMap<u64, V>) -> MapSpec<V, S>
where
    V: Clone,
{
    MapSpec { w: 1, m: m.clone(), s: std::marker::PhantomData }
}
fn map_dom(v: &str, s: Strat) -> String {
    format!("DomainMap<{v}>/{s:?}")
}
fn run_case(ctx: &Ctx, case: &Case) {
    match case.clone() {
        Case::Bv { a, b } => run_one(ctx, "BitvectorDomain", a, b, &no_class, case),
        Case::Iv { a, b } => {
            let dom = if a.w == 1 { "IntervalDomain" } else { "IntervalDomain/w8" };
            run_one(ctx, dom, a, b, &iv_class, case)
        }
        Case::Data { a, b } => run_one(ctx, "DataDomain<IntervalDomain>", a, b, &no_class, case),
        Case::Taint { a, b } => run_one(ctx, "Taint", a, b, &no_class, case),
        Case::MapBv { strat, a, b } => {
            let d = map_dom("BitvectorDomain", strat);
            match strat {
                Strat::Union => run_one(ctx, &d, mapspec::<_, TUnion>(&a), mapspec::<_, TUnion>(&b), &no_class, case),
                Strat::Intersect => run_one(ctx, &d, mapspec::<_, TIntersect>(&a), mapspec::<_, TIntersect>(&b), &no_class, case),
                Strat::MergeTop => run_one(ctx, &d, mapspec::<_, TMergeTop>(&a), mapspec::<_, TMergeTop>(&b), &no_class, case),
            }
        }
        Case::MapData { strat, a, b } => {
            let d = map_dom("DataDomain<IntervalDomain>", strat);
            match strat {
                Strat::Union => run_one(ctx, &d, mapspec::<_, TUnion>(&a), mapspec::<_, TUnion>(&b), &no_class, case),
                Strat::Intersect => run_one(ctx, &d, mapspec::<_, TIntersect>(&a), mapspec::<_, TIntersect>(&b), &no_class, case),
                Strat::MergeTop => run_one(ctx, &d, mapspec::<_, TMergeTop>(&a), mapspec::<_, TMergeTop>(&b), &no_class, case),
            }
        }
        Case::MapTaint { strat, a, b } => {
            let d = map_dom("Taint", strat);
            match strat {
                Strat::Union => run_one(ctx, &d, mapspec::<_, TUnion>(&a), mapspec::<_, TUnion>(&b), &no_class, case),
                Strat::Intersect => mcx::machinery("DomainMap<Taint>/Intersect is outside the enumerated space (Taint::Top is not a maximal element)"),
                Strat::MergeTop => run_one(ctx, &d, mapspec::<_, TMergeTop>(&a), mapspec::<_, TMergeTop>(&b), &no_class, case),
            }
        }
        Case::MemBv { a, b } => run_one(ctx, "MemRegion<BitvectorDomain>", a, b, &no_class, case),
        Case::MemData { a, b } => run_one(ctx, "MemRegion<DataDomain<BitvectorDomain>>", a, b, &no_class, case),
    }
}

fn main() {
    let ctx = Ctx::new("C03");
    if let Some(c) = ctx.replay_case() {
        let case: Case = serde_json::from_value(c.clone()).unwrap_or_else(|e| mcx::machinery(&format!("bad case: {e}")));
        run_case(&ctx, &case);
        ctx.finish("replay of one case", false);
    }
    let ctx = &ctx;
    let th = ctx.thorough();

    // ---- oracle self check
    match self_check_interval_gamma(&intervals(1, &[-128, -127, -5, -1, 0, 1, 2, 3, 4, 6, 8, 9, 12, 100, 126, 127], 300)) {
        Ok(n) => ctx.stat("oracle self check: interval inclusion by members vs symbolic, pairs", n),
        Err(e) => mcx::machinery(&e),
    }

    // ---- (a) BitvectorDomain: Top and every 1-byte value; a few 8-byte values
    let mut fam: Vec<BvSpec> = std::iter::once(BvSpec { w: 1, v: None }).chain((0..256).map(|v| BvSpec { w: 1, v: Some(v) })).collect();
    sweep(ctx, "BitvectorDomain", std::mem::take(&mut fam), &no_class, &|a, b| Case::Bv { a: a.clone(), b: b.clone() });
    let fam8: Vec<BvSpec> = [None, Some(0), Some(1), Some(1 << 63), Some(u64::MAX)].into_iter().map(|v| BvSpec { w: 8, v }).collect();
    sweep(ctx, "BitvectorDomain", fam8, &no_class, &|a, b| Case::Bv { a: a.clone(), b: b.clone() });

    // ---- (b) IntervalDomain with widening hints and delays
    let fam = iv_family(th);
    for s in &fam {
        if !s.well_formed() {
            mcx::machinery(&format!("ill-formed interval in the family: {s:?}"));
        }
    }
    sweep(ctx, "IntervalDomain", fam, &iv_class, &|a, b| Case::Iv { a: a.clone(), b: b.clone() });
    sweep(ctx, "IntervalDomain/w8", iv_family_w8(th), &iv_class, &|a, b| Case::Iv { a: a.clone(), b: b.clone() });

    // ---- (c) DataDomain<IntervalDomain>
    sweep(ctx, "DataDomain<IntervalDomain>", data_family(th), &no_class, &|a, b| Case::Data { a: a.clone(), b: b.clone() });

    // ---- (d) Taint (pairs of equal width)
    for w in [1u32, 8] {
        sweep(ctx, "Taint", vec![TaintSpec { w, tainted: true }, TaintSpec { w, tainted: false }], &no_class, &|a, b| Case::Taint { a: a.clone(), b: b.clone() });
    }

    // ---- (e) DomainMap under the three strategies
    let keys = if th { 4 } else { 3 };
    macro_rules! maps {
        ($vals:expr, $vname:expr, $variant:ident, $tag:ty, $strat:expr) => {{
            let fam: Vec<MapSpec<_, $tag>> = map_family(keys, &$vals).iter().map(|m| mapspec::<_, $tag>(m)).collect();
            sweep(ctx, &map_dom($vname, $strat), fam, &no_class, &|a, b| Case::$variant { strat: $strat, a: a.m.clone(), b: b.m.clone() });
        }};
    }
    maps!(map_values_bv(), "BitvectorDomain", MapBv, TUnion, Strat::Union);
    maps!(map_values_bv(), "BitvectorDomain", MapBv, TIntersect, Strat::Intersect);
    maps!(map_values_bv(), "BitvectorDomain", MapBv, TMergeTop, Strat::MergeTop);
    maps!(map_values_data(), "DataDomain<IntervalDomain>", MapData, TUnion, Strat::Union);
    maps!(map_values_data(), "DataDomain<IntervalDomain>", MapData, TIntersect, Strat::Intersect);
    maps!(map_values_data(), "DataDomain<IntervalDomain>", MapData, TMergeTop, Strat::MergeTop);
    maps!(map_values_taint(), "Taint", MapTaint, TUnion, Strat::Union);
    maps!(map_values_taint(), "Taint", MapTaint, TMergeTop, Strat::MergeTop);

    // ---- (f) MemRegion: all pairs of the regions reachable by <= 2 adds
    let (offs, sizes): (std::ops::RangeInclusive<i64>, Vec<u32>) = if th { (-2..=6, vec![1, 2, 4, 8]) } else { (-2..=4, vec![1, 2, 4]) };
    sweep(ctx, "MemRegion<BitvectorDomain>", mem_family(offs.clone(), &mem_values_bv(&sizes)), &no_class, &|a, b| Case::MemBv { a: a.clone(), b: b.clone() });
    sweep(ctx, "MemRegion<DataDomain<BitvectorDomain>>", mem_family(offs.clone(), &mem_values_data(&sizes)), &no_class, &|a, b| Case::MemData { a: a.clone(), b: b.clone() });

    ctx.set(
        "bounds",
        json!({
            "BitvectorDomain": "Top(1) and all 256 one-byte values, all ordered pairs; 5 eight-byte values",
            "IntervalDomain": if th { "all well-formed 1-byte strided intervals with both bounds in a 19-value boundary alphabet (all strides dividing the length for lengths <= 16, else {1,2,3,4,5,8,len/3,len/2,len}) x admissible widening hints (lower in {-,-128,-100,-4}, upper in {-,3,7,127}) x delay in {0,1,4,255}; all ordered pairs" } else { "all well-formed 1-byte strided intervals with both bounds in an 11-value boundary alphabet x admissible widening hints (lower in {-,-128,-2}, upper in {-,7,127}) x delay in {0,3,200}; all ordered pairs" },
            "IntervalDomain/w8": "8-byte intervals over a boundary alphabet around i64::MIN/MAX, +-2^31, +-2^32, hints at MIN/MAX, delays up to 2^40; inclusion decided symbolically",
            "DataDomain<IntervalDomain>": "{absolute in a list of intervals or none} x {id0 offset or none} x {id1 offset or none} x {top flag}; all ordered pairs",
            "Taint": "Tainted/Top of widths 1 and 8, pairs of equal width",
            "DomainMap": format!("keys 0..{keys}, each absent or one of 5 values (Taint: 2); value domains BitvectorDomain, DataDomain<IntervalDomain>, Taint; strategies Union, Intersect, MergeTop; all ordered pairs of maps; merge and merge_with"),
            "MemRegion": format!("all regions reachable from the empty region by <= 2 real add()s, offsets {offs:?}, sizes {sizes:?}, 2 value tags; T = BitvectorDomain and DataDomain<BitvectorDomain>; all ordered pairs"),
        }),
    );
    ctx.assume("inputs are well-formed values of equal width (interval: start <= end, stride divides the length, stride 0 iff singleton; hints satisfy lower < start, upper > end as the library maintains)");
    ctx.assume("widening hints and delays are not part of the concretisation");
    ctx.assume("DataDomain: the contains_top_values flag concretises to every (base, offset) pair");
    ctx.assume("Taint: may-taint reading (Top = certainly untainted, Tainted = possibly tainted); DomainMap<_,Taint,Intersect> is not enumerated because the strategy requires Top to be maximal");
    ctx.assume("DomainMap: an absent key stands for nothing (Union), everything (Intersect) or the value domain's Top (MergeTop), as the strategies document");
    ctx.assume("MemRegion: typed-cell reading of the documentation: a cell constrains only reads of exactly its offset and size, everything else reads Top; interval widening delays up to 2^40 only (delay + 1 overflowing u64 is not enumerated)");
    ctx.finish(
        "every ordered pair (a,b) of every family is one case; each case runs merge(a,b), merge(merge(a,b),b), merge(merge(a,b),a), a.merge_with(b) (twice) and, on the diagonal, a.merge(&a.clone()) on the real types and compares concretisations; non-trivial = neither input's concretisation contains the other's",
        true,
    );
}
