//! C09 — basic normalization establishes the IR invariants analyses rely on.
//!
//! Shape E: every raw program of the shared program space (`shared/progspace.rs`: the C08 alphabet plus
//! dangling jump/call/return/hint targets), alone and combined with every single injected irregularity
//! (duplicated block TID for every ordered pair of blocks, duplicated def/jmp TID for every pair of
//! instruction positions, a block additionally listed in another function), is run through the real
//! `Project::normalize_basic`. The result is judged by an independent predicate written from the
//! statement; `get_program_cfg` must not panic on it; a second application of `normalize_basic` must not
//! change it (differential oracle).

#[path = "../shared/progspace.rs"]
mod progspace;

use mcx::{catch, Ctx};
use progspace::*;
use props::ccl::analysis::graph::get_program_cfg;
use props::ccl::intermediate_representation::*;
use props::irb::render;
use serde::{Deserialize, Serialize};
use serde_json::json;
use std::collections::{BTreeMap, BTreeSet};

#[derive(Serialize, Deserialize, Clone, Debug)]
struct Case {
    /// blocks per function
    shape: Vec<usize>,
    /// one terminator per block
    letters: Vec<Letter>,
    /// injected irregularities (none, one, or two applied in this order)
    irr: Vec<Irr>,
}

/// Per-worker counters (merged into `Ctx` at the end; keeps the hot loop free of shared locks).
#[derive(Default)]
struct Acc {
    stats: BTreeMap<&'static str, u64>,
    outcomes: BTreeSet<u64>,
    states: u64,
    transitions: u64,
    evaluations: u64,
    nontrivial: u64,
}
impl Acc {
    fn stat(&mut self, k: &'static str, n: u64) {
        *self.stats.entry(k).or_default() += n;
    }
    fn outcome<H: std::hash::Hash>(&mut self, h: &H) {
        self.outcomes.insert(mcx::fixed_hash(h));
    }
    fn merge_into(self, ctx: &Ctx) {
        for (k, n) in &self.stats {
            ctx.stat(k, *n);
        }
        for v in &self.outcomes {
            ctx.outcome(v);
        }
        ctx.add_states(self.states);
        ctx.add_transitions(self.transitions);
        ctx.add_evaluations(self.evaluations);
        ctx.add_nontrivial(self.nontrivial);
    }
}

thread_local! {
    /// Scratch project of this worker (everything but the functions stays the same between cases).
    static PROJECT: std::cell::RefCell<Project> = std::cell::RefCell::new(build_project(&[], &[], None));
}

fn raw_subs(case: &Case) -> Vec<Term<Sub>> {
    let mut subs = build_subs(&case.shape, &case.letters);
    for irr in &case.irr {
        apply_irr(&mut subs, &case.shape, irr);
    }
    subs
}

fn raw_project(case: &Case) -> Project {
    let mut p = build_project(&[], &[], None);
    for s in raw_subs(case) {
        p.program.term.subs.insert(s.tid.clone(), s);
    }
    p
}

fn count_terms(p: &Term<Program>) -> (usize, usize, usize) {
    let mut c = (0, 0, 0);
    for s in p.term.subs.values() {
        for b in &s.term.blocks {
            c.0 += 1;
            c.1 += b.term.defs.len();
            c.2 += b.term.jmps.len();
        }
    }
    c
}

fn run_case(ctx: &Ctx, acc: &mut Acc, case: &Case) {
    PROJECT.with(|cell| run_case_in(ctx, acc, case, &mut cell.borrow_mut()));
}

fn run_case_in(ctx: &Ctx, acc: &mut Acc, case: &Case, project: &mut Project) {
    let raw = raw_subs(case);
    // facts about the raw program the statement refers to: the functions and their original entry blocks.
    // The promise "still starts with its original entry block" is only evaluated for a function whose entry
    // block is the first block of the program (program order) carrying that identifier (see assumptions).
    let mut earlier: BTreeSet<&Tid> = BTreeSet::new();
    let mut entries: Vec<(Tid, Option<(Tid, bool)>)> = Vec::new();
    for s in &raw {
        entries.push((s.tid.clone(), s.term.blocks.first().map(|b| (b.tid.clone(), !earlier.contains(&b.tid)))));
        for b in &s.term.blocks {
            earlier.insert(&b.tid);
        }
    }
    project.program.term.subs.clear();
    for s in &raw {
        project.program.term.subs.insert(s.tid.clone(), s.clone());
    }
    let raw_counts = count_terms(&project.program);
    let case_json = || serde_json::to_value(case).unwrap();
    let raw_text = || render(&raw_project(case));

    // ---- the real normalization
    acc.transitions += 1;
    if let Err(p) = catch(|| {
        let _ = project.normalize_basic();
    }) {
        ctx.violation(format!("normalize panic {}", site(&p)), case_json(), json!({"observed": format!("normalize_basic panicked: {p}"), "expected": "no panic", "raw": raw_text()}));
        acc.outcome(&("panic", site(&p)));
        return;
    }
    let mut classes: BTreeMap<String, Vec<String>> = BTreeMap::new();
    // ---- unique TIDs, existing targets, same-function targets, non-returning calls to the sink
    for (k, d) in broken_invariants(&project.program) {
        classes.entry(format!("normalize {k}")).or_default().push(d);
    }
    // ---- every function still there and still starting with its original entry block
    for (f, entry) in &entries {
        match project.program.term.subs.get(f) {
            None => classes.entry("normalize function-lost".into()).or_default().push(format!("{f}")),
            Some(s) => match entry {
                Some((e, true)) => {
                    if s.term.blocks.first().map(|b| &b.tid) != Some(e) {
                        classes.entry("normalize entry-changed".into()).or_default().push(format!(
                            "{f}: original entry {e}, now {}",
                            s.term.blocks.first().map(|b| b.tid.to_string()).unwrap_or("<no block>".into())
                        ));
                    }
                }
                Some((_, false)) => acc.stat("entry_block_is_a_duplicate_of_an_earlier_block_out_of_scope", 1),
                None => (),
            },
        }
    }
    acc.evaluations += 4 + entries.len() as u64;
    // ---- building the control flow graph never fails
    acc.transitions += 1;
    let cfg = catch(|| {
        let g = get_program_cfg(&project.program);
        (g.node_count(), g.edge_count())
    });
    if let Err(p) = &cfg {
        classes.entry(format!("cfg panic {}", site(p))).or_default().push(p.clone());
    }
    let normalized = project.program.clone();
    if ctx.replay_case().is_some() {
        println!("--- raw program\n{}--- after normalize_basic\n{}--- get_program_cfg: {:?}", raw_text(), normalized.term, cfg);
    }
    // ---- differential oracle: normalizing the normalized program changes nothing
    acc.transitions += 1;
    match catch(|| {
        let _ = project.normalize_basic();
    }) {
        Err(p) => classes.entry(format!("normalize-twice panic {}", site(&p))).or_default().push(p),
        Ok(()) => {
            if project.program != normalized {
                classes.entry("normalize not-idempotent".into()).or_default().push(format!("second application yields:\n{}", project.program.term));
            }
        }
    }
    for (k, d) in classes {
        ctx.violation(k, case_json(), json!({"broken": d, "raw": raw_text(), "normalized": format!("{}", normalized.term)}));
    }
    // ---- outcome / statistics
    let out_counts = count_terms(&normalized);
    let sink_sub = Tid::new("Artificial Sink Sub");
    let mut sinks = 0;
    let mut copies = 0;
    for s in normalized.term.subs.values() {
        if s.tid == sink_sub {
            continue;
        }
        let sink = sink_block_tid_of(&s.tid);
        let suffix = format!("_{}", s.tid);
        for b in &s.term.blocks {
            if b.tid == sink {
                sinks += 1;
            } else if b.tid.has_id_suffix(&suffix) {
                copies += 1;
            }
        }
    }
    acc.outcome(&(raw_counts, out_counts, sinks, copies, cfg.ok()));
    if sinks > 0 {
        acc.stat("programs_with_function_sink", 1);
    }
    if copies > 0 {
        acc.stat("programs_with_copied_blocks", 1);
    }
    if out_counts.0 != raw_counts.0 + 1 || out_counts.1 != raw_counts.1 || out_counts.2 != raw_counts.2 {
        // something else than the insertion of the global sink function happened
        acc.nontrivial += 1;
    }
}

/// `irr_level`: 0 = the bare programs, 1 = each program with every single irregularity,
/// 2 = each program with every unordered pair of distinct irregularities.
fn explore(ctx: &Ctx, sp: &Space, irr_level: u8) {
    mcx::par_fold(
        sp.size,
        if irr_level == 2 { 4 } else { 64 },
        Acc::default,
        |acc, i| {
            let letters = sp.decode(i);
            let mut irrs: Vec<Vec<Irr>> = Vec::new();
            match irr_level {
                0 => irrs.push(vec![]),
                1 => irrs.extend(irregularities(&sp.shape, &letters).into_iter().map(|x| vec![x])),
                _ => {
                    // list order = DupBlk, DupInstr, ShareBlk: a ShareBlk is applied last, so the positions
                    // named by the first irregularity are those of the unmodified program
                    let all = irregularities(&sp.shape, &letters);
                    for a in 0..all.len() {
                        for b in a + 1..all.len() {
                            irrs.push(vec![all[a].clone(), all[b].clone()]);
                        }
                    }
                }
            }
            for irr in irrs {
                let case = Case { shape: sp.shape.clone(), letters: letters.clone(), irr };
                ctx.sample(|| json!({"case": serde_json::to_value(&case).unwrap(), "raw": render(&raw_project(&case))}));
                acc.states += 1;
                run_case(ctx, acc, &case);
            }
        },
        |acc| acc.merge_into(ctx),
    );
}

fn main() {
    let ctx = Ctx::new("C09");
    if let Some(c) = ctx.replay_case() {
        let case: Case = serde_json::from_value(c.clone()).unwrap_or_else(|e| mcx::machinery(&format!("bad case: {e}")));
        let mut acc = Acc::default();
        run_case(&ctx, &mut acc, &case);
        acc.merge_into(&ctx);
        ctx.finish("replay of one case", false);
    }
    let ctx = &ctx;
    let full = 99usize;
    // (shape, max weight of the programs run bare, ... combined with every single irregularity,
    //  ... combined with every pair of irregularities)
    let small_pairs = if ctx.thorough() { full } else { 2 };
    let mut parts: Vec<(Vec<usize>, usize, Option<usize>, Option<usize>)> = vec![
        (vec![1], full, Some(full), Some(full)),
        (vec![2], full, Some(full), Some(small_pairs)),
        (vec![1, 0], full, Some(full), Some(full)),
        (vec![1, 1], full, Some(full), Some(small_pairs)),
        (vec![2, 0], full, Some(full), Some(small_pairs)),
    ];
    if ctx.thorough() {
        parts.extend([
            (vec![2, 1], full, Some(4), Some(2)),
            (vec![1, 2], full, Some(4), Some(2)),
            (vec![2, 2], 6, Some(3), Some(1)),
            (vec![2, 2, 0], 4, Some(2), None),
            (vec![2, 2, 1], 3, Some(1), None),
            (vec![3, 2], 3, Some(2), None),
            (vec![2, 3], 3, Some(1), None),
            (vec![1, 1, 1], full, Some(3), Some(1)),
        ]);
    } else {
        parts.extend([
            (vec![2, 1], 3, Some(2), Some(1)),
            (vec![1, 2], 3, Some(2), Some(1)),
            (vec![2, 2], 3, Some(2), None),
            (vec![2, 2, 0], 2, None, None),
            (vec![1, 1, 1], 3, Some(2), None),
        ]);
    }
    let sizes_only = std::env::var("C09_SIZES_ONLY").is_ok();
    let mut described = Vec::new();
    for (shape, w_base, w_irr, w_pairs) in &parts {
        let sp = Space::new(shape, true, *w_base);
        let mut d = sp.describe();
        if !sizes_only {
            explore(ctx, &sp, 0);
        }
        for (level, w, name) in [(1u8, w_irr, "combined_with_every_single_irregularity"), (2u8, w_pairs, "combined_with_every_pair_of_irregularities")] {
            if let Some(w) = w {
                let spi = Space::new(shape, true, *w);
                d[name] = spi.describe();
                if !sizes_only {
                    explore(ctx, &spi, level);
                }
            }
        }
        if sizes_only {
            println!("{d}");
        }
        described.push(d);
    }
    ctx.set("bounds", json!({
        "parts": described,
        "alphabet": "per block: no jump | Return | Branch t | Call g->r (g: every internal function, ext, exit(no_return), dangling FUN_0000dead; r: none or t) | CBranch t;Branch t' | BranchInd with every hint subset of size<=2 | CallInd->r | CallOther->r; t,t',r,hints over ALL blocks of the program incl. other functions (entry and non-entry) and the nonexistent blk_0000dead; one def per block; functions may be empty",
        "weight": "no jump/Return 0, Branch/Call 1, others 2; a part contains every program of its shape with total weight <= max_weight (99 = full product)",
        "irregularities": "none, every single one, and (for the listed smaller bounds) every unordered pair of: block j carries the TID of block i (all ordered pairs, same or other function, entry or not) | instruction j carries the TID of instruction i (all pairs i<j over the defs and jumps of the program: def/def, def/jmp, jmp/jmp, same or other block/function) | block i additionally listed verbatim at the end of another non-empty function"
    }));
    ctx.assume("TID name spaces of the extractor: blocks blk_*, functions FUN_*, defs/jumps instr_*; jump targets, hints and return targets name blk_* TIDs (existing or not), call targets FUN_* TIDs (internal, extern or nonexistent); duplicate function TIDs are impossible (BTreeMap keys)");
    ctx.assume("'still starts with its original entry block' is evaluated for every function whose entry block is the first block in program order with that TID; an entry block that itself duplicates the TID of an earlier block (two functions with the same entry, or an entry listed earlier inside another function) is outside the statement's 'non-entry blocks shared between functions' and only counted");
    ctx.assume("a non-returning function = extern symbol with no_return, or internal function that contains no Return in the normalized program (this includes functions without blocks and the artificial sink function)");
    ctx.assume("blocks end in 0, 1 or exactly [CBranch, Branch] jumps; hints only on blocks ending in BranchInd");
    ctx.assume("idempotence of normalize_basic is used as a differential oracle (a normalized program is itself a possible input)");
    ctx.finish(
        "one case = one raw program (shape + one terminator letter per block) + zero, one or two injected irregularities; the real normalize_basic is applied and the result judged (unique TIDs, functions and entry blocks kept, all targets exist, intraprocedural/return targets in the same function, calls to non-returning callees return to the caller's sink, get_program_cfg does not panic, second normalize_basic is the identity); non-trivial = normalization removed, copied or added a term other than the global sink function",
        true,
    );
}
