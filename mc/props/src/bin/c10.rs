//! C10 — optimizing normalization preserves program behaviour.
//! Shape E, three exhaustive layers:
//!   1. expression trees through `Expression::substitute_trivial_operations`
//!      (same value under every valuation of a small value alphabet, same size);
//!   2. single entry blocks: every def sequence up to a length bound over a def
//!      alphabet x every terminator kind x observer variants;
//!   3. CFG skeletons x every assignment of a slot alphabet to their blocks.
//! Layers 2/3: `normalize_basic` output vs. `normalize_optimize` output, both run
//! by the independent interpreter `props::ir_interp` from every initial state of
//! a small state alphabet (aligned stack pointer) under three call environments.

use mcx::refsem::ops;
use mcx::{catch, par_for, Ctx};
use props::ccl::intermediate_representation::*;
use props::ir_interp::{self as ii, CallEnv, End, Machine, Trace};
use props::irb::*;
use serde::{Deserialize, Serialize};
use serde_json::json;

// ---------------------------------------------------------------- layer 1: expressions

#[derive(Serialize, Deserialize, Clone, Debug)]
enum Case {
    Expr { expr: Expression },
    Program { label: String, program: ProgramSpec, rendered: String },
}

fn leaves(size: u64, reduced: bool) -> Vec<Expression> {
    match size {
        1 => vec![reg("p", 1), reg("q", 1), cst(0, 1), cst(1, 1)],
        2 => vec![reg("w", 2), cst(0xffff, 2)],
        4 => {
            if reduced {
                vec![reg("x", 4), reg("y", 4), cst(0, 4), cst(1, 4)]
            } else {
                vec![reg("x", 4), reg("y", 4), cst(0, 4), cst(1, 4), csti(-1, 4), cst(2, 4)]
            }
        }
        8 => vec![reg("z", 8), cst(0, 8)],
        _ => vec![],
    }
}

const ARITH4: [BinOpType; 9] = [
    BinOpType::IntAdd,
    BinOpType::IntSub,
    BinOpType::IntAnd,
    BinOpType::IntOr,
    BinOpType::IntXOr,
    BinOpType::IntMult,
    BinOpType::IntLeft,
    BinOpType::IntRight,
    BinOpType::IntSRight,
];
const CMP: [BinOpType; 9] = [
    BinOpType::IntEqual,
    BinOpType::IntNotEqual,
    BinOpType::IntLess,
    BinOpType::IntSLess,
    BinOpType::IntLessEqual,
    BinOpType::IntSLessEqual,
    BinOpType::IntCarry,
    BinOpType::IntSCarry,
    BinOpType::IntSBorrow,
];
const BOOL: [BinOpType; 3] = [BinOpType::BoolAnd, BinOpType::BoolOr, BinOpType::BoolXOr];

/// All expressions of exactly the given result size with depth <= `depth`,
/// as a map size -> list (cumulative over depths).
fn gen_exprs(depth: u32, reduced: bool) -> std::collections::BTreeMap<u64, Vec<Expression>> {
    let sizes = [1u64, 2, 4, 8];
    let mut cur: std::collections::BTreeMap<u64, Vec<Expression>> = sizes.iter().map(|s| (*s, leaves(*s, reduced))).collect();
    for _ in 0..depth {
        let prev = cur.clone();
        let mut next = prev.clone();
        let p = |s: u64| prev.get(&s).unwrap();
        // size 4
        {
            let out = next.get_mut(&4).unwrap();
            for op in ARITH4 {
                for l in p(4) {
                    for r in p(4) {
                        out.push(bin(op, l.clone(), r.clone()));
                    }
                }
            }
            for a in p(4) {
                out.push(un(UnOpType::IntNegate, a.clone()));
                out.push(un(UnOpType::Int2Comp, a.clone()));
                out.push(subpiece(0, 4, a.clone()));
                out.push(cast(CastOpType::IntZExt, 4, a.clone()));
                out.push(cast(CastOpType::PopCount, 4, a.clone()));
            }
            for a in p(2) {
                out.push(cast(CastOpType::IntZExt, 4, a.clone()));
                out.push(cast(CastOpType::IntSExt, 4, a.clone()));
                for b in p(2) {
                    out.push(bin(BinOpType::Piece, a.clone(), b.clone()));
                }
            }
            for a in p(1) {
                out.push(cast(CastOpType::IntZExt, 4, a.clone()));
                out.push(cast(CastOpType::IntSExt, 4, a.clone()));
            }
            for a in p(8) {
                out.push(subpiece(0, 4, a.clone()));
                out.push(subpiece(4, 4, a.clone()));
                out.push(subpiece(2, 4, a.clone()));
            }
        }
        // size 1
        {
            let out = next.get_mut(&1).unwrap();
            for op in CMP {
                for l in p(4) {
                    for r in p(4) {
                        out.push(bin(op, l.clone(), r.clone()));
                    }
                }
            }
            for op in BOOL {
                for l in p(1) {
                    for r in p(1) {
                        out.push(bin(op, l.clone(), r.clone()));
                    }
                }
            }
            for a in p(1) {
                out.push(un(UnOpType::BoolNegate, a.clone()));
            }
            for a in p(4) {
                out.push(subpiece(0, 1, a.clone()));
                out.push(subpiece(3, 1, a.clone()));
            }
            for a in p(2) {
                out.push(subpiece(1, 1, a.clone()));
            }
        }
        // size 2
        {
            let out = next.get_mut(&2).unwrap();
            for a in p(4) {
                out.push(subpiece(0, 2, a.clone()));
                out.push(subpiece(1, 2, a.clone()));
                out.push(subpiece(2, 2, a.clone()));
            }
            for a in p(8) {
                out.push(subpiece(3, 2, a.clone()));
            }
            for a in p(1) {
                out.push(cast(CastOpType::IntZExt, 2, a.clone()));
            }
        }
        // size 8
        {
            let out = next.get_mut(&8).unwrap();
            for a in p(4) {
                out.push(cast(CastOpType::IntZExt, 8, a.clone()));
                out.push(cast(CastOpType::IntSExt, 8, a.clone()));
                for b in p(4) {
                    out.push(bin(BinOpType::Piece, a.clone(), b.clone()));
                }
            }
            for a in p(2) {
                out.push(cast(CastOpType::IntZExt, 8, a.clone()));
                out.push(cast(CastOpType::IntSExt, 8, a.clone()));
            }
            for a in p(8) {
                for b in p(8) {
                    out.push(bin(BinOpType::IntAdd, a.clone(), b.clone()));
                    out.push(bin(BinOpType::IntSub, a.clone(), b.clone()));
                }
            }
        }
        cur = next;
    }
    cur
}

/// Hand-shaped depth-3/4 templates aimed at the multi-level rewrite rules.
fn template_exprs() -> Vec<Expression> {
    let mut out = Vec::new();
    let ab: Vec<Expression> = vec![reg("x", 4), reg("y", 4), cst(0, 4), cst(1, 4), csti(-1, 4), add(reg("x", 4), cst(1, 4))];
    for a in &ab {
        for b in &ab {
            let diff = sub_(a.clone(), b.clone());
            let less0 = bin(BinOpType::IntSLess, diff.clone(), cst(0, 4));
            let sb = bin(BinOpType::IntSBorrow, a.clone(), b.clone());
            let sb_swapped = bin(BinOpType::IntSBorrow, b.clone(), a.clone());
            for op in [BinOpType::IntNotEqual, BinOpType::IntEqual] {
                out.push(bin(op, less0.clone(), sb.clone()));
                out.push(bin(op, sb.clone(), less0.clone()));
                out.push(bin(op, less0.clone(), sb_swapped.clone()));
                out.push(un(UnOpType::BoolNegate, bin(op, less0.clone(), sb.clone())));
            }
            for c in [0u128, 1, 2, 0xffff_ffff] {
                for op in [BinOpType::IntEqual, BinOpType::IntNotEqual] {
                    out.push(bin(op, diff.clone(), cst(c, 4)));
                    out.push(bin(op, cst(c, 4), diff.clone()));
                    out.push(un(UnOpType::BoolNegate, bin(op, diff.clone(), cst(c, 4))));
                }
            }
            // x<y or x==y families with swapped operand orders
            for (lt, le) in [(BinOpType::IntSLess, BinOpType::IntSLessEqual), (BinOpType::IntLess, BinOpType::IntLessEqual)] {
                for (ea, eb) in [(a, b), (b, a)] {
                    let l = bin(lt, a.clone(), b.clone());
                    let e = bin(BinOpType::IntEqual, ea.clone(), eb.clone());
                    out.push(bin(BinOpType::BoolOr, l.clone(), e.clone()));
                    out.push(bin(BinOpType::BoolOr, e.clone(), l.clone()));
                    let le_ = bin(le, a.clone(), b.clone());
                    let ne = bin(BinOpType::IntNotEqual, ea.clone(), eb.clone());
                    out.push(bin(BinOpType::BoolAnd, le_.clone(), ne.clone()));
                    out.push(bin(BinOpType::BoolAnd, ne.clone(), le_.clone()));
                    // near misses: wrong connective
                    out.push(bin(BinOpType::BoolAnd, l.clone(), e.clone()));
                    out.push(bin(BinOpType::BoolOr, le_.clone(), ne.clone()));
                }
            }
            // constant arithmetic chains
            for (c1, c2) in [(1i128, 2i128), (-1, 1), (0x7fff_ffff, 1), (5, -5)] {
                out.push(sub_(sub_(a.clone(), csti(c1, 4)), csti(c2, 4)));
                out.push(add(add(a.clone(), csti(c1, 4)), csti(c2, 4)));
                out.push(add(add(csti(c1, 4), a.clone()), csti(c2, 4)));
                out.push(add(sub_(a.clone(), csti(c1, 4)), csti(c2, 4)));
                out.push(sub_(add(a.clone(), csti(c1, 4)), csti(c2, 4)));
            }
        }
    }
    // nested casts / subpieces
    let z = reg("z", 8);
    let x = reg("x", 4);
    let w = reg("w", 2);
    for (l1, s1) in [(0u64, 4u64), (2, 4), (4, 4), (1, 6)] {
        for (l2, s2) in [(0u64, 2u64), (1, 2), (2, 2), (0, 1), (3, 1)] {
            if l2 + s2 <= s1 {
                out.push(subpiece(l2, s2, subpiece(l1, s1, z.clone())));
            }
        }
    }
    for op in [CastOpType::IntZExt, CastOpType::IntSExt] {
        for op2 in [CastOpType::IntZExt, CastOpType::IntSExt] {
            out.push(cast(op, 8, cast(op2, 4, w.clone())));
            out.push(subpiece(0, 2, cast(op2, 4, w.clone())));
            out.push(subpiece(0, 1, cast(op2, 4, w.clone())));
            out.push(subpiece(1, 2, cast(op2, 4, w.clone())));
            out.push(subpiece(0, 4, cast(op, 8, x.clone())));
            out.push(subpiece(0, 2, cast(op, 8, x.clone())));
            out.push(subpiece(4, 4, cast(op, 8, x.clone())));
        }
    }
    for (l, s) in [(0u64, 4u64), (4, 4), (0, 2), (2, 4), (4, 2), (0, 8)] {
        out.push(subpiece(l, s, bin(BinOpType::Piece, x.clone(), reg("y", 4))));
    }
    out
}

fn collect_vars(e: &Expression) -> Vec<Variable> {
    let mut v: Vec<Variable> = e.input_vars().into_iter().cloned().collect();
    v.sort();
    v.dedup();
    v
}

fn values_for(v: &Variable) -> Vec<u128> {
    match u64::from(v.size) {
        1 => vec![0, 1],
        2 => vec![0, 1, 0x7fff, 0x8000, 0xffff],
        4 => vec![0, 1, 2, 3, 5, 0xffff_ffff, 0xffff_fffe, 0x8000_0000, 0x7fff_ffff],
        _ => vec![0, 1, 0x1_0000_0000, 0xffff_ffff_ffff_ffff, 0x8000_0000_0000_0000, 0x1234_5678_9abc_def0],
    }
}

/// Judge one expression: value and size before/after the real rewrite.
fn check_expr(ctx: &Ctx, e: &Expression) {
    let before = e.clone();
    let after = match catch(|| {
        let mut a = e.clone();
        a.substitute_trivial_operations();
        a
    }) {
        Ok(a) => a,
        Err(p) => {
            ctx.violation(format!("expr panic {}", mcx::panic_site(&p)), serde_json::to_value(Case::Expr { expr: e.clone() }).unwrap(), json!({"panic": p, "expr": format!("{e}")}));
            return;
        }
    };
    ctx.add_transitions(1);
    if after == before {
        ctx.stat("expr_unchanged", 1);
        return;
    }
    ctx.add_nontrivial(1);
    ctx.outcome(&format!("{after}"));
    if after.bytesize() != before.bytesize() {
        ctx.violation("expr size changed", serde_json::to_value(Case::Expr { expr: e.clone() }).unwrap(), json!({"before": format!("{before}"), "after": format!("{after}")}));
        return;
    }
    let vars = collect_vars(&before);
    let extra: Vec<Variable> = collect_vars(&after).into_iter().filter(|v| !vars.contains(v)).collect();
    if !extra.is_empty() {
        ctx.violation("expr new variable", serde_json::to_value(Case::Expr { expr: e.clone() }).unwrap(), json!({"before": format!("{before}"), "after": format!("{after}")}));
        return;
    }
    let doms: Vec<Vec<u128>> = vars.iter().map(values_for).collect();
    let dims: Vec<u64> = doms.iter().map(|d| d.len() as u64).collect();
    let n = mcx::space::size(&dims);
    let mut m = Machine::new(0, true, 8);
    for i in 0..n {
        let idx = mcx::space::decode(i, &dims);
        for (k, v) in vars.iter().enumerate() {
            m.set_init(v, doms[k][idx[k]]);
        }
        let (b, a) = (m.eval(&before), m.eval(&after));
        ctx.add_evaluations(1);
        match (b, a) {
            (Err(_), _) => (), // undefined / ill-typed before: nothing is demanded
            (Ok(x), Ok(y)) if x == y => (),
            (Ok(x), other) => {
                // blame the smallest sub-expression whose own rewrite already changes the value
                if let Some(child) = failing_child(&before) {
                    check_expr(ctx, &child);
                    return;
                }
                let valuation: Vec<String> = vars.iter().enumerate().map(|(k, v)| format!("{}={:#x}", v.name, doms[k][idx[k]])).collect();
                let class = rewrite_class(&before, &after);
                ctx.violation(
                    format!("expr value changed: {class}"),
                    serde_json::to_value(Case::Expr { expr: e.clone() }).unwrap(),
                    json!({"before": format!("{before}"), "after": format!("{after}"), "valuation": valuation, "value_before": format!("{x:#x}"), "value_after": format!("{other:?}")}),
                );
                return;
            }
        }
    }
}

/// Does the rewrite of a direct child alone already change its value? (quiet probe)
fn value_changes(e: &Expression) -> bool {
    let mut after = e.clone();
    if catch(|| after.substitute_trivial_operations()).is_err() {
        return true;
    }
    if after == *e {
        return false;
    }
    let vars = collect_vars(e);
    let doms: Vec<Vec<u128>> = vars.iter().map(values_for).collect();
    let dims: Vec<u64> = doms.iter().map(|d| d.len() as u64).collect();
    let mut m = Machine::new(0, true, 8);
    for i in 0..mcx::space::size(&dims) {
        let idx = mcx::space::decode(i, &dims);
        for (k, v) in vars.iter().enumerate() {
            m.set_init(v, doms[k][idx[k]]);
        }
        if let (Ok(x), y) = (m.eval(e), m.eval(&after)) {
            if y != Ok(x) {
                return true;
            }
        }
    }
    false
}
fn failing_child(e: &Expression) -> Option<Expression> {
    let children: Vec<&Expression> = match e {
        Expression::BinOp { lhs, rhs, .. } => vec![lhs, rhs],
        Expression::UnOp { arg, .. } | Expression::Cast { arg, .. } | Expression::Subpiece { arg, .. } => vec![arg],
        _ => vec![],
    };
    children.into_iter().find(|c| value_changes(c)).cloned()
}

/// A coarse, input-independent name for the rewrite that happened (top-level shapes).
fn rewrite_class(before: &Expression, after: &Expression) -> String {
    fn shape(e: &Expression, d: u32) -> String {
        match e {
            Expression::Var(_) => "v".into(),
            Expression::Const(c) => {
                if d == 0 {
                    "c".into()
                } else {
                    format!("{}", props::unbv(c).0 as i32)
                }
            }
            Expression::Unknown { .. } => "?".into(),
            Expression::BinOp { op, lhs, rhs } => {
                if d == 0 {
                    format!("{op:?}")
                } else {
                    format!("{op:?}({},{})", shape(lhs, d - 1), shape(rhs, d - 1))
                }
            }
            Expression::UnOp { op, arg } => format!("{op:?}({})", if d == 0 { "_".into() } else { shape(arg, d - 1) }),
            Expression::Cast { op, arg, .. } => format!("{op:?}({})", if d == 0 { "_".into() } else { shape(arg, d - 1) }),
            Expression::Subpiece { arg, .. } => format!("Subpiece({})", if d == 0 { "_".into() } else { shape(arg, d - 1) }),
        }
    }
    format!("{} => {}", shape(before, 0), shape(after, 0))
}

// ---------------------------------------------------------------- layers 2/3: programs

fn t8() -> Variable {
    tmp("$U1", 8)
}
fn tf() -> Variable {
    tmp("$Uf", 1)
}
fn r(n: &str) -> Variable {
    var(n, 8)
}
fn f(n: &str) -> Variable {
    var(n, 1)
}
fn sp_plus(off: i128) -> Expression {
    add(reg("RSP", 8), csti(off, 8))
}

/// The def alphabet of layer 2. `t` is the TID to give the def.
fn def_forms(t: &str) -> Vec<Term<Def>> {
    let e = |n: &str| reg(n, 8);
    vec![
        assign(t, r("RAX"), e("RBX")),
        assign(t, r("RAX"), add(e("RAX"), cst(1, 8))),
        assign(t, r("RAX"), add(e("RBX"), e("RCX"))),
        assign(t, r("RBX"), cst(5, 8)),
        assign(t, t8(), e("RAX")),
        assign(t, t8(), add(e("RBX"), cst(1, 8))),
        assign(t, r("RAX"), ev(&t8())),
        assign(t, r("RCX"), sub_(ev(&t8()), e("RAX"))),
        load(t, r("RBX"), sp_plus(8)),
        load(t, r("RBX"), e("RAX")),
        load(t, r("RAX"), e("RAX")),
        load(t, t8(), e("RBX")),
        store(t, sp_plus(8), e("RAX")),
        store(t, e("RBX"), e("RAX")),
        store(t, e("RAX"), ev(&t8())),
        assign(t, f("ZF"), bin(BinOpType::IntEqual, e("RAX"), e("RBX"))),
        assign(t, f("ZF"), bin(BinOpType::IntEqual, sub_(e("RAX"), e("RBX")), cst(0, 8))),
        assign(t, f("ZF"), bin(BinOpType::IntEqual, sub_(e("RAX"), e("RBX")), cst(1, 8))),
        assign(t, f("CF"), bin(BinOpType::IntLess, e("RAX"), e("RBX"))),
        assign(t, tf(), reg("ZF", 1)),
        assign(t, f("ZF"), un(UnOpType::BoolNegate, reg("ZF", 1))),
        assign(t, r("RSP"), sub_(e("RSP"), cst(8, 8))),
        assign(t, r("RSP"), add(e("RSP"), cst(16, 8))),
        assign(t, r("RSP"), and(e("RSP"), csti(-16, 8))),
        assign(t, r("RSP"), and(e("RAX"), csti(-16, 8))),
        load(t, r("RSP"), e("RBX")),
        assign(t, r("RSP"), e("RBX")),
        assign(t, r("RAX"), bin(BinOpType::IntXOr, e("RAX"), e("RAX"))),
        assign(t, r("RBX"), e("RBX")),
        assign(t, r("RAX"), sub_(e("RAX"), e("RBX"))),
        assign(t, f("ZF"), ev(&tf())),
        assign(t, r("RSP"), and(csti(-32, 8), e("RSP"))),
    ]
}
const N_DEF_FORMS: u64 = 32;
/// Reduced alphabet for the quick tier (indices into def_forms).
const QUICK_FORMS: [usize; 20] = [0, 1, 3, 4, 5, 6, 8, 9, 10, 12, 13, 15, 17, 19, 20, 21, 23, 24, 25, 30];

/// Observer block: makes registers / the temporary observable, then returns.
fn observer(tid_: &str, reads_temp: bool) -> Term<Blk> {
    let mut defs = vec![store(&format!("{tid_}_s0"), cst(0x1000, 8), reg("RAX", 8)), store(&format!("{tid_}_s1"), cst(0x1008, 8), reg("ZF", 1))];
    if reads_temp {
        defs.push(store(&format!("{tid_}_s2"), cst(0x1010, 8), ev(&t8())));
        defs.push(store(&format!("{tid_}_s3"), cst(0x1018, 8), ev(&tf())));
    }
    blk(tid_, defs, vec![j_ret(&format!("{tid_}_ret"), reg("RBX", 8))])
}

const N_TERMINATORS: u64 = 11;
/// Build the single-entry-block program of layer 2.
fn layer2_program(forms: &[usize], term: u64, reads_temp: bool) -> Project {
    let defs: Vec<Term<Def>> = forms.iter().enumerate().map(|(i, fi)| def_forms(&format!("instr_e_{i}"))[*fi].clone()).collect();
    let o1 = observer("blk_o1", reads_temp);
    let mut o2 = observer("blk_o2", reads_temp);
    o2.term.defs.insert(0, store("blk_o2_mark", cst(0x1100, 8), cst(7, 8)));
    let ext = extern_symbol("ext", "ext", vec![arg_reg("RDI", 8)], vec![arg_reg("RAX", 8)], false);
    let jmps = match term {
        0 => vec![j_ret("instr_j", ev(&t8()))],
        1 => vec![j_ret("instr_j", reg("RBX", 8))],
        2 => vec![j_branchind("instr_j", reg("RAX", 8))],
        3 => vec![j_branchind("instr_j", ev(&t8()))],
        4 => vec![j_call("instr_j", "ext", Some("blk_o1"))],
        5 => vec![j_callind("instr_j", ev(&t8()), Some("blk_o1"))],
        6 => vec![j_cbranch("instr_j", "blk_o1", reg("ZF", 1)), j_branch("instr_j2", "blk_o2")],
        7 => vec![j_cbranch("instr_j", "blk_o1", ev(&tf())), j_branch("instr_j2", "blk_o2")],
        8 => vec![],
        9 => vec![j_branch("instr_j", "blk_o1")],
        _ => vec![j_callother("instr_j", "syscall", Some("blk_o1"))],
    };
    let entry = blk("blk_e", defs, jmps);
    let s = sub("FUN_f", "f", vec![entry, o1, o2]);
    project_x64(vec![s], vec![ext])
}

/// Slot alphabet of layer 3.
fn slot_forms(t: &str) -> Vec<Vec<Term<Def>>> {
    let e = |n: &str| reg(n, 8);
    vec![
        vec![],
        vec![assign(t, f("ZF"), bin(BinOpType::IntEqual, e("RAX"), e("RBX")))],
        vec![assign(t, f("ZF"), un(UnOpType::BoolNegate, reg("ZF", 1)))],
        vec![assign(t, r("RAX"), add(e("RAX"), cst(1, 8)))],
        vec![assign(t, t8(), e("RAX"))],
        vec![assign(t, r("RBX"), ev(&t8()))],
        vec![store(t, sp_plus(8), e("RAX"))],
        vec![load(t, r("RBX"), sp_plus(8))],
        vec![assign(t, tf(), reg("ZF", 1))],
        vec![assign(t, r("RBX"), add(e("RAX"), cst(1, 8))), load(&format!("{t}b"), r("RBX"), sp_plus(8))],
        vec![load(t, f("ZF"), e("RBX"))],
        vec![assign(t, r("RAX"), e("RBX")), assign(&format!("{t}b"), r("RBX"), e("RAX"))],
    ]
}
const N_SLOT_FORMS: u64 = 12;
const QUICK_SLOTS: [usize; 7] = [0, 1, 2, 3, 4, 5, 9];

#[derive(Clone, Copy, Debug)]
enum Cond {
    Zf,
    NotZf,
    Tf,
    Cmp,
}
fn cond_expr(c: Cond) -> Expression {
    match c {
        Cond::Zf => reg("ZF", 1),
        Cond::NotZf => un(UnOpType::BoolNegate, reg("ZF", 1)),
        Cond::Tf => ev(&tf()),
        Cond::Cmp => bin(BinOpType::IntEqual, reg("RAX", 8), reg("RBX", 8)),
    }
}
const CONDS: [Cond; 4] = [Cond::Zf, Cond::NotZf, Cond::Tf, Cond::Cmp];

const N_SKELETONS: u64 = 9;
/// number of slots of each skeleton
fn skeleton_slots(s: u64) -> usize {
    match s {
        0 => 3, // line
        1 => 4, // diamond
        2 => 3, // loop
        3 => 4, // conditional chain with shared condition (c1, c2 vary)
        4 => 3, // empty forwarding blocks
        5 => 3, // call / return-site chain
        6 => 3, // second function calling the first
        7 => 3, // cycle of empty blocks next to live code
        _ => 3, // conditional chain entered through a call return
    }
}
/// extra (non-slot) parameters of each skeleton: number of variants
fn skeleton_variants(s: u64) -> u64 {
    match s {
        3 | 8 => 16, // (cond of A, cond of C)
        1 | 2 => 4,  // cond
        _ => 1,
    }
}

fn skeleton_program(s: u64, variant: u64, slots: &[usize], reads_temp: bool) -> Project {
    let sl = |i: usize, name: &str| -> Vec<Term<Def>> { slot_forms(&format!("instr_{name}"))[slots[i]].clone() };
    let obs = observer("blk_z", reads_temp);
    let ext = extern_symbol("ext", "ext", vec![arg_reg("RDI", 8)], vec![arg_reg("RAX", 8)], false);
    let c1 = CONDS[(variant % 4) as usize];
    let c2 = CONDS[((variant / 4) % 4) as usize];
    let mut subs = Vec::new();
    let blocks = match s {
        0 => vec![
            blk("blk_a", sl(0, "a"), vec![j_branch("instr_ja", "blk_b")]),
            blk("blk_b", sl(1, "b"), vec![j_branch("instr_jb", "blk_c")]),
            blk("blk_c", sl(2, "c"), vec![j_branch("instr_jc", "blk_z")]),
            obs,
        ],
        1 => vec![
            blk("blk_a", sl(0, "a"), vec![j_cbranch("instr_ja", "blk_b", cond_expr(c1)), j_branch("instr_ja2", "blk_c")]),
            blk("blk_b", sl(1, "b"), vec![j_branch("instr_jb", "blk_d")]),
            blk("blk_c", sl(2, "c"), vec![j_branch("instr_jc", "blk_d")]),
            blk("blk_d", sl(3, "d"), vec![j_branch("instr_jd", "blk_z")]),
            obs,
        ],
        2 => vec![
            blk("blk_a", sl(0, "a"), vec![j_branch("instr_ja", "blk_b")]),
            blk("blk_b", sl(1, "b"), vec![j_cbranch("instr_jb", "blk_b", cond_expr(c1)), j_branch("instr_jb2", "blk_c")]),
            blk("blk_c", sl(2, "c"), vec![j_branch("instr_jc", "blk_z")]),
            obs,
        ],
        3 => vec![
            blk("blk_a", sl(0, "a"), vec![j_cbranch("instr_ja", "blk_b", cond_expr(c1)), j_branch("instr_ja2", "blk_c")]),
            blk("blk_b", sl(1, "b"), vec![j_branch("instr_jb", "blk_c")]),
            blk("blk_c", sl(2, "c"), vec![j_cbranch("instr_jc", "blk_d", cond_expr(c2)), j_branch("instr_jc2", "blk_z")]),
            blk("blk_d", sl(3, "d"), vec![j_branch("instr_jd", "blk_z")]),
            obs,
        ],
        4 => vec![
            blk("blk_a", sl(0, "a"), vec![j_branch("instr_ja", "blk_f1")]),
            blk("blk_f1", vec![], vec![j_branch("instr_jf1", "blk_f2")]),
            blk("blk_f2", sl(1, "f2"), vec![j_branch("instr_jf2", "blk_c")]),
            blk("blk_c", sl(2, "c"), vec![j_branch("instr_jc", "blk_z")]),
            obs,
        ],
        5 => vec![
            blk("blk_a", sl(0, "a"), vec![j_call("instr_ja", "ext", Some("blk_f1"))]),
            blk("blk_f1", sl(1, "f1"), vec![j_branch("instr_jf1", "blk_c")]),
            blk("blk_c", sl(2, "c"), vec![j_cbranch("instr_jc", "blk_z", reg("ZF", 1)), j_branch("instr_jc2", "blk_y")]),
            blk("blk_y", vec![store("instr_y", cst(0x1200, 8), reg("RCX", 8))], vec![j_branch("instr_jy", "blk_z")]),
            obs,
        ],
        6 => {
            // FUN_g calls FUN_f and continues
            let g = sub(
                "FUN_g",
                "g",
                vec![
                    blk("blk_ga", sl(0, "ga"), vec![j_call("instr_jga", "FUN_f", Some("blk_gb"))]),
                    blk("blk_gb", sl(1, "gb"), vec![j_ret("instr_jgb", reg("RBX", 8))]),
                ],
            );
            subs.push(g);
            vec![blk("blk_a", sl(2, "a"), vec![j_branch("instr_ja", "blk_z")]), obs]
        }
        7 => vec![
            blk("blk_a", sl(0, "a"), vec![j_cbranch("instr_ja", "blk_l1", reg("ZF", 1)), j_branch("instr_ja2", "blk_c")]),
            blk("blk_l1", vec![], vec![j_branch("instr_jl1", "blk_l2")]),
            blk("blk_l2", sl(1, "l2"), vec![j_branch("instr_jl2", "blk_l1")]),
            blk("blk_c", sl(2, "c"), vec![j_branch("instr_jc", "blk_z")]),
            obs,
        ],
        _ => vec![
            blk("blk_a", sl(0, "a"), vec![j_cbranch("instr_ja", "blk_b", cond_expr(c1)), j_branch("instr_ja2", "blk_c")]),
            blk("blk_b", sl(1, "b"), vec![j_call("instr_jb", "ext", Some("blk_c"))]),
            blk("blk_c", vec![], vec![j_cbranch("instr_jc", "blk_d", cond_expr(c2)), j_branch("instr_jc2", "blk_z")]),
            blk("blk_d", sl(2, "d"), vec![j_branch("instr_jd", "blk_z")]),
            obs,
        ],
    };
    subs.push(sub("FUN_f", "f", blocks));
    project_x64(subs, vec![ext])
}

// ---- initial states

struct Init {
    regs: Vec<(&'static str, u128)>,
    flags: Vec<(&'static str, u128)>,
    t8: u128,
    tf: u128,
}
fn init_states() -> Vec<Init> {
    const SP: u128 = 0x7fff_0000;
    vec![
        Init { regs: vec![("RAX", 0x20_0000), ("RBX", 0x30_0000), ("RCX", 0x40_0008), ("RSP", SP)], flags: vec![("ZF", 0), ("CF", 1)], t8: 0x50_0000, tf: 1 },
        Init { regs: vec![("RAX", 0x20_0000), ("RBX", 0x20_0000), ("RCX", 1), ("RSP", SP)], flags: vec![("ZF", 1), ("CF", 0)], t8: 0x60_0010, tf: 0 },
        Init { regs: vec![("RAX", 0x20_0001), ("RBX", 0x20_0000), ("RCX", u64::MAX as u128), ("RSP", SP)], flags: vec![("ZF", 0), ("CF", 0)], t8: 0x20_0001, tf: 0 },
        Init { regs: vec![("RAX", 0x7fff_0008), ("RBX", 0x7fff_0008), ("RCX", 0x7fff_0010), ("RSP", SP)], flags: vec![("ZF", 1), ("CF", 1)], t8: 0x7fff_0008, tf: 1 },
        Init { regs: vec![("RAX", 0x30_0001), ("RBX", 0x20_0003), ("RCX", 5), ("RSP", SP)], flags: vec![("ZF", 1), ("CF", 0)], t8: 3, tf: 0 },
    ]
}

fn machine_for(init: &Init, seed: u64) -> Machine {
    let mut m = Machine::new(seed, true, 8);
    for (n, v) in &init.regs {
        m.set_init(&var(n, 8), *v);
    }
    for (n, v) in &init.flags {
        m.set_init(&var(n, 1), *v);
    }
    m.set_init(&t8(), init.t8);
    m.set_init(&tf(), init.tf);
    m
}

const ENVS: [CallEnv; 3] = [CallEnv::Identity, CallEnv::ClobberRegs, CallEnv::ClobberRegsAndStack];
const FUEL: usize = 24;

fn describe_difference(a: &Trace, b: &Trace) -> Option<String> {
    let fuel_involved = a.end == End::FuelOut || b.end == End::FuelOut;
    let n = a.events.len().min(b.events.len());
    for i in 0..n {
        if a.events[i] != b.events[i] {
            return Some(format!("event {i} differs: basic={:?} optimized={:?}", short(&a.events[i], &b.events[i]).0, short(&a.events[i], &b.events[i]).1));
        }
    }
    if fuel_involved {
        return None; // the longer trace extends the shorter one
    }
    if a.events.len() != b.events.len() {
        return Some(format!("trace lengths differ: basic has {} events ending {:?}, optimized has {} events ending {:?}", a.events.len(), a.end, b.events.len(), b.end));
    }
    if a.end != b.end {
        return Some(format!("ends differ: basic={:?} optimized={:?}", a.end, b.end));
    }
    None
}

/// Shorten two differing events to the part that differs.
fn short(a: &ii::Event, b: &ii::Event) -> (String, String) {
    use ii::Event::*;
    let snap = |x: &ii::Event| match x {
        Call { state, .. } | CallInd { state, .. } | CallOther { state, .. } | BranchInd { state, .. } | Return { state, .. } | DeadEnd { state } => Some(state.clone()),
        _ => None,
    };
    if std::mem::discriminant(a) == std::mem::discriminant(b) {
        if let (Some(sa), Some(sb)) = (snap(a), snap(b)) {
            let mut da = Vec::new();
            let mut db = Vec::new();
            for (k, v) in &sa.regs {
                if sb.regs.get(k) != Some(v) {
                    da.push(format!("{k}={v:#x}"));
                    db.push(format!("{k}={:#x}", sb.regs.get(k).copied().unwrap_or(0)));
                }
            }
            if sa.mem != sb.mem {
                da.push(format!("mem={:x?}", sa.mem.iter().filter(|(k, v)| sb.mem.get(k) != Some(v)).take(8).collect::<Vec<_>>()));
                db.push(format!("mem={:x?}", sb.mem.iter().filter(|(k, v)| sa.mem.get(k) != Some(v)).take(8).collect::<Vec<_>>()));
            }
            let head = |x: &ii::Event| match x {
                Call { target, .. } => format!("Call {target}"),
                CallInd { target, .. } => format!("CallInd {target:#x}"),
                CallOther { desc, .. } => format!("CallOther {desc}"),
                BranchInd { target, .. } => format!("BranchInd {target:#x}"),
                Return { target, .. } => format!("Return {target:#x}"),
                DeadEnd { .. } => "DeadEnd".to_string(),
                _ => String::new(),
            };
            return (format!("{} [{}]", head(a), da.join(" ")), format!("{} [{}]", head(b), db.join(" ")));
        }
    }
    let h = |x: &ii::Event| {
        let s = format!("{x:?}");
        s.chars().take(120).collect::<String>()
    };
    (h(a), h(b))
}

/// Which optimization pass first changes the behaviour (for the violation key).
fn blame_pass(basic: &Project, init: &Init, env: CallEnv, sub_tid: &Tid) -> String {
    use props::ccl::analysis;
    let passes: Vec<(&str, Box<dyn Fn(&mut Project)>)> = vec![
        ("expression_propagation", Box::new(|p: &mut Project| analysis::expression_propagation::propagate_input_expression(p))),
        ("substitute_trivial_expressions", Box::new(|p: &mut Project| p.substitute_trivial_expressions())),
        ("dead_variable_elimination", Box::new(|p: &mut Project| analysis::dead_variable_elimination::remove_dead_var_assignments(p))),
        ("propagate_control_flow", Box::new(|p: &mut Project| props::ccl::intermediate_representation::propagate_control_flow::propagate_control_flow(p))),
        ("stack_alignment_substitution", Box::new(|p: &mut Project| {
            let _ = analysis::stack_alignment_substitution::substitute_and_on_stackpointer(p);
        })),
    ];
    let reference = run(basic, sub_tid, init, env);
    let mut cur = basic.clone();
    for (name, pass) in passes {
        if catch(|| pass(&mut cur)).is_err() {
            return format!("{name} (panic)");
        }
        match run(&cur, sub_tid, init, env) {
            Some(t) => {
                if let Some(r) = &reference {
                    if describe_difference(r, &t).is_some() {
                        return name.to_string();
                    }
                }
            }
            None => return format!("{name} (function vanished)"),
        }
    }
    "unknown pass".into()
}

fn run(p: &Project, sub_tid: &Tid, init: &Init, env: CallEnv) -> Option<Trace> {
    let sub = p.program.term.subs.get(sub_tid)?;
    let mut m = machine_for(init, 1);
    Some(ii::run_function(p, sub, &mut m, env, FUEL))
}

/// Judge one raw program: normalize_basic, then compare basic vs optimized.
fn check_program(ctx: &Ctx, label: &str, raw: &Project, states: &[Init]) {
    let case = || serde_json::to_value(Case::Program { label: label.to_string(), program: ProgramSpec::of(raw), rendered: render(raw) }).unwrap();
    let mut basic = raw.clone();
    if let Err(p) = catch(|| {
        let _ = basic.normalize_basic();
    }) {
        ctx.violation(format!("panic in normalize_basic {}", mcx::panic_site(&p)), case(), json!({"panic": p, "program": render(raw)}));
        return;
    }
    let mut opt = basic.clone();
    if let Err(p) = catch(|| {
        let _ = opt.normalize_optimize();
    }) {
        ctx.violation(format!("panic in normalize_optimize {}", mcx::panic_site(&p)), case(), json!({"panic": p, "program": render(&basic)}));
        return;
    }
    ctx.add_transitions(1);
    let changed = opt != basic;
    if changed {
        ctx.add_nontrivial(1);
    } else {
        ctx.stat("programs_left_unchanged_by_optimizer", 1);
    }
    for (sub_tid, sub) in basic.program.term.subs.iter() {
        if sub_tid.is_artificial_sink_sub() {
            continue;
        }
        for (si, init) in states.iter().enumerate() {
            for env in ENVS {
                let a = run(&basic, sub_tid, init, env).unwrap();
                ctx.add_evaluations(1);
                match &a.end {
                    End::Abort(ii::Abort::Undefined(_)) => {
                        ctx.stat("runs_skipped_undefined_in_basic", 1);
                        continue;
                    }
                    End::Abort(ii::Abort::IllTyped(s)) => mcx::machinery(&format!("generator produced an ill-typed program: {s}\n{}", render(&basic))),
                    End::MissingBlock(b) if sub.term.blocks.is_empty() => {
                        let _ = b;
                        continue;
                    }
                    End::MissingBlock(b) => mcx::machinery(&format!("basic-normalized program jumps to a missing block {b}\n{}", render(&basic))),
                    _ => (),
                }
                let Some(b) = run(&opt, sub_tid, init, env) else {
                    ctx.violation("function removed by optimizer", case(), json!({"function": format!("{sub_tid}")}));
                    return;
                };
                ctx.outcome(&(a.events.len(), format!("{:?}", a.end), a.blocks.len() as i64 - b.blocks.len() as i64));
                if let Some(diff) = describe_difference(&a, &b) {
                    let pass = blame_pass(&basic, init, env, sub_tid);
                    ctx.violation(
                        format!("behaviour changed by {pass}"),
                        case(),
                        json!({"label": label, "function": format!("{sub_tid}"), "initial_state": si, "call_env": format!("{env:?}"), "difference": diff,
                               "basic": render(&basic), "optimized": render(&opt), "blocks_basic": a.blocks, "blocks_optimized": b.blocks}),
                    );
                    return;
                }
            }
        }
    }
}

fn main() {
    let ctx = Ctx::new("C10");
    if let Err(e) = ops::self_check() {
        mcx::machinery(&e);
    }
    let states = init_states();
    if let Some(c) = ctx.replay_case() {
        let case: Case = serde_json::from_value(c.clone()).unwrap_or_else(|e| mcx::machinery(&format!("bad case: {e}")));
        match case {
            Case::Expr { expr } => check_expr(&ctx, &expr),
            Case::Program { label, program, .. } => check_program(&ctx, &label, &program.to_project_x64(), &states),
        }
        ctx.finish("replay of one case", false);
    }
    let ctx = &ctx;
    let thorough = ctx.thorough();

    // ---- layer 1
    let depth = 2;
    let exprs = gen_exprs(depth, !thorough);
    let mut all: Vec<Expression> = exprs.into_values().flatten().collect();
    all.extend(template_exprs());
    let n_expr = all.len() as u64;
    ctx.set("layer1_expressions", json!(n_expr));
    par_for(n_expr, 512, |i| {
        let e = &all[i as usize];
        ctx.sample(|| json!({"layer": 1, "expr": format!("{e}")}));
        check_expr(ctx, e);
        ctx.add_states(1);
    });
    drop(all);
    if thorough {
        // depth 3, one-sided and generated on the fly: op(e2, leaf), op(leaf, e2) and unary constructors for
        // every depth-<=2 tree e2 over the reduced leaf set
        let d2 = gen_exprs(2, true);
        let l4 = leaves(4, true);
        let l1 = leaves(1, true);
        let d4 = d2.get(&4).unwrap();
        let d1 = d2.get(&1).unwrap();
        let count = std::sync::atomic::AtomicU64::new(0);
        par_for(d4.len() as u64, 16, |i| {
            let e = &d4[i as usize];
            let mut n = 0u64;
            let mut go = |t: Expression| {
                check_expr(ctx, &t);
                n += 1;
            };
            for l in &l4 {
                for op in ARITH4 {
                    go(bin(op, e.clone(), l.clone()));
                    go(bin(op, l.clone(), e.clone()));
                }
                for op in CMP {
                    go(bin(op, e.clone(), l.clone()));
                    go(bin(op, l.clone(), e.clone()));
                }
            }
            go(un(UnOpType::IntNegate, e.clone()));
            go(un(UnOpType::Int2Comp, e.clone()));
            go(cast(CastOpType::IntZExt, 8, e.clone()));
            go(cast(CastOpType::IntSExt, 8, e.clone()));
            go(subpiece(0, 2, e.clone()));
            go(subpiece(1, 1, e.clone()));
            ctx.add_states(n);
            count.fetch_add(n, std::sync::atomic::Ordering::Relaxed);
        });
        par_for(d1.len() as u64, 16, |i| {
            let e = &d1[i as usize];
            let mut n = 0u64;
            let mut go = |t: Expression| {
                check_expr(ctx, &t);
                n += 1;
            };
            for l in &l1 {
                for op in BOOL {
                    go(bin(op, e.clone(), l.clone()));
                    go(bin(op, l.clone(), e.clone()));
                }
            }
            go(un(UnOpType::BoolNegate, e.clone()));
            go(cast(CastOpType::IntZExt, 4, e.clone()));
            ctx.add_states(n);
            count.fetch_add(n, std::sync::atomic::Ordering::Relaxed);
        });
        ctx.set("layer1_depth3_expressions", json!(count.load(std::sync::atomic::Ordering::Relaxed)));
    }

    // ---- layer 2
    let forms: Vec<usize> = if thorough { (0..N_DEF_FORMS as usize).collect() } else { QUICK_FORMS.to_vec() };
    let max_len = if thorough { 3 } else { 2 };
    let k = forms.len() as u64;
    let n_seq = mcx::space::seq_count(k, max_len);
    let total2 = n_seq * N_TERMINATORS * 2;
    ctx.set("layer2_programs", json!(total2));
    par_for(total2, 64, |i| {
        let seq_i = i % n_seq;
        let term = (i / n_seq) % N_TERMINATORS;
        let reads_temp = (i / n_seq / N_TERMINATORS) == 1;
        let seq: Vec<usize> = mcx::space::seq_decode(seq_i, k, max_len).into_iter().map(|x| forms[x]).collect();
        let p = layer2_program(&seq, term, reads_temp);
        let label = format!("layer2 defs={seq:?} term={term} reads_temp={reads_temp}");
        ctx.sample(|| json!({"layer": 2, "label": label, "program": render(&p)}));
        check_program(ctx, &label, &p, &states);
        ctx.add_states(1);
    });

    if thorough {
        let forms4: Vec<usize> = QUICK_FORMS.to_vec();
        let k4 = forms4.len() as u64;
        let n4 = k4.pow(4);
        let total = n4 * N_TERMINATORS * 2;
        ctx.set("layer2_length4_programs", json!(total));
        par_for(total, 64, |i| {
            let mut x = i % n4;
            let term = (i / n4) % N_TERMINATORS;
            let reads_temp = (i / n4 / N_TERMINATORS) == 1;
            let mut seq = Vec::with_capacity(4);
            for _ in 0..4 {
                seq.push(forms4[(x % k4) as usize]);
                x /= k4;
            }
            let p = layer2_program(&seq, term, reads_temp);
            let label = format!("layer2 defs={seq:?} term={term} reads_temp={reads_temp}");
            check_program(ctx, &label, &p, &states);
            ctx.add_states(1);
        });
    }

    // ---- layer 3
    let slots: Vec<usize> = if thorough { (0..N_SLOT_FORMS as usize).collect() } else { QUICK_SLOTS.to_vec() };
    let ks = slots.len() as u64;
    let mut total3 = 0u64;
    for s in 0..N_SKELETONS {
        let ns = skeleton_slots(s) as u32;
        let nv = skeleton_variants(s);
        let n = ks.pow(ns) * nv * 2;
        total3 += n;
        par_for(n, 64, |i| {
            let slot_i = i % ks.pow(ns);
            let variant = (i / ks.pow(ns)) % nv;
            let reads_temp = (i / ks.pow(ns) / nv) == 1;
            let sl: Vec<usize> = mcx::space::decode(slot_i, &vec![ks; ns as usize]).into_iter().map(|x| slots[x]).collect();
            let p = skeleton_program(s, variant, &sl, reads_temp);
            let label = format!("layer3 skeleton={s} variant={variant} slots={sl:?} reads_temp={reads_temp}");
            ctx.sample(|| json!({"layer": 3, "label": label, "program": render(&p)}));
            check_program(ctx, &label, &p, &states);
            ctx.add_states(1);
        });
    }
    ctx.set("layer3_programs", json!(total3));
    ctx.set(
        "bounds",
        json!({"layer1": format!("all typed expression trees of depth <= {depth} over the leaf alphabet ({}), plus hand-shaped deeper templates{}; every valuation of the value alphabet", if thorough {"full"} else {"reduced"}, if thorough {"; plus depth-3 trees op(e,leaf)/op(leaf,e)/unary(e) for every depth-2 tree e over the reduced leaves"} else {""}),
               "layer2": format!("all def sequences of length <= {max_len} over {k} def forms x {N_TERMINATORS} terminators x 2 observers{}", if thorough { "; plus all sequences of length 4 over the 20-form quick alphabet" } else { "" }),
               "layer3": format!("{N_SKELETONS} CFG skeletons x all assignments of {ks} slot forms x condition variants x 2 observers"),
               "initial_states": states.len(), "call_environments": 3, "block_fuel": FUEL}),
    );
    ctx.assume("entry stack pointer is 2^16-aligned in every initial state (the property presupposes an aligned stack pointer)");
    ctx.assume("booleans (flags, 1-byte temporaries used as conditions) are 0/1 as P-Code guarantees");
    ctx.assume("runs whose unoptimized execution hits an undefined operation prove nothing and are skipped (counted)");
    ctx.assume("at a returning call the environment may leave everything unchanged, clobber all registers but SP, or additionally clobber the stack around SP; all three are explored");
    ctx.finish(
        "layer 1: one case per expression tree (non-trivial = the rewriter changed it); layers 2/3: one case per generated program (non-trivial = normalize_optimize changed the program); every case is run from every initial state x call environment through the independent interpreter and traces/snapshots compared",
        true,
    );
}
