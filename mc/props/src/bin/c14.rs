//! C14 — function signatures never miss a register parameter.
//! Shape E: CFG skeleton family x per-block slot alphabet (reads in arithmetic / as address /
//! in a condition, overwrites, spills and reloads, copies through callee-saved registers,
//! library calls with declared parameters (generic, stubbed, non-returning), internal calls to
//! a second function from a small callee family, indirect calls, indirect jumps).
//! Every raw program is run through the real `Project::normalize`, `get_program_cfg` and
//! `compute_function_signatures`; the oracle (`shared/c14_model.rs`) is an independent
//! explicit-state path exploration on the same normalized program. One-sided: the oracle's
//! reference set must be contained in the registers of `FunctionSignature::parameters`.

#[path = "../shared/c14_common.rs"]
mod c14_common;
#[path = "../shared/c14_model.rs"]
mod c14_model;

use c14_common::*;
use c14_model::{reference_sets, Conv, Kind, Qual};
use mcx::{catch, par_for, Ctx};
use props::ccl::abstract_domain::AbstractLocation;
use props::ccl::analysis::function_signature::compute_function_signatures;
use props::ccl::analysis::graph::get_program_cfg;
use props::ccl::intermediate_representation::*;
use props::irb::*;
use serde::{Deserialize, Serialize};
use serde_json::json;
use std::collections::{BTreeMap, BTreeSet};

#[derive(Serialize, Deserialize, Clone, Debug)]
struct Case {
    label: String,
    program: ProgramSpec,
    rendered: String,
}

// ------------------------------------------------------------------ program space

#[derive(Clone, Copy, Debug)]
enum Call {
    /// library call with a return target
    Ext(&'static str),
    /// library call without return target (as emitted for calls the disassembler knows not to return)
    ExtNoTarget(&'static str),
    Internal,
    Ind(&'static str),
}

struct Slot {
    defs: Vec<Term<Def>>,
    call: Option<Call>,
}

const N_SLOTS: usize = 37;
/// The slot alphabet. `p` is a TID prefix unique to the block.
fn slot(i: usize, p: &str) -> Slot {
    let t = |k: usize| format!("instr_{p}_{k}");
    let d = |defs: Vec<Term<Def>>| Slot { defs, call: None };
    let c = |defs: Vec<Term<Def>>, call: Call| Slot { defs, call: Some(call) };
    match i {
        0 => d(vec![]),
        1 => d(vec![assign(&t(0), r8("RAX"), add(e8("RDI"), cst(1, 8)))]),
        2 => d(vec![load(&t(0), r8("RAX"), e8("RSI"))]),
        3 => d(vec![store(&t(0), e8("RDX"), e8("RAX"))]),
        4 => d(vec![assign(&t(0), var("ZF", 1), bin(BinOpType::IntEqual, e8("RDI"), cst(0, 8)))]),
        5 => d(vec![assign(&t(0), r8("RDI"), cst(0, 8))]),
        6 => d(vec![assign(&t(0), r8("RSI"), e8("RAX"))]),
        7 => d(vec![store(&t(0), sp_off(8), e8("RDI"))]),
        8 => d(vec![load(&t(0), r8("RDI"), sp_off(8))]),
        9 => d(vec![load(&t(0), r8("RBX"), sp_off(8))]),
        10 => d(vec![assign(&t(0), r8("RBX"), e8("RDI"))]),
        11 => d(vec![assign(&t(0), r8("RAX"), add(e8("RBX"), cst(1, 8)))]),
        12 => d(vec![store(&t(0), e8("RAX"), e8("RSI"))]),
        13 => d(vec![assign(&t(0), r8("RDI"), e8("RSI"))]),
        14 => d(vec![assign(&t(0), r8("RDX"), add(e8("RDX"), cst(1, 8)))]),
        15 => d(vec![load(&t(0), r8("RAX"), add(e8("RDI"), cst(8, 8)))]),
        16 => c(vec![], Call::Ext("ext1")),
        17 => c(vec![], Call::Ext("ext2")),
        18 => c(vec![], Call::Ext("strlen")),
        19 => c(vec![], Call::Ext("memcpy")),
        20 => c(vec![], Call::Internal),
        21 => c(vec![], Call::Ind("RAX")),
        22 => c(vec![], Call::Ind("RDX")),
        23 => c(vec![], Call::ExtNoTarget("exit")),
        24 => c(vec![], Call::Ext("die")),
        25 => c(vec![], Call::Ext("ext0")),
        26 => d(vec![assign(&t(0), r8("RDI"), e8("RBX"))]),
        27 => d(vec![store(&t(0), sp_off(16), e8("RSI")), assign(&t(1), r8("RSI"), cst(0, 8))]),
        28 => d(vec![load(&t(0), r8("RSI"), sp_off(16))]),
        29 => c(vec![assign(&t(0), r8("RDI"), e8("RDX"))], Call::Internal),
        // in-place updates whose abstract result no longer refers to the old value of the register
        30 => d(vec![assign(&t(0), r8("RDI"), bin(BinOpType::IntMult, e8("RDI"), e8("RSI")))]),
        31 => d(vec![assign(&t(0), r8("RSI"), bin(BinOpType::IntRight, e8("RSI"), cst(3, 8)))]),
        32 => d(vec![assign(&t(0), r8("RDX"), un(UnOpType::Int2Comp, e8("RDX")))]),
        33 => d(vec![assign(&t(0), r8("RDI"), cast(CastOpType::IntZExt, 8, subpiece(0, 1, e8("RDI"))))]),
        // addresses in which a register only occurs as scaled / shifted / subtracted index
        34 => d(vec![load(&t(0), r8("RAX"), add(e8("RDI"), bin(BinOpType::IntMult, e8("RSI"), cst(4, 8))))]),
        35 => d(vec![store(&t(0), add(e8("RDI"), bin(BinOpType::IntLeft, e8("RDX"), cst(3, 8))), cst(0, 8))]),
        _ => d(vec![load(&t(0), r8("RAX"), sub_(e8("RDI"), e8("RSI")))]),
    }
}
const QUICK_SLOTS: [usize; 21] = [0, 1, 2, 5, 7, 8, 10, 11, 12, 13, 16, 20, 22, 23, 24, 30, 32, 33, 34, 35, 36];
/// Alphabet of the 4-slot layer of the thorough tier.
const THOROUGH_4SLOT: [usize; 20] = [0, 1, 2, 3, 5, 7, 8, 9, 10, 11, 13, 16, 19, 20, 22, 24, 26, 29, 30, 34];

fn externs() -> Vec<ExternSymbol> {
    let a = |n: &str| arg_reg(n, 8);
    let ret = || vec![arg_reg("RAX", 8)];
    vec![
        extern_symbol("ext0", "ext0", vec![], ret(), false),
        extern_symbol("ext1", "ext1", vec![a("RDI")], ret(), false),
        extern_symbol("ext2", "ext2", vec![a("RDI"), a("RSI")], ret(), false),
        extern_symbol("strlen", "strlen", vec![a("RDI")], ret(), false),
        extern_symbol("memcpy", "memcpy", vec![a("RDI"), a("RSI"), a("RDX")], ret(), false),
        extern_symbol("exit", "exit", vec![a("RDI")], vec![], true),
        extern_symbol("die", "die", vec![a("RSI")], vec![], true),
    ]
}

fn cond(i: u64) -> Expression {
    match i {
        0 => reg("ZF", 1),
        1 => bin(BinOpType::IntEqual, e8("RSI"), cst(0, 8)),
        _ => bin(BinOpType::IntNotEqual, e8("RAX"), cst(0, 8)),
    }
}
const N_CONDS: u64 = 3;

/// Blocks for one slot block: `name` holds `pre` + the slot's defs (+ the call); `term` is the
/// skeleton's terminator, placed after the call's return if the slot ends in a call.
fn slot_blocks(name: &str, s: Slot, pre: Vec<Term<Def>>, term: Vec<Term<Jmp>>) -> Vec<Term<Blk>> {
    let mut defs = pre;
    defs.extend(s.defs);
    match s.call {
        None => vec![blk(&format!("blk_{name}"), defs, term)],
        Some(call) => {
            let cont = format!("blk_{name}_c");
            defs.extend(push_retaddr(&format!("instr_{name}")));
            let jt = format!("instr_{name}_call");
            let j = match call {
                Call::Ext(sym) => j_call(&jt, sym, Some(&cont)),
                Call::ExtNoTarget(sym) => j_call(&jt, sym, None),
                Call::Internal => j_call(&jt, "FUN_g", Some(&cont)),
                Call::Ind(r) => j_callind(&jt, e8(r), Some(&cont)),
            };
            vec![blk(&format!("blk_{name}"), defs, vec![j]), blk(&cont, vec![], term)]
        }
    }
}

fn ret_block(name: &str, frame: u128) -> Term<Blk> {
    let (mut defs, j) = ret_seq(&format!("instr_{name}"));
    if frame > 0 {
        defs.insert(0, assign(&format!("instr_{name}_epi"), r8("RSP"), add(e8("RSP"), cst(frame, 8))));
    }
    blk(&format!("blk_{name}"), defs, vec![j])
}

const N_SKELETONS: u64 = 6;
fn skeleton_variants(s: u64) -> u64 {
    match s {
        0 => 1,
        5 => N_CONDS * 3,
        _ => N_CONDS,
    }
}
const FRAME: u128 = 24;

/// The subject function. Slots 0..2 are always present; slot 3 (thorough tier) sits on the
/// block that is a plain forwarding block otherwise.
fn fun_f(s: u64, variant: u64, slots: &[usize]) -> Term<Sub> {
    let sl = |i: usize, n: &str| slot(slots.get(i).copied().unwrap_or(0), n);
    let pro = || vec![assign("instr_f_pro", r8("RSP"), sub_(e8("RSP"), cst(FRAME, 8)))];
    let c1 = cond(variant % N_CONDS);
    let br = |t: &str, to: &str| vec![j_branch(&format!("instr_{t}_j"), &format!("blk_{to}"))];
    let cb = |t: &str, c: Expression, yes: &str, no: &str| vec![j_cbranch(&format!("instr_{t}_cj"), &format!("blk_{yes}"), c), j_branch(&format!("instr_{t}_j"), &format!("blk_{no}"))];
    let mut b: Vec<Term<Blk>> = Vec::new();
    match s {
        0 => {
            // line
            b.extend(slot_blocks("a", sl(0, "a"), pro(), br("a", "b")));
            b.extend(slot_blocks("b", sl(1, "b"), vec![], br("b", "c")));
            b.extend(slot_blocks("c", sl(2, "c"), vec![], br("c", "d")));
            b.extend(slot_blocks("d", sl(3, "d"), vec![], br("d", "r")));
        }
        1 => {
            // diamond
            b.extend(slot_blocks("a", sl(0, "a"), pro(), cb("a", c1, "b", "c")));
            b.extend(slot_blocks("b", sl(1, "b"), vec![], br("b", "d")));
            b.extend(slot_blocks("c", sl(3, "c"), vec![], br("c", "d")));
            b.extend(slot_blocks("d", sl(2, "d"), vec![], br("d", "r")));
        }
        2 => {
            // loop: head b, body e
            b.extend(slot_blocks("a", sl(0, "a"), pro(), br("a", "b")));
            b.extend(slot_blocks("b", sl(1, "b"), vec![], cb("b", c1, "e", "c")));
            b.extend(slot_blocks("e", sl(3, "e"), vec![], br("e", "b")));
            b.extend(slot_blocks("c", sl(2, "c"), vec![], br("c", "r")));
        }
        3 => {
            // loop with two exits
            b.extend(slot_blocks("a", sl(0, "a"), pro(), br("a", "b")));
            b.extend(slot_blocks("b", sl(1, "b"), vec![], cb("b", c1, "e", "c")));
            b.extend(slot_blocks("c", sl(2, "c"), vec![], cb("c", reg("ZF", 1), "b", "r")));
            b.extend(slot_blocks("e", sl(3, "e"), vec![], br("e", "r")));
        }
        4 => {
            // nested if
            b.extend(slot_blocks("a", sl(0, "a"), pro(), cb("a", c1, "b", "d")));
            b.extend(slot_blocks("b", sl(1, "b"), vec![], cb("b", bin(BinOpType::IntEqual, e8("RAX"), cst(0, 8)), "c", "d")));
            b.extend(slot_blocks("c", sl(2, "c"), vec![], br("c", "d")));
            b.extend(slot_blocks("d", sl(3, "d"), vec![], br("d", "r")));
        }
        _ => {
            // early end: dead end / indirect jump without known targets
            let end = match variant / N_CONDS {
                0 => vec![],
                1 => vec![j_branchind("instr_e_ij", e8("RDX"))],
                _ => vec![j_branchind("instr_e_ij", e8("RAX"))],
            };
            b.extend(slot_blocks("a", sl(0, "a"), pro(), cb("a", c1, "b", "c")));
            b.extend(slot_blocks("b", sl(1, "b"), vec![], br("b", "e")));
            b.extend(slot_blocks("e", sl(3, "e"), vec![], end));
            b.extend(slot_blocks("c", sl(2, "c"), vec![], br("c", "r")));
        }
    }
    b.push(ret_block("r", FRAME));
    sub("FUN_f", "f", b)
}

const N_CALLEES: u64 = 9;
/// The callee family (no stack frame of their own except where they call).
fn fun_g(v: u64) -> Term<Sub> {
    let call = |name: &str, target: &str, ret: Option<&str>| {
        let mut d = push_retaddr(&format!("instr_{name}"));
        let _ = &mut d;
        (d, j_call(&format!("instr_{name}_call"), target, ret))
    };
    let blocks = match v {
        0 => vec![ret_block("g_r", 0)],
        1 => vec![blk("blk_g_a", vec![assign("instr_g_0", r8("RAX"), add(e8("RDI"), cst(1, 8)))], vec![j_branch("instr_g_j", "blk_g_r")]), ret_block("g_r", 0)],
        2 => vec![blk("blk_g_a", vec![load("instr_g_0", r8("RAX"), e8("RSI"))], vec![j_branch("instr_g_j", "blk_g_r")]), ret_block("g_r", 0)],
        3 => {
            // reads RDX, then calls exit(RDI): never returns
            let (mut d, j) = call("g_x", "exit", None);
            d.insert(0, assign("instr_g_0", r8("RAX"), add(e8("RDX"), cst(1, 8))));
            vec![blk("blk_g_a", d, vec![j])]
        }
        4 => {
            // if (RDI == 0) { read [RSI]; die() } return
            let (mut d, j) = call("g_x", "die", Some("blk_g_r"));
            d.insert(0, load("instr_g_0", r8("RAX"), e8("RSI")));
            vec![
                blk("blk_g_a", vec![], vec![j_cbranch("instr_g_cj", "blk_g_b", bin(BinOpType::IntEqual, e8("RDI"), cst(0, 8))), j_branch("instr_g_j", "blk_g_r")]),
                blk("blk_g_b", d, vec![j]),
                ret_block("g_r", 0),
            ]
        }
        5 => vec![
            blk("blk_g_a", vec![assign("instr_g_0", r8("RDI"), cst(0, 8)), assign("instr_g_1", r8("RAX"), add(e8("RDI"), cst(1, 8)))], vec![j_branch("instr_g_j", "blk_g_r")]),
            ret_block("g_r", 0),
        ],
        6 => {
            // mutual recursion: g calls f
            let (d, j) = call("g_x", "FUN_f", Some("blk_g_r"));
            vec![blk("blk_g_a", d, vec![j]), ret_block("g_r", 0)]
        }
        7 => vec![
            blk("blk_g_a", vec![assign("instr_g_0", r8("RBX"), cst(0, 8)), assign("instr_g_1", r8("RAX"), add(e8("RDX"), cst(1, 8)))], vec![j_branch("instr_g_j", "blk_g_r")]),
            ret_block("g_r", 0),
        ],
        _ => vec![
            // reads RSI in an endless loop
            blk("blk_g_a", vec![], vec![j_branch("instr_g_j", "blk_g_b")]),
            blk("blk_g_b", vec![assign("instr_g_0", r8("RAX"), add(e8("RSI"), cst(1, 8)))], vec![j_branch("instr_g_j2", "blk_g_b")]),
        ],
    };
    sub("FUN_g", "g", blocks)
}

fn build(s: u64, variant: u64, slots: &[usize], callee: u64) -> Project {
    let subs = with_addresses(vec![fun_f(s, variant, slots), fun_g(callee)]);
    project_x64(subs, externs())
}

fn calls_g(slots: &[usize]) -> bool {
    slots.iter().any(|s| matches!(slot(*s, "x").call, Some(Call::Internal)))
}

// ------------------------------------------------------------------ judging

fn conv_of(project: &Project) -> Conv {
    let cc = project.calling_conventions.get("__stdcall").unwrap_or_else(|| mcx::machinery("project without __stdcall convention"));
    Conv { params: names(&cc.integer_parameter_register), callee_saved: names(&cc.callee_saved_register), sp: project.stack_pointer_register.name.clone() }
}

fn check_program(ctx: &Ctx, label: &str, raw: &Project) {
    let case = || serde_json::to_value(Case { label: label.to_string(), program: ProgramSpec::of(raw), rendered: render(raw) }).unwrap();
    let mut project = raw.clone();
    if let Err(p) = catch(|| {
        let _ = project.normalize();
    }) {
        ctx.violation(format!("panic {}", mcx::panic_site(&p)), case(), json!({"in": "Project::normalize", "panic": p, "program": render(raw)}));
        return;
    }
    let project = &project;
    let sigs = match catch(|| {
        let graph = get_program_cfg(&project.program);
        compute_function_signatures(project, &graph).0
    }) {
        Ok(s) => s,
        Err(p) => {
            ctx.violation(format!("panic {}", mcx::panic_site(&p)), case(), json!({"in": "get_program_cfg / compute_function_signatures", "panic": p, "program": render(project)}));
            return;
        }
    };
    let conv = conv_of(project);
    let reference = reference_sets(project, &conv);
    let mut outcome: Vec<(Vec<u8>, Vec<String>)> = Vec::new();
    let mut nontrivial = false;
    for (tid, sub) in &project.program.term.subs {
        if tid.is_artificial_sink_sub() {
            continue;
        }
        ctx.add_transitions(1);
        let r = &reference[&tid_str(tid)];
        ctx.add_evaluations(r.states);
        let Some(sig) = sigs.get(tid) else {
            ctx.violation("no-signature-for-function", case(), json!({"function": tid_str(tid), "program": render(project)}));
            continue;
        };
        let reported: BTreeSet<String> = sig
            .parameters
            .keys()
            .filter_map(|loc| match loc {
                AbstractLocation::Register(v) => Some(v.name.clone()),
                _ => None,
            })
            .collect();
        let refs = r.refs();
        let demanded: BTreeSet<String> = refs.iter().map(|i| conv.params[*i as usize].clone()).collect();
        if !demanded.is_empty() && demanded.len() < conv.params.len() {
            nontrivial = true;
        }
        ctx.stat("demanded_registers", demanded.len() as u64);
        ctx.stat("reported_but_not_demanded_registers", reported.difference(&demanded).count() as u64);
        if reported == demanded {
            ctx.stat("functions_reported_exactly_the_reference_set", 1);
        }
        outcome.push((refs.iter().copied().collect(), reported.iter().cloned().collect()));
        let missed: Vec<&String> = demanded.difference(&reported).collect();
        if missed.is_empty() {
            continue;
        }
        // one violation per (kind) class: a register is blamed on the kinds of read that demand it
        let mut by_kind: BTreeMap<(Kind, Qual), Vec<serde_json::Value>> = BTreeMap::new();
        for ((ri, kind, qual), w) in &r.reads {
            let name = &conv.params[*ri as usize];
            if missed.contains(&name) {
                by_kind.entry((*kind, *qual)).or_default().push(json!({"register": name, "read_at": w.at, "path_of_blocks": w.path}));
            }
        }
        let _ = sub;
        for ((kind, qual), witnesses) in by_kind {
            ctx.stat(&format!("violations: missed-parameter {}{}", kind.name(), qual.name()), 1);
            ctx.violation(
                format!("missed-parameter {}{}", kind.name(), qual.name()),
                case(),
                json!({"function": tid_str(tid), "missed": missed, "reference_set": demanded, "reported_register_parameters": reported,
                       "witnesses": witnesses, "signature": sig.to_json_compact(), "normalized_program": render(project)}),
            );
        }
    }
    ctx.outcome(&outcome);
    if nontrivial {
        ctx.add_nontrivial(1);
    }
}

fn main() {
    let ctx = Ctx::new("C14");
    if let Some(c) = ctx.replay_case() {
        let case: Case = serde_json::from_value(c.clone()).unwrap_or_else(|e| mcx::machinery(&format!("bad case: {e}")));
        check_program(&ctx, &case.label, &case.program.to_project_x64());
        ctx.finish("replay of one case", false);
    }
    let ctx = &ctx;
    let thorough = ctx.thorough();
    // layers: (slot alphabet, number of slots, skip cases whose 4th slot is empty)
    let full: Vec<usize> = (0..N_SLOTS).collect();
    let layers: Vec<(Vec<usize>, u32, bool)> = if thorough { vec![(full, 3, false), (THOROUGH_4SLOT.to_vec(), 4, true)] } else { vec![(QUICK_SLOTS.to_vec(), 3, false)] };
    let mut total = 0u64;
    for (alphabet, nslots, skip_empty_last) in &layers {
        let k = alphabet.len() as u64;
        let dims = vec![k; *nslots as usize];
        for s in 0..N_SKELETONS {
            let nv = skeleton_variants(s);
            let ns = k.pow(*nslots);
            let n = ns * nv * N_CALLEES;
            par_for(n, 256, |i| {
                let slot_i = i % ns;
                let variant = (i / ns) % nv;
                let callee = i / ns / nv;
                let sl: Vec<usize> = mcx::space::decode(slot_i, &dims).into_iter().map(|x| alphabet[x]).collect();
                if callee != 0 && !calls_g(&sl) {
                    return; // the callee variant is irrelevant: the program is the one with callee 0
                }
                if *skip_empty_last && sl[3] == 0 {
                    return; // identical to a 3-slot program of the first layer
                }
                let p = build(s, variant, &sl, callee);
                let label = format!("skeleton={s} variant={variant} slots={sl:?} callee={callee}");
                ctx.sample(|| json!({"label": label, "program": render(&p)}));
                check_program(ctx, &label, &p);
                ctx.add_states(1);
            });
            total += n;
        }
    }
    let k = layers[0].0.len();
    ctx.set("index_space", json!(total));
    ctx.set(
        "bounds",
        json!({"skeletons": "line, diamond, loop, loop with two exits, nested if, early end (dead end / indirect jump through RDX or RAX)",
               "layers": layers.iter().map(|(a, n, _)| json!({"slot_alphabet": a.len(), "slots": n})).collect::<Vec<_>>(), "first_layer_alphabet": k, "branch_conditions": N_CONDS, "callee_family": N_CALLEES,
               "functions": "FUN_f (skeleton, 24-byte frame) and FUN_g (callee family); the callee dimension is only multiplied in when a slot calls FUN_g",
               "externs": "ext0(), ext1(RDI), ext2(RDI,RSI), strlen(RDI) [stubbed], memcpy(RDI,RSI,RDX) [stubbed], exit(RDI) [stubbed, no_return, call without return target], die(RSI) [no_return]"}),
    );
    ctx.assume("a pure register copy, a spill to the own stack frame and its reload only move the entry value; it counts as read once it is used (non-trivial expression, address, condition, jump/call target, declared library argument, register read by the internal callee, value stored outside the own frame)");
    ctx.assume("indirect / unknown callees are assumed to read nothing but their target expression; library functions read exactly their declared register parameters");
    ctx.assume("paths are CFG paths (both outcomes of every conditional are feasible); an internal call returns iff a Return is reachable in the callee; calls to no_return symbols end the path");
    ctx.assume("x86 call semantics: the caller pushes the return address, the callee pops it (SP + 8 after the call returns)");
    ctx.assume("calls forget entry values held in registers that are not callee-saved, in callee-saved registers the callee writes, and in stack slots the callee might overwrite");
    ctx.finish(
        "one case per (skeleton, condition/end variant, 3 slot choices, callee variant) with redundant callee variants skipped; every function of the program is judged: reference set (path exploration) must be contained in the reported register parameters; non-trivial = some function has a reference set that is neither empty nor all six parameter registers",
        true,
    );
}
