//! C13 — pointer inference never excludes values that can occur at runtime.
//! Shape E: every single-function program of a finite program space
//! (`shared/c13_space.rs`: CFG skeletons x slot forms x condition forms) is
//! normalized by the real `Project::normalize`, analysed by the real function
//! signature analysis and the real pointer inference (exactly the calls the
//! tool makes), and executed by the independent interpreter `props::ir_interp`
//! from every initial state of an initial-state alphabet. Judged, only when the
//! fixpoint stabilised:
//!   * every block the run reaches has an analysis state,
//!   * every register's concrete value at the block start is in gamma of the
//!     abstract value (`shared/c13_gamma.rs`),
//!   * a load/store for which the analysis transfer function reports a certain
//!     NULL dereference (no successor state) does not complete.
//! Runs stop (and prove nothing further) at an access to an address in (-1024,1024).

#[path = "../shared/c13_gamma.rs"]
mod c13_gamma;
#[path = "../shared/c13_space.rs"]
mod c13_space;

use c13_gamma::{member, read_data, AbsVal, Entry, Member};
use c13_space::*;
use mcx::{catch, par_for, Ctx};
use props::ccl::analysis::forward_interprocedural_fixpoint::Context as _;
use props::ccl::analysis::graph::{self, Node};
use props::ccl::analysis::interprocedural_fixpoint_generic::NodeValue;
use props::ccl::analysis::vsa_results::VsaResult;
use props::ccl::intermediate_representation::*;
use props::ccl::pipeline::AnalysisResults;
use props::ir_interp::{Abort, Event, Machine};
use props::irb::*;
use serde::{Deserialize, Serialize};
use serde_json::json;
use std::collections::{BTreeMap, BTreeSet};

#[derive(Serialize, Deserialize, Clone, Debug)]
struct Case {
    label: String,
    program: ProgramSpec,
    rendered: String,
}

const SEED: u64 = 13;
const FUEL: usize = 40;
const SP0: u128 = 0x7fff_0000;

// ---------------------------------------------------------------- real analyses -> owned views

struct BlockView {
    has_state: bool,
    /// (register, abstract value) for every register whose abstract value does not carry the top flag
    vals: Vec<(Variable, AbsVal)>,
    /// index of the first def for which the transfer function returns no state (certain NULL dereference)
    null_def: Option<usize>,
}

struct Analysis {
    stabilised: bool,
    blocks: BTreeMap<Tid, BlockView>,
    params: Vec<String>,
    cwe_warnings: usize,
}

fn memory_config() -> serde_json::Value {
    let repo = std::env::var("VERIF_REPO_DIR").unwrap_or_else(|_| "/repo".to_string());
    let path = format!("{repo}/src/config.json");
    let text = std::fs::read_to_string(&path).unwrap_or_else(|e| mcx::machinery(&format!("cannot read {path}: {e}")));
    let v: serde_json::Value = serde_json::from_str(&text).unwrap_or_else(|e| mcx::machinery(&format!("bad config.json: {e}")));
    v["Memory"].clone()
}

// The tool runs `pointer_inference::run` = LogThread::spawn + PointerInference::new + compute +
// fill_vsa_result_maps + LogThread::collect. Spawning and joining an OS thread per program costs
// more than the analysis itself, so every worker keeps ONE real `LogThread` alive whose collector
// forwards the messages; `PointerInference::new` + `compute` are called exactly as `run` calls them
// (the VSA result maps are not read by this oracle).
struct WorkerLog {
    thread: props::ccl::utils::log::LogThread,
    buf: std::sync::Arc<std::sync::Mutex<Vec<props::ccl::utils::log::LogThreadMsg>>>,
    ack: std::sync::mpsc::Receiver<()>,
}
const SENTINEL: &str = "c13-harness-sentinel";
impl WorkerLog {
    fn new() -> WorkerLog {
        use props::ccl::utils::log::{LogThread, LogThreadMsg};
        let buf = std::sync::Arc::new(std::sync::Mutex::new(Vec::new()));
        let (ack_tx, ack) = std::sync::mpsc::channel();
        let b2 = buf.clone();
        let thread = LogThread::spawn(move |rx| {
            while let Ok(msg) = rx.recv() {
                match msg {
                    LogThreadMsg::Terminate => break,
                    LogThreadMsg::Log(m) if m.text == SENTINEL => {
                        let _ = ack_tx.send(());
                    }
                    other => b2.lock().unwrap().push(other),
                }
            }
            (Vec::new(), Vec::new())
        });
        WorkerLog { thread, buf, ack }
    }
    /// Everything sent so far (same sender => FIFO, so the sentinel arrives last).
    fn drain(&self) -> Vec<props::ccl::utils::log::LogThreadMsg> {
        use props::ccl::utils::log::{LogMessage, LogThreadMsg};
        if self.thread.get_msg_sender().send(LogThreadMsg::Log(LogMessage::new_info(SENTINEL))).is_err() {
            mcx::machinery("log thread of the worker is gone");
        }
        if self.ack.recv().is_err() {
            mcx::machinery("log thread of the worker died");
        }
        std::mem::take(&mut *self.buf.lock().unwrap())
    }
}
thread_local! {
    static WORKER_LOG: WorkerLog = WorkerLog::new();
}

/// Run the real pipeline on a normalized project and copy out what the oracle looks at.
fn analyse(project: &Project, fn_tid: &Tid, check_vars: &[Variable], config: &serde_json::Value) -> Analysis {
    use props::ccl::analysis::pointer_inference::PointerInference;
    use props::ccl::utils::log::LogThreadMsg;
    let cfg = graph::get_program_cfg(&project.program);
    let binary: Vec<u8> = Vec::new();
    let ar = AnalysisResults::new(&binary, &cfg, project);
    let (sigs, _logs) = ar.compute_function_signatures();
    let ar = ar.with_function_signatures(Some(&sigs));
    let (pi, msgs) = WORKER_LOG.with(|wl| {
        let _ = wl.drain(); // leftovers of a previous program that panicked
        let mut pi = PointerInference::new(&ar, serde_json::from_value(config.clone()).unwrap(), wl.thread.get_msg_sender(), false);
        pi.compute(false);
        (pi, wl.drain())
    });
    let mut cwe_warnings = BTreeSet::new();
    let mut stabilised = true;
    for m in &msgs {
        match m {
            LogThreadMsg::Log(l) => {
                if l.text.contains("Fixpoint did not stabilize") {
                    stabilised = false;
                }
            }
            LogThreadMsg::Cwe(w) => {
                cwe_warnings.insert(w.tids.clone());
            }
            LogThreadMsg::Terminate => (),
        }
    }
    let params = sigs.get(fn_tid).map(|s| s.parameters.iter().map(|(l, a)| format!("{l} {a:?}")).collect()).unwrap_or_default();
    let mut blocks = BTreeMap::new();
    let g = pi.get_graph();
    for n in g.node_indices() {
        let Node::BlkStart(blk, sub) = g[n] else { continue };
        if sub.tid != *fn_tid {
            continue;
        }
        let state = match pi.get_node_value(n) {
            Some(NodeValue::Value(s)) => Some(s),
            _ => None,
        };
        let mut view = BlockView { has_state: state.is_some(), vals: Vec::new(), null_def: None };
        if let Some(state) = state {
            for v in check_vars {
                if let Some(d) = pi.eval_at_node(n, &Expression::Var(v.clone())) {
                    let a = read_data(&d);
                    if !a.top {
                        view.vals.push((v.clone(), a));
                    }
                }
            }
            let mut st = state.clone();
            for (i, def) in blk.term.defs.iter().enumerate() {
                match pi.get_context().update_def(&st, def) {
                    Some(s) => st = s,
                    None => {
                        view.null_def = Some(i);
                        break;
                    }
                }
            }
        }
        blocks.insert(blk.tid.clone(), view);
    }
    Analysis { stabilised, blocks, params, cwe_warnings: cwe_warnings.len() }
}

// ---------------------------------------------------------------- initial states

fn reads_of_def(d: &Def) -> Vec<&Variable> {
    match d {
        Def::Assign { value, .. } => value.input_vars(),
        Def::Load { address, .. } => address.input_vars(),
        Def::Store { address, value } => {
            let mut v = address.input_vars();
            v.extend(value.input_vars());
            v
        }
    }
}
fn reads_of_jmp(j: &Jmp) -> Vec<&Variable> {
    match j {
        Jmp::CBranch { condition, .. } => condition.input_vars(),
        Jmp::BranchInd(e) | Jmp::Return(e) => e.input_vars(),
        Jmp::CallInd { target, .. } => target.input_vars(),
        _ => Vec::new(),
    }
}

/// Registers whose entry value can be read: read in some block before being written in that block.
fn upward_exposed(sub: &Term<Sub>) -> BTreeSet<Variable> {
    let mut out = BTreeSet::new();
    for b in &sub.term.blocks {
        let mut written: BTreeSet<&Variable> = BTreeSet::new();
        for d in &b.term.defs {
            for r in reads_of_def(&d.term) {
                if !written.contains(r) {
                    out.insert(r.clone());
                }
            }
            match &d.term {
                Def::Assign { var, .. } | Def::Load { var, .. } => {
                    written.insert(var);
                }
                Def::Store { .. } => (),
            }
        }
        for j in &b.term.jmps {
            for r in reads_of_jmp(&j.term) {
                if !written.contains(r) {
                    out.insert(r.clone());
                }
            }
        }
    }
    out
}

fn large_pointer(name: &str) -> u128 {
    match name {
        "RDI" => 0x1000_0000,
        "RSI" => 0x2000_0000,
        "RAX" => 0x3000_0000,
        "RDX" => 0x4000_0000,
        "RCX" => 0x5000_0000,
        _ => 0x6000_0000,
    }
}
/// The value alphabet of one register in the entry state.
fn value_alphabet(v: &Variable) -> Vec<u128> {
    if u64::from(v.size) == 1 {
        return vec![0, 1];
    }
    let m = mcx::refsem::ops::mask(u64::from(v.size) as u32);
    vec![0, 1, 5, 1023, 1024, (-1i128) as u128 & m, (-1024i128) as u128 & m, large_pointer(&v.name)]
}

// ---------------------------------------------------------------- concrete runs and the oracle

/// "accesses to addresses in (-1024,1024) abort the run": the address operand of the access,
/// read as a signed number, lies strictly between -1024 and 1024.
fn in_null_range(addr: u64) -> bool {
    let a = addr as i64;
    a > -1024 && a < 1024
}

/// Is the value of `e` an *integer computed by the program*, as opposed to a value that can be a
/// pointer into memory that exists at run time (the stack frame, objects reachable from the
/// entry state)? Pointer-capable: entry values of registers, contents of memory the program has
/// not written, and copies / `+- integer` of pointer-capable values. Everything else (constants,
/// masks, products, comparison results, ...) is an integer. The programs have an empty memory
/// image, so an integer used as an address points outside everything that is known to exist.
fn is_integer(e: &Expression, int_regs: &BTreeMap<Variable, bool>) -> bool {
    match e {
        Expression::Const(_) => true,
        Expression::Var(v) => int_regs.get(v).copied().unwrap_or(false),
        Expression::BinOp { op: BinOpType::IntAdd, lhs, rhs } => is_integer(lhs, int_regs) && is_integer(rhs, int_regs),
        Expression::BinOp { op: BinOpType::IntSub, lhs, rhs } => is_integer(lhs, int_regs) && is_integer(rhs, int_regs),
        Expression::Unknown { .. } => false,
        _ => true,
    }
}

fn cond_class(e: &Expression) -> String {
    match e {
        Expression::Var(_) => "flag".to_string(),
        Expression::BinOp { op, .. } => format!("{op:?}"),
        Expression::UnOp { op: UnOpType::BoolNegate, arg } => format!("negated-{}", cond_class(arg)),
        _ => "other-condition".to_string(),
    }
}
fn producer_class(d: &Def) -> String {
    match d {
        Def::Load { .. } => "Load".to_string(),
        Def::Store { .. } => "Store".to_string(),
        Def::Assign { value, .. } => match value {
            Expression::Const(_) => "Assign-Const".to_string(),
            Expression::Var(_) => "Assign-Copy".to_string(),
            Expression::BinOp { op, .. } => format!("Assign-{op:?}"),
            Expression::UnOp { op, .. } => format!("Assign-{op:?}"),
            _ => "Assign-other".to_string(),
        },
    }
}

struct Found {
    key: String,
    detail: serde_json::Value,
}

struct RunStats {
    block_visits: u64,
    register_checks: u64,
    by_top_or_skipped: u64,
    ungroundable: u64,
    decided_yes: u64,
    end: &'static str,
}

/// One concrete run from one initial state. Returns the first violation found.
fn run_one(project: &Project, sub: &Term<Sub>, an: &Analysis, init: &[(Variable, u128)], preds: &BTreeMap<Tid, usize>, st: &mut RunStats) -> Option<Found> {
    let mut m = Machine::new(SEED, true, 8);
    m.set_init(&project.stack_pointer_register, SP0);
    for (v, x) in init {
        m.set_init(v, *x);
    }
    let m0 = m.clone();
    let entry = Entry { machine: &m0, fn_tid: &sub.tid };
    let init_render = || -> Vec<String> { init.iter().map(|(v, x)| format!("{}={:#x}", v.name, x)).collect() };
    let mut producers: BTreeMap<Variable, String> = BTreeMap::new();
    // "integer" provenance (see `is_integer`): registers and memory bytes written by the program
    let mut int_regs: BTreeMap<Variable, bool> = BTreeMap::new();
    let mut int_mem: BTreeMap<u64, bool> = BTreeMap::new();
    let mut edge = "function-entry".to_string();
    let mut path: Vec<String> = Vec::new();
    let Some(mut cur) = sub.term.blocks.first() else {
        st.end = "empty";
        return None;
    };
    for _ in 0..FUEL {
        path.push(format!("{}", cur.tid));
        let Some(view) = an.blocks.get(&cur.tid) else {
            mcx::machinery(&format!("block {} of the function has no BlkStart node in the control flow graph", cur.tid));
        };
        let merge = if preds.get(&cur.tid).copied().unwrap_or(0) >= 2 { " (merge point)" } else { "" };
        if !view.has_state {
            return Some(Found {
                key: format!("reached-block-without-state after {edge}{merge}"),
                detail: json!({"block": format!("{}", cur.tid), "initial_state": init_render(), "path": path, "incoming_edge": edge}),
            });
        }
        st.block_visits += 1;
        for (var, abs) in &view.vals {
            let v = m.read_var(var);
            st.register_checks += 1;
            match member(abs, var, v, &entry) {
                Member::Yes => {
                    if *var != project.stack_pointer_register {
                        st.decided_yes += 1
                    }
                }
                Member::YesByTop => st.by_top_or_skipped += 1,
                Member::YesByUngroundable => st.ungroundable += 1,
                Member::No => {
                    let producer = producers.get(var).cloned().unwrap_or_else(|| "entry-value".to_string());
                    let grounded: Vec<String> = abs.rel.iter().map(|(id, _)| format!("entry({id}) = {}", entry.ground(id).map(|b| format!("{b:#x}")).unwrap_or_else(|| "?".into()))).collect();
                    return Some(Found {
                        key: format!("value-not-represented [{producer}] after {edge}{merge}"),
                        detail: json!({"block": format!("{}", cur.tid), "register": var.name, "concrete_value": format!("{v:#x}"), "concrete_value_signed": c13_gamma::to_signed(v, u64::from(var.size) as u32 * 8).to_string(),
                            "abstract_value": abs.render(), "identifier_grounding": grounded, "initial_state": init_render(), "path": path, "incoming_edge": edge, "produced_by": producer}),
                    });
                }
            }
        }
        // defs
        for (i, def) in cur.term.defs.iter().enumerate() {
            // provenance of the address and of the value that is written (evaluated before the def executes)
            let (addr_is_integer, value_is_integer) = match &def.term {
                Def::Assign { value, .. } => (false, is_integer(value, &int_regs)),
                Def::Load { address, .. } => (is_integer(address, &int_regs), false),
                Def::Store { address, value } => (is_integer(address, &int_regs), is_integer(value, &int_regs)),
            };
            let mut ev = Vec::new();
            match m.exec_def(&def.term, &mut ev) {
                Ok(()) => (),
                Err(Abort::Undefined(_)) => {
                    st.end = "undefined-operation";
                    return None;
                }
                Err(Abort::IllTyped(s)) => mcx::machinery(&format!("generator produced an ill-typed program: {s}\n{}", render(project))),
            }
            let mut loaded_is_integer = false;
            for e in &ev {
                let (a, n, is_store) = match e {
                    Event::Load { addr, size, .. } => (*addr, *size, false),
                    Event::Store { addr, size, .. } => (*addr, *size, true),
                    _ => continue,
                };
                if in_null_range(a) {
                    st.end = "aborted-null-range";
                    return None;
                }
                if addr_is_integer {
                    st.end = "aborted-integer-used-as-address";
                    return None;
                }
                if is_store {
                    for k in 0..n as u64 {
                        int_mem.insert(a.wrapping_add(k), value_is_integer);
                    }
                } else {
                    loaded_is_integer = (0..n as u64).all(|k| int_mem.get(&a.wrapping_add(k)).copied().unwrap_or(false));
                }
            }
            if view.null_def == Some(i) {
                return Some(Found {
                    key: format!("certain-null-deref-completed [{}]", producer_class(&def.term)),
                    detail: json!({"block": format!("{}", cur.tid), "def": format!("{}: {}", def.tid, def.term), "accesses": format!("{ev:x?}"), "initial_state": init_render(), "path": path}),
                });
            }
            match &def.term {
                Def::Assign { var, .. } => {
                    producers.insert(var.clone(), producer_class(&def.term));
                    int_regs.insert(var.clone(), value_is_integer);
                }
                Def::Load { var, .. } => {
                    producers.insert(var.clone(), producer_class(&def.term));
                    int_regs.insert(var.clone(), loaded_is_integer);
                }
                Def::Store { .. } => (),
            }
        }
        // jumps
        let mut next: Option<&Tid> = None;
        let mut untaken: Option<String> = None;
        for j in &cur.term.jmps {
            match &j.term {
                Jmp::Branch(t) => {
                    edge = match &untaken {
                        Some(c) => format!("{c}-specialization(false)"),
                        None => "plain-jump".to_string(),
                    };
                    next = Some(t);
                    break;
                }
                Jmp::CBranch { target, condition } => match m.eval(condition) {
                    Err(Abort::Undefined(_)) => {
                        st.end = "undefined-operation";
                        return None;
                    }
                    Err(Abort::IllTyped(s)) => mcx::machinery(&format!("ill-typed condition: {s}")),
                    Ok(c) => {
                        if c != 0 {
                            edge = format!("{}-specialization(true)", cond_class(condition));
                            next = Some(target);
                            break;
                        } else {
                            untaken = Some(cond_class(condition));
                        }
                    }
                },
                Jmp::Return(_) => {
                    st.end = "returned";
                    return None;
                }
                _ => {
                    st.end = "other-jump";
                    return None;
                }
            }
        }
        let Some(t) = next else {
            st.end = "dead-end";
            return None;
        };
        match sub.term.blocks.iter().find(|b| b.tid == *t) {
            Some(b) => cur = b,
            None => {
                st.end = "left-function";
                return None;
            }
        }
    }
    st.end = "fuel-out";
    None
}

fn predecessor_counts(sub: &Term<Sub>) -> BTreeMap<Tid, usize> {
    let mut m: BTreeMap<Tid, usize> = BTreeMap::new();
    for b in &sub.term.blocks {
        for j in &b.term.jmps {
            match &j.term {
                Jmp::Branch(t) | Jmp::CBranch { target: t, .. } => *m.entry(t.clone()).or_insert(0) += 1,
                _ => (),
            }
        }
    }
    m
}

/// Judge one raw program.
fn check_program(ctx: &Ctx, label: &str, raw: &Project, config: &serde_json::Value, verbose: bool) {
    let case = || serde_json::to_value(Case { label: label.to_string(), program: ProgramSpec::of(raw), rendered: render(raw) }).unwrap();
    let fn_tid = tid("FUN_f");
    let mut project = raw.clone();
    if let Err(p) = catch(|| {
        let _ = project.normalize();
    }) {
        ctx.violation(format!("panic {}", mcx::panic_site(&p)), case(), json!({"stage": "Project::normalize", "panic": p, "label": label}));
        return;
    }
    let Some(sub) = project.program.term.subs.get(&fn_tid) else {
        ctx.violation("function removed by normalization", case(), json!({}));
        return;
    };
    let mut check_vars: BTreeSet<Variable> = project.register_set.iter().cloned().collect();
    for b in &sub.term.blocks {
        for d in &b.term.defs {
            check_vars.extend(reads_of_def(&d.term).into_iter().cloned());
            if let Def::Assign { var, .. } | Def::Load { var, .. } = &d.term {
                check_vars.insert(var.clone());
            }
        }
    }
    let check_vars: Vec<Variable> = check_vars.into_iter().collect();
    if verbose && std::env::var_os("C13_NOCATCH").is_some() {
        // debugging aid for replays: let a panic of the real code print its backtrace
        let _ = analyse(&project, &fn_tid, &check_vars, config);
    }
    let an = match catch(|| analyse(&project, &fn_tid, &check_vars, config)) {
        Ok(a) => a,
        Err(p) => {
            ctx.violation(format!("panic {}", mcx::panic_site(&p)), case(), json!({"stage": "function signatures / pointer inference", "panic": p, "label": label, "normalized_program": render(&project)}));
            return;
        }
    };
    ctx.add_transitions(1);
    if verbose {
        println!("normalized program:\n{}", render(&project));
        println!("parameters: {:?}", an.params);
        println!("stabilised: {}", an.stabilised);
        for (t, v) in &an.blocks {
            println!("  {t}: has_state={} null_def={:?}", v.has_state, v.null_def);
            for (var, a) in &v.vals {
                println!("      {} = {}", var.name, a.render());
            }
        }
    }
    if !an.stabilised {
        ctx.stat("programs_skipped_fixpoint_not_stabilised", 1);
        ctx.outcome(&"not-stabilised");
        return;
    }
    if an.blocks.values().any(|b| b.null_def.is_some()) {
        ctx.stat("programs_with_certain_null_deref_def", 1);
    }
    if an.cwe_warnings > 0 {
        ctx.stat("programs_with_cwe476_warning", 1);
    }
    ctx.stat("blocks_without_state", an.blocks.values().filter(|b| !b.has_state).count() as u64);
    // initial states: every combination of the value alphabets of the registers whose entry value can be read
    let sp = project.stack_pointer_register.clone();
    let exposed: Vec<Variable> = upward_exposed(sub).into_iter().filter(|v| *v != sp).collect();
    let doms: Vec<Vec<u128>> = exposed.iter().map(value_alphabet).collect();
    let dims: Vec<u64> = doms.iter().map(|d| d.len() as u64).collect();
    let n = mcx::space::size(&dims);
    let preds = predecessor_counts(sub);
    let mut st = RunStats { block_visits: 0, register_checks: 0, by_top_or_skipped: 0, ungroundable: 0, decided_yes: 0, end: "" };
    let mut ends: BTreeMap<&'static str, u64> = BTreeMap::new();
    let mut max_visits = 0u64;
    let mut found: Option<Found> = None;
    for i in 0..n {
        let idx = mcx::space::decode(i, &dims);
        let init: Vec<(Variable, u128)> = exposed.iter().enumerate().map(|(k, v)| (v.clone(), doms[k][idx[k] as usize])).collect();
        let before = st.block_visits;
        let r = run_one(&project, sub, &an, &init, &preds, &mut st);
        max_visits = max_visits.max(st.block_visits - before);
        *ends.entry(if r.is_some() { "violation" } else { st.end }).or_insert(0) += 1;
        if r.is_some() {
            found = r;
            break;
        }
    }
    ctx.add_evaluations(st.register_checks);
    ctx.stat("concrete_runs", ends.values().sum());
    ctx.stat("block_visits_checked", st.block_visits);
    ctx.stat("register_checks_against_non_top_values", st.register_checks);
    ctx.stat("register_checks_decided_by_interval_or_grounded_id_not_sp", st.decided_yes);
    ctx.stat("register_checks_ungroundable_identifier", st.ungroundable);
    for (k, v) in &ends {
        ctx.stat(&format!("runs_end_{k}"), *v);
    }
    ctx.stat_max("max_initial_states_per_program", n);
    if st.decided_yes > 0 {
        ctx.add_nontrivial(1);
    }
    let with_state = an.blocks.values().filter(|b| b.has_state).count();
    ctx.outcome(&(with_state, an.blocks.len(), an.params.len(), ends.keys().cloned().collect::<Vec<_>>(), max_visits.min(8), st.decided_yes.min(3)));
    if let Some(f) = found {
        let mut detail = f.detail;
        detail["label"] = json!(label);
        detail["normalized_program"] = json!(render(&project));
        detail["function_parameters"] = json!(an.params);
        ctx.violation(f.key, case(), detail);
    }
}

fn main() {
    let ctx = Ctx::new("C13");
    if let Err(e) = mcx::refsem::ops::self_check() {
        mcx::machinery(&e);
    }
    let config = memory_config();
    if let Some(c) = ctx.replay_case() {
        let case: Case = serde_json::from_value(c.clone()).unwrap_or_else(|e| mcx::machinery(&format!("bad case: {e}")));
        check_program(&ctx, &case.label, &case.program.to_project_x64(), &config, true);
        ctx.finish("replay of one case", false);
    }
    let ctx = &ctx;
    let level = if ctx.thorough() { 1 } else { 0 };
    let (all_slots, all_uses, all_conds, all_conds2) = (slot_alphabet(), use_alphabet(), cond_alphabet(), cond2_alphabet());
    let mut total = 0u64;
    let mut per_skeleton = Vec::new();
    // measurement aid (never used by ./check): C13_MEASURE=k explores k evenly spaced programs per skeleton
    let measure: Option<u64> = std::env::var("C13_MEASURE").ok().and_then(|s| s.parse().ok());
    for s in 0..N_SKELETONS {
        let (roles, nconds) = skeleton_shape(s);
        let (n, m, g, g2) = skeleton_sizes(level, s);
        let slots = &all_slots[..n.min(all_slots.len())];
        let uses = &all_uses[..m.min(all_uses.len())];
        let conds = &all_conds[..g.min(all_conds.len())];
        let conds2 = &all_conds2[..g2.min(all_conds2.len())];
        let mut dims: Vec<u64> = roles.iter().map(|active| if *active { slots.len() as u64 } else { uses.len() as u64 }).collect();
        if nconds >= 1 {
            dims.push(conds.len() as u64);
        }
        if nconds >= 2 {
            dims.push(conds2.len() as u64);
        }
        let n_programs = mcx::space::size(&dims);
        let (n_run, stride) = match measure {
            Some(k) if k < n_programs => (k, n_programs / k),
            _ => (n_programs, 1),
        };
        if stride != 1 {
            ctx.cap_hit("C13_MEASURE set: strided subset only");
        }
        total += n_run;
        per_skeleton.push(json!({"skeleton": SKELETON_NAMES[s], "programs": n_programs, "active_slot_forms": slots.len(), "consumer_slot_forms": uses.len(), "conditions": conds.len(), "second_conditions": conds2.len(), "blocks": roles.len()}));
        par_for(n_run, 16, |i| {
            let idx = mcx::space::decode(i * stride, &dims);
            let k = roles.len();
            let sl: Vec<Vec<DefForm>> = roles.iter().enumerate().map(|(b, active)| if *active { slots[idx[b] as usize].clone() } else { uses[idx[b] as usize].clone() }).collect();
            let mut cs: Vec<CondForm> = Vec::new();
            if nconds >= 1 {
                cs.push(conds[idx[k] as usize]);
            }
            if nconds >= 2 {
                cs.push(conds2[idx[k + 1] as usize]);
            }
            let p = build_program(s, &sl, &cs);
            let lbl = label(s, &sl, &cs);
            ctx.sample(|| json!({"label": lbl, "program": render(&p)}));
            check_program(ctx, &lbl, &p, &config, false);
            ctx.add_states(1);
        });
    }
    let render_forms = |v: &[Vec<DefForm>]| -> Vec<String> { v.iter().map(|f| f.iter().map(|d| d.label()).collect::<Vec<_>>().join("; ")).collect() };
    ctx.set(
        "bounds",
        json!({"programs": total, "per_skeleton": per_skeleton,
               "active_slot_forms_in_priority_order": render_forms(&all_slots), "consumer_slot_forms": render_forms(&all_uses),
               "conditions_in_priority_order": all_conds.iter().map(|c| c.label()).collect::<Vec<_>>(), "second_conditions": all_conds2.iter().map(|c| c.label()).collect::<Vec<_>>(),
               "initial_states": "every combination of {0,1,5,1023,1024,-1,-1024,large pointer} for each 8-byte register whose entry value can be read, {0,1} for flags; RSP = 0x7fff0000", "block_fuel": FUEL}),
    );
    ctx.assume("entry stack pointer is 16-byte aligned; flags are 0/1; memory not written by the program holds a fixed pseudo-random byte pattern");
    ctx.assume("runs stop at the first load/store whose address (as a signed number) lies in (-1024,1024) and prove nothing beyond that point");
    ctx.assume("programs for which PointerInference reports 'Fixpoint did not stabilize' are skipped (counted)");
    ctx.assume("the programs have an empty memory image; a load/store whose address is an integer computed by the program (a constant, or the result of an operation other than copy / +- integer applied to an entry value or to unwritten memory) lies outside the stack frame and every object reachable from the entry state: the statement does not say what such an access does, the analysis treats it as not completing; such runs stop and prove nothing (counted as runs_end_aborted-integer-used-as-address)");
    ctx.assume("the alphabet has no stores through non-stack pointers, so parameter objects cannot alias each other or the stack frame");
    ctx.assume("abstract identifiers that cannot be grounded in the entry state count as 'anything' (counted)");
    ctx.finish(
        "one case per program (skeleton x slot forms x condition forms); each is normalized, analysed (function signatures + pointer inference) and run from every initial state; at every reached block start every register is compared with the abstract value; non-trivial = at least one membership of a register other than the stack pointer was decided by an interval or a grounded identifier",
        true,
    );
}
