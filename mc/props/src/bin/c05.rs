//! C05 — memory regions behave as a store of non-overlapping typed cells.
//! Shape H: explicit-state search over operation histories on the REAL `MemRegion<T>` paired
//! with a reference cell store, with stateright as the engine and `mcx::bfs` as a second,
//! independent engine whose state counts must agree. Then the merge phases: all ordered pairs
//! of reached regions through `merge`, and a re-seeded search from every distinct merge result.

#[path = "../shared/c05_model.rs"]
mod c05_model;

use c05_model::*;
use mcx::{catch, par_fold, Ctx};
use props::ccl::abstract_domain::*;
use props::ccl::analysis::taint::Taint;
use serde::{Deserialize, Serialize};
use serde_json::{json, Value};
use stateright::{Checker, Model};
use std::collections::{BTreeMap, BTreeSet};
use std::sync::atomic::{AtomicU64, Ordering};
use std::sync::Mutex;

/// How the initial region of a history is obtained.
#[derive(Serialize, Deserialize, Clone, Debug, PartialEq)]
enum Init {
    Empty,
    /// `merge` of the regions produced by two histories (each from the empty region)
    Merge { a: Vec<Act>, b: Vec<Act> },
}

#[derive(Serialize, Deserialize, Clone, Debug)]
enum Case {
    /// Run `actions` from `init`, checking all invariants after every step.
    History { dom: String, init: Init, actions: Vec<Act>, lo: i64, hi: i64 },
    /// Merge the regions produced by two histories, judge the result, merge it with `b` again.
    Merge { dom: String, a: Vec<Act>, b: Vec<Act>, lo: i64, hi: i64 },
}

/// Report at most this many violations per key with full payload (the rest is only counted).
const REPORT_PER_KEY: u64 = 30;

struct Reporter<'a> {
    ctx: &'a Ctx,
    per_key: Mutex<BTreeMap<String, u64>>,
    suppressed: AtomicU64,
}

impl<'a> Reporter<'a> {
    fn new(ctx: &'a Ctx) -> Self {
        Reporter { ctx, per_key: Mutex::new(BTreeMap::new()), suppressed: AtomicU64::new(0) }
    }
    fn violation(&self, key: String, case: impl FnOnce() -> Case, detail: Value) {
        let n = {
            let mut m = self.per_key.lock().unwrap();
            let e = m.entry(key.clone()).or_insert(0);
            *e += 1;
            *e
        };
        if n <= REPORT_PER_KEY {
            self.ctx.violation(key, serde_json::to_value(case()).unwrap(), detail);
        } else {
            self.suppressed.fetch_add(1, Ordering::Relaxed);
        }
    }
    fn any(&self) -> bool {
        !self.per_key.lock().unwrap().is_empty()
    }
}

fn replay_history<T: Dom>(hist: &[Act]) -> St<T> {
    let mut s = St::<T>::empty();
    for a in hist {
        s = step(&s, a);
    }
    s.depth = 0;
    s
}

/// Classify the difference between the cells of a real merge result and the allowed ones.
fn merge_differences(real: &[(i64, u8, u8)], want: &[(i64, u8, u8)]) -> Vec<(&'static str, String)> {
    let mut out = Vec::new();
    let w: BTreeMap<i64, (u8, u8)> = want.iter().map(|(o, s, t)| (*o, (*s, *t))).collect();
    let r: BTreeMap<i64, (u8, u8)> = real.iter().map(|(o, s, t)| (*o, (*s, *t))).collect();
    for (o, (s, t)) in &r {
        match w.get(o) {
            Some((ws, wt)) if ws == s => {
                if wt != t {
                    out.push(("cell has the wrong value", format!("cell ({o},{s}) has tag {t}, expected {wt}")));
                }
            }
            _ => out.push(("keeps a cell the statement excludes", format!("cell ({o},{s},tag {t})"))),
        }
    }
    for (o, (s, t)) in &w {
        match r.get(o) {
            Some((rs, _)) if rs == s => {}
            _ => out.push(("drops a cell the statement keeps", format!("cell ({o},{s},tag {t})"))),
        }
    }
    out
}

/// Real `merge` of two reached regions, judged against the statement. Returns the merged state
/// (real region + allowed store) when the real code did not panic.
fn judge_merge<T: Dom>(out: &mut Vec<(String, Value)>, a: &St<T>, b: &St<T>, lo: i64, hi: i64, stable: &AtomicU64) -> Option<St<T>> {
    let dom = T::NAME;
    struct Sink<'x>(&'x mut Vec<(String, Value)>);
    impl<'x> Sink<'x> {
        fn violation(&mut self, key: String, _case: (), detail: Value) {
            self.0.push((key, detail));
        }
    }
    let mut rep = Sink(out);
    let case = ();
    let want = ref_merge_stores::<T>(&a.refstore, &b.refstore);
    let real = match catch(|| a.region.merge(&b.region)) {
        Ok(r) => r,
        Err(p) => {
            rep.violation(format!("{dom}: merge: panic {}", mcx::panic_site(&p)), case, json!({"observed": format!("panic: {p}")}));
            return None;
        }
    };
    let (rc, wc) = (real_cells(&real), ref_cells(&want));
    for (class, detail) in merge_differences(&rc, &wc) {
        rep.violation(format!("{dom}: merge: {class}"), case, json!({"what": detail, "a": ref_cells(&a.refstore), "b": ref_cells(&b.refstore), "observed (offset,size,tag)": rc, "allowed": wc}));
    }
    let merged = St { region: real, refstore: want, depth: 0, panic: None };
    for (inv, detail) in check_all(&merged, lo, hi) {
        if inv == INVARIANTS[3] {
            continue; // already classified above
        }
        rep.violation(format!("{dom}: after merge: {inv}"), case, json!({"what": detail, "a": ref_cells(&a.refstore), "b": ref_cells(&b.refstore)}));
    }
    // merge the result with b again (a merge whose left operand only a merge can produce)
    let want2 = ref_merge_stores::<T>(&merged.refstore, &b.refstore);
    match catch(|| merged.region.merge(&b.region)) {
        Ok(r2) => {
            let (rc2, wc2) = (real_cells(&r2), ref_cells(&want2));
            for (class, detail) in merge_differences(&rc2, &wc2) {
                rep.violation(format!("{dom}: merge(merge(a,b),b): {class}"), case, json!({"what": detail, "merge(a,b)": wc, "b": ref_cells(&b.refstore), "observed": rc2, "allowed": wc2}));
            }
            if r2 == merged.region {
                stable.fetch_add(1, Ordering::Relaxed);
            }
        }
        Err(p) => rep.violation(format!("{dom}: merge(merge(a,b),b): panic {}", mcx::panic_site(&p)), case, json!({"observed": format!("panic: {p}")})),
    }
    Some(merged)
}

/// CPU time of the calling thread in seconds (evidence only; never influences exploration).
fn thread_cpu_s() -> f64 {
    std::fs::read_to_string("/proc/thread-self/schedstat").ok().and_then(|t| t.split_whitespace().next().and_then(|n| n.parse::<f64>().ok())).map(|ns| ns / 1e9).unwrap_or(0.0)
}

struct SearchResult<T: Dom> {
    /// distinct regions in BFS order with the history that first reached them
    regions: Vec<(St<T>, usize, Vec<Act>)>,
    summary: Value,
    sr_generated: u64,
    mcx_states: u64,
    mcx_transitions: u64,
}

/// Run the model through stateright and through mcx::bfs; report invariant violations; compare counts.
fn search<T: Dom>(ctx: &Ctx, rep: &Reporter, phase: &str, cfg: &Cfg, inits: &[(St<T>, Init)], sr_threads: usize, collect_regions: bool) -> SearchResult<T> {
    let dom = T::NAME;
    let init_states: Vec<St<T>> = inits.iter().map(|(s, _)| s.clone()).collect();
    let acts = alphabet::<T>(cfg);
    let (lo, hi) = (cfg.lo, cfg.hi);

    let mut sr_out = (0usize, 0usize, 0usize, BTreeMap::<&'static str, (usize, Vec<Act>)>::new(), 0f64);
    let mut mcx_out = None;
    let mut regions: Vec<(St<T>, usize, Vec<Act>)> = Vec::new();
    let mut mcx_failed: BTreeSet<&'static str> = BTreeSet::new();
    std::thread::scope(|scope| {
        // ---- engine 1: stateright (multi-threaded BFS)
        let h = scope.spawn(|| {
            let t0 = std::time::Instant::now();
            let model = C05Model::<T>::new(cfg.clone(), init_states.clone());
            let checker = model.checker().threads(sr_threads.max(1)).spawn_bfs().join();
            let mut disc = BTreeMap::new();
            for (name, path) in checker.discoveries() {
                let v = path.into_vec();
                let first = v.first().map(|(s, _)| s.clone());
                let idx = first.and_then(|f| init_states.iter().position(|s| *s == f)).unwrap_or(0);
                let actions: Vec<Act> = v.into_iter().filter_map(|(_, a)| a).collect();
                disc.insert(name, (idx, actions));
            }
            (checker.unique_state_count(), checker.state_count(), checker.max_depth(), disc, t0.elapsed().as_secs_f64())
        });
        let t1 = std::time::Instant::now();
        let c1 = thread_cpu_s();
        // ---- engine 2: mcx::bfs (sequential, exact level order, key = canonical cell lists)
        let mut seen_regions: BTreeSet<Vec<(i64, u8, u8)>> = BTreeSet::new();
        let mut local_outcomes: BTreeSet<u64> = BTreeSet::new();
        let mut nontrivial = 0u64;
        // mcx::bfs does not tell which initial state a history started from; track it by position
        let init_keys: Vec<Key> = init_states.iter().map(state_key).collect();
        let (stats, capped) = mcx::bfs::bfs(
            init_states.clone().into_iter().enumerate().map(|(i, s)| (s, i)).collect::<Vec<(St<T>, usize)>>(),
            |(s, _)| state_key(s),
            |(s, _)| if s.panic.is_some() { Vec::new() } else { acts.clone() },
            |(s, i), a, _| Some((step(s, a), *i)),
            |(s, i), hist| {
                let _ = &init_keys;
                let fails = check_all(s, lo, hi);
                for (inv, detail) in fails {
                    mcx_failed.insert(inv);
                    let case = || Case::History { dom: dom.to_string(), init: inits[*i].1.clone(), actions: hist.to_vec(), lo, hi };
                    rep.violation(format!("{dom}: {inv}"), case, json!({"phase": phase, "what": detail, "engine": "mcx::bfs", "reference": ref_cells(&s.refstore), "real": real_cells(&s.region)}));
                }
                let cells = real_cells(&s.region);
                if local_outcomes.len() < 200_000 && local_outcomes.insert(mcx::fixed_hash(&(dom, &cells))) {
                    ctx.outcome(&(dom, &cells));
                }
                if seen_regions.insert(cells.clone()) {
                    if cells.len() >= 2 {
                        nontrivial += 1;
                    }
                    if collect_regions {
                        regions.push((St { depth: 0, ..s.clone() }, *i, hist.to_vec()));
                    }
                }
                ctx.sample(|| json!({"dom": dom, "phase": phase, "history": hist, "cells": ref_cells(&s.refstore)}));
            },
            cfg.max_depth as usize,
            200_000_000,
        );
        if capped {
            ctx.cap_hit(&format!("{dom} {phase}: mcx::bfs state cap"));
        }
        ctx.add_nontrivial(nontrivial);
        mcx_out = Some((stats, seen_regions.len(), (t1.elapsed().as_secs_f64(), thread_cpu_s() - c1)));
        sr_out = h.join().unwrap_or_else(|_| mcx::machinery("stateright thread panicked"));
    });
    let (stats, distinct_regions, mcx_wall) = mcx_out.unwrap();
    let (sr_unique, sr_generated, sr_depth, disc, sr_wall) = sr_out;

    // stateright's discoveries: the set of violated invariants must be the one mcx::bfs found
    for (name, (idx, actions)) in &disc {
        if !mcx_failed.contains(name) {
            let case = || Case::History { dom: dom.to_string(), init: inits[*idx].1.clone(), actions: actions.clone(), lo, hi };
            rep.violation(format!("{dom}: {name}"), case, json!({"phase": phase, "engine": "stateright only"}));
        }
    }
    let clean = disc.is_empty() && mcx_failed.is_empty();
    if clean && sr_unique as u64 != stats.states {
        mcx::machinery(&format!("C05 {dom} {phase}: engines disagree on the number of unique states: stateright {sr_unique}, mcx::bfs {}", stats.states));
    }
    let sr_transitions = sr_generated as u64 - init_states.len() as u64;
    if clean && sr_transitions != stats.transitions {
        mcx::machinery(&format!("C05 {dom} {phase}: engines disagree on the number of transitions: stateright {sr_transitions}, mcx::bfs {}", stats.transitions));
    }
    ctx.add_states(stats.states);
    ctx.add_transitions(stats.transitions + sr_transitions);
    let summary = json!({
        "alphabet_size": acts.len(),
        "initial_states": init_states.len(),
        "depth_bound": cfg.max_depth,
        "stateright": {"unique_state_count": sr_unique, "state_count": sr_generated, "transitions": sr_transitions, "max_depth": sr_depth, "threads": sr_threads, "wall_s": sr_wall, "properties_with_discovery": disc.keys().collect::<Vec<_>>()},
        "mcx_bfs": {"unique_states": stats.states, "transitions": stats.transitions, "max_depth": stats.max_depth, "per_depth": stats.per_depth, "wall_s": mcx_wall.0, "cpu_s": mcx_wall.1, "invariants_violated": mcx_failed.iter().collect::<Vec<_>>()},
        "distinct_regions": distinct_regions,
        "note": "a state is (real region, reference store, steps used); every action is enabled in every state, so the count is the sum over k of the regions reachable in exactly k steps",
    });
    SearchResult { regions, summary, sr_generated: sr_generated as u64, mcx_states: stats.states, mcx_transitions: stats.transitions }
}

struct Plan {
    /// searches from the empty region: (label, alphabet + depth)
    main: Vec<(&'static str, Cfg)>,
    merge_cfg: Cfg,
    /// only merge results of regions whose history is at most this long are used as seeds
    seed_pair_depth: usize,
    reseed_depth: u8,
}

fn plan(thorough: bool) -> Plan {
    let env = |k: &str, d: i64| std::env::var(k).ok().and_then(|v| v.parse().ok()).unwrap_or(d);
    let narrow = |depth: i64| Cfg { lo: env("C05_LO", -1), hi: env("C05_HI", 6), sizes: vec![1, 2, 4, 8], insert_all_tags: false, spans: vec![0, 3], interval_sizes: vec![1, 4], shifts: vec![1, -1, 4, -4], max_depth: env("C05_DEPTH", depth) as u8 };
    let wide = |depth: i64| Cfg { lo: -2, hi: 10, sizes: vec![1, 2, 4, 8], insert_all_tags: true, spans: vec![0, 2, 5], interval_sizes: vec![1, 4], shifts: vec![1, -1, 4, -4], max_depth: env("C05_WDEPTH", depth) as u8 };
    let merge_cfg = |depth: i64| Cfg { lo: 0, hi: env("C05_MHI", 4), sizes: vec![1, 2, 4, 8], insert_all_tags: false, spans: vec![0, 3], interval_sizes: vec![1], shifts: vec![1, -4], max_depth: env("C05_MDEPTH", depth) as u8 };
    if thorough {
        Plan { main: vec![("search (offsets -1..6, depth 5)", narrow(5)), ("search (offsets -2..10, depth 4)", wide(4))], merge_cfg: merge_cfg(3), seed_pair_depth: 2, reseed_depth: env("C05_RDEPTH", 2) as u8 }
    } else {
        Plan { main: vec![("search (offsets -1..6, depth 4)", narrow(4))], merge_cfg: merge_cfg(2), seed_pair_depth: 2, reseed_depth: env("C05_RDEPTH", 1) as u8 }
    }
}

/// All phases for one value domain. `threads` = worker threads this domain may use.
fn run_domain<T: Dom>(ctx: &Ctx, rep: &Reporter, plan: &Plan, threads: usize) -> Value {
    let dom = T::NAME;
    let empty = vec![(St::<T>::empty(), Init::Empty)];
    // ---- phase A: search from the empty region
    let mut searches = serde_json::Map::new();
    for (label, cfg) in &plan.main {
        let a = search::<T>(ctx, rep, label, cfg, &empty, threads, false);
        let _ = (a.sr_generated, a.mcx_states, a.mcx_transitions);
        searches.insert(label.to_string(), a.summary);
    }
    // ---- phase B: all ordered pairs of the regions reached with the merge alphabet
    let m = search::<T>(ctx, rep, "regions for merge", &plan.merge_cfg, &empty, threads, true);
    let regs = &m.regions;
    let n = regs.len() as u64;
    let (lo, hi) = (plan.merge_cfg.lo, plan.merge_cfg.hi);
    let stable = AtomicU64::new(0);
    // per worker: distinct merge results with their smallest (i,j), and per violation key the first
    // (= smallest, every worker sees increasing i) REPORT_PER_KEY pairs; merged and sorted afterwards so
    // that what is reported does not depend on thread scheduling
    type Results = BTreeMap<Vec<(i64, u8, u8)>, (u64, u64)>;
    type Viols = BTreeMap<String, (u64, Vec<((u64, u64), Value)>)>;
    let merged_acc: Mutex<(Results, Viols)> = Mutex::new((BTreeMap::new(), BTreeMap::new()));
    let pair_job = |acc: &mut (Results, Viols), i: u64| {
        let (sa, _, ha) = &regs[i as usize];
        let mut found = Vec::new();
        for j in 0..n {
            let (sb, _, hb) = &regs[j as usize];
            found.clear();
            let merged = judge_merge::<T>(&mut found, sa, sb, lo, hi, &stable);
            for (key, detail) in found.drain(..) {
                let e = acc.1.entry(key).or_insert((0, Vec::new()));
                e.0 += 1;
                if e.1.len() < REPORT_PER_KEY as usize {
                    e.1.push(((i, j), detail));
                }
            }
            if ha.len() > plan.seed_pair_depth || hb.len() > plan.seed_pair_depth {
                continue;
            }
            if let Some(merged) = merged {
                let key = real_cells(&merged.region);
                let e = acc.0.entry(key).or_insert((i, j));
                if (i, j) < *e {
                    *e = (i, j);
                }
            }
        }
    };
    par_fold(
        n,
        1,
        || (BTreeMap::new(), BTreeMap::new()),
        pair_job,
        |acc: (Results, Viols)| {
            let mut r = merged_acc.lock().unwrap();
            for (k, v) in acc.0 {
                let e = r.0.entry(k).or_insert(v);
                if v < *e {
                    *e = v;
                }
            }
            for (k, (count, list)) in acc.1 {
                let e = r.1.entry(k).or_insert((0, Vec::new()));
                e.0 += count;
                e.1.extend(list);
            }
        },
    );
    let (results, viols) = merged_acc.into_inner().unwrap();
    for (key, (count, mut list)) in viols {
        list.sort_by(|a, b| a.0.cmp(&b.0));
        list.truncate(REPORT_PER_KEY as usize);
        rep.suppressed.fetch_add(count - list.len() as u64, Ordering::Relaxed);
        for ((i, j), detail) in list {
            let case = || Case::Merge { dom: dom.to_string(), a: regs[i as usize].2.clone(), b: regs[j as usize].2.clone(), lo, hi };
            rep.violation(key.clone(), case, detail);
        }
    }
    ctx.add_states(n * n);
    ctx.add_transitions(2 * n * n);
    ctx.stat("merge_pairs", n * n);
    ctx.stat("merge_results_stable_under_second_merge", stable.load(Ordering::Relaxed));
    // ---- phase C: re-seed the search with every distinct merge result
    let mut seeds: Vec<(St<T>, Init)> = Vec::new();
    let mut new_regions = 0u64;
    let known: BTreeSet<Vec<(i64, u8, u8)>> = regs.iter().map(|(s, _, _)| real_cells(&s.region)).collect();
    for (cells, (i, j)) in &results {
        let (sa, _, ha) = &regs[*i as usize];
        let (sb, _, hb) = &regs[*j as usize];
        let Ok(region) = catch(|| sa.region.merge(&sb.region)) else { continue };
        if !known.contains(cells) {
            new_regions += 1;
        }
        seeds.push((St { region, refstore: ref_merge_stores::<T>(&sa.refstore, &sb.refstore), depth: 0, panic: None }, Init::Merge { a: ha.clone(), b: hb.clone() }));
    }
    ctx.stat("distinct_merge_results", seeds.len() as u64);
    ctx.stat("merge_results_not_reached_by_the_search", new_regions);
    let mut reseed_cfg = plan.merge_cfg.clone();
    reseed_cfg.max_depth = plan.reseed_depth;
    let c = search::<T>(ctx, rep, "re-seeded from merge results", &reseed_cfg, &seeds, threads, false);
    json!({
        "searches": Value::Object(searches),
        "regions_for_merge": m.summary,
        "merge_pairs": {"regions": n, "ordered_pairs_incl_diagonal": n * n, "seeds (distinct results of pairs with histories <= seed_pair_depth)": seeds.len(), "seeds_not_reached_by_search": new_regions},
        "reseeded": c.summary,
    })
}

fn run_case_dom<T: Dom>(ctx: &Ctx, case: &Case) {
    let rep = Reporter::new(ctx);
    let stable = AtomicU64::new(0);
    match case {
        Case::Merge { a, b, lo, hi, .. } => {
            let (sa, sb) = (replay_history::<T>(a), replay_history::<T>(b));
            let mut found = Vec::new();
            judge_merge::<T>(&mut found, &sa, &sb, *lo, *hi, &stable);
            for (key, detail) in found {
                rep.violation(key, || case.clone(), detail);
            }
            ctx.add_transitions(2);
        }
        Case::History { init, actions, lo, hi, .. } => {
            let mut s = match init {
                Init::Empty => St::<T>::empty(),
                Init::Merge { a, b } => {
                    let (sa, sb) = (replay_history::<T>(a), replay_history::<T>(b));
                    let mut found = Vec::new();
                    let merged = judge_merge::<T>(&mut found, &sa, &sb, *lo, *hi, &stable);
                    for (key, detail) in found {
                        rep.violation(key, || Case::Merge { dom: T::NAME.to_string(), a: a.clone(), b: b.clone(), lo: *lo, hi: *hi }, detail);
                    }
                    match merged {
                        Some(m) => m,
                        None => return,
                    }
                }
            };
            for (k, act) in actions.iter().enumerate() {
                s = step(&s, act);
                ctx.add_transitions(1);
                for (inv, detail) in check_all(&s, *lo, *hi) {
                    let c = || case.clone();
                    rep.violation(format!("{}: {inv}", T::NAME), c, json!({"after_step": k + 1, "action": act, "what": detail, "reference": ref_cells(&s.refstore), "real": real_cells(&s.region)}));
                }
                if rep.any() {
                    break;
                }
            }
        }
    }
}

fn reference_self_check() {
    // the reference merge tables against their defining laws (idempotent, commutative, Top handling)
    fn laws<T: Dom>(tags: &[u8]) {
        for &a in tags {
            assert_eq!(T::ref_merge(a, a), a, "{}: merge not idempotent", T::NAME);
            assert!(T::from_real(&T::to_real(a, 4)) == Some((4, a)), "{}: tag {a} does not round-trip", T::NAME);
            assert!(!T::to_real(a, 4).is_top() || a == T::TOP);
            for &b in tags {
                assert_eq!(T::ref_merge(a, b), T::ref_merge(b, a));
            }
        }
        assert!(T::to_real(T::TOP, 4).is_top());
    }
    let r = catch(|| {
        laws::<BitvectorDomain>(&[1, 2]);
        laws::<Taint>(&[1]);
        laws::<Data>(&[1, 2, 3, 5, 6, 7]);
    });
    if let Err(e) = r {
        mcx::machinery(&format!("C05 reference self-check failed: {e}"));
    }
}

fn main() {
    std::env::set_var("RUST_LIB_BACKTRACE", "0");
    let ctx = Ctx::new("C05");
    reference_self_check();
    if let Some(c) = ctx.replay_case() {
        let case: Case = serde_json::from_value(c.clone()).unwrap_or_else(|e| mcx::machinery(&format!("bad case: {e}")));
        let dom = match &case {
            Case::History { dom, .. } | Case::Merge { dom, .. } => dom.clone(),
        };
        match dom.as_str() {
            "BitvectorDomain" => run_case_dom::<BitvectorDomain>(&ctx, &case),
            "Taint" => run_case_dom::<Taint>(&ctx, &case),
            "DataDomain<BitvectorDomain>" => run_case_dom::<Data>(&ctx, &case),
            other => mcx::machinery(&format!("unknown domain {other}")),
        }
        ctx.finish("replay of one case", false);
    }
    let ctx = &ctx;
    let plan = plan(ctx.thorough());
    let rep = Reporter::new(ctx);
    let threads = mcx::num_threads();
    let only = std::env::var("C05_ONLY").ok();
    let want = |n: &str| only.as_deref().map(|o| o == n).unwrap_or(true);
    let mut engines = serde_json::Map::new();
    // the three instantiations run side by side; inside each, stateright (multi-threaded) and
    // mcx::bfs (sequential) run next to each other, and the pair phase is sharded over worker threads
    let per_dom = (threads / 3).max(2);
    let (rep_ref, plan_ref) = (&rep, &plan);
    std::thread::scope(|sc| {
        let hb = want("bv").then(|| sc.spawn(move || run_domain::<BitvectorDomain>(ctx, rep_ref, plan_ref, per_dom)));
        let hd = want("data").then(|| sc.spawn(move || run_domain::<Data>(ctx, rep_ref, plan_ref, per_dom)));
        let ht = want("taint").then(|| sc.spawn(move || run_domain::<Taint>(ctx, rep_ref, plan_ref, per_dom)));
        let mut join = |name: &str, h: Option<std::thread::ScopedJoinHandle<Value>>| {
            if let Some(h) = h {
                engines.insert(name.into(), h.join().unwrap_or_else(|_| mcx::machinery("C05: a domain worker panicked")));
            }
        };
        join(BitvectorDomain::NAME, hb);
        join(Data::NAME, hd);
        join(Taint::NAME, ht);
    });
    ctx.stat("violations_counted_but_not_recorded", rep.suppressed.load(Ordering::Relaxed));
    ctx.set("engines", Value::Object(engines));
    ctx.set(
        "bounds",
        json!({
            "search_alphabets": plan.main.iter().map(|(l, c)| json!({"label": l, "alphabet": c})).collect::<Vec<_>>(),
            "seed_pair_depth": plan.seed_pair_depth,
            "merge_alphabet": plan.merge_cfg,
            "reseed_depth": plan.reseed_depth,
            "value_domains": "BitvectorDomain (Top maximal; tags: two constants), DataDomain<BitvectorDomain> (Top not maximal; tags: absolute value, pointer, and their unions with/without the top flag), Taint (Top not maximal)",
            "probes": "get for every offset from (lowest offset - 2) to (highest offset + 9) x sizes 1,2,4,8; get_unsized for every such offset",
        }),
    );
    ctx.assume("value-level semantics (merge of two values, merge with Top, is_top) are stated by the reference per domain and cross-checked at start-up; C05 judges which cells exist and which of these values they hold");
    ctx.assume("merge_write_top / mark_interval_values_as_top / mark_all_values_as_top follow their documentation: an affected cell is merged with Top and disappears only if that is Top (the statement's 'touched' cells are either gone or weakened by Top, never left unchanged)");
    ctx.assume("mark_interval_values_as_top(lo,hi,size) with lo <= hi touches the bytes [lo, hi+size); remove lengths 1,2,3,4,8; offsets and shifts as listed in bounds");
    ctx.assume("merge must produce exactly the cells the statement lists (documentation of merge_inner); keeping fewer is reported as its own class");
    ctx.finish(
        "a state is (real MemRegion, reference cell store, number of steps); every action of the alphabet is applied to every state up to the depth bound (stateright BFS and mcx::bfs, equal unique-state and transition counts required); all six invariants are evaluated in every state; then every ordered pair of regions reached with the merge alphabet is merged and judged, and the search is re-run from every distinct merge result; non-trivial = distinct regions with at least two cells",
        true,
    );
}
