//! C04 — conditional refinement never removes feasible values.
//!
//! Shape E. For every value `A`, bound `c` and refinement operation the real
//! `SpecializeByConditional` method is called; with `S = { x in γ(A) | cond(x, c) }`
//! (brute force; `cond` evaluated by `mcx::refsem::ops`):
//!   `Ok(R)`  =>  `S ⊆ γ(R)` and `R` is well-formed (width, start <=s end, stride divides, stride 0 iff singleton)
//!   `Err`    =>  `S = ∅`
//! For `intersect`, `S = γ(A) ∩ γ(B)`. Precision (`γ(R) ⊆ γ(A)`, `Err` whenever `S = ∅`) is
//! reported as statistics only: the trait documents an upper bound.
//!
//!  part 1  1 byte: every `I1` value x hint configurations x all 256 bounds x 5 operations
//!  part 2  1 byte: `intersect` over all pairs of `I1` x hint configurations
//!  part 3  widths 2,4,8: boundary-point intervals x bound alphabet x 5 operations; `intersect`
//!          over all pairs; members from the member alphabet (emptiness of `S` is decided exactly)
//!  part 4  `DataDomain<IntervalDomain>` (1 byte): absolute part x relative targets x top flag,
//!          5 operations x all 256 bounds, `intersect` over all pairs

#[path = "../shared/intervals.rs"]
mod intervals;

use intervals::*;
use mcx::refsem::ops::{self, Bin};
use mcx::{catch, panic_site, par_fold, Ctx};
use props::bv;
use props::ccl::abstract_domain::{AbstractIdentifier, AbstractLocation, DataDomain, IntervalDomain, SizedDomain, SpecializeByConditional};
use props::ccl::intermediate_representation::*;
use serde::{Deserialize, Serialize};
use serde_json::json;
use std::collections::{BTreeMap, BTreeSet};

#[derive(Serialize, Deserialize, Clone, Debug, PartialEq, Eq)]
struct DataDesc {
    /// absolute part
    abs: Option<Iv>,
    /// relative targets: (identifier number, offset)
    rel: Vec<(u8, Iv)>,
    top: bool,
}

#[derive(Serialize, Deserialize, Clone, Debug)]
enum Case {
    Bound { op: String, a: Iv, c: i64 },
    Intersect { a: Iv, b: Iv },
    DataBound { op: String, d: DataDesc, c: i64 },
    DataIntersect { a: DataDesc, b: DataDesc },
}

#[derive(Clone, Copy, PartialEq, Eq, Debug)]
enum Cond {
    Sle,
    Sge,
    Ule,
    Uge,
    Ne,
}
const CONDS: [Cond; 5] = [Cond::Sle, Cond::Sge, Cond::Ule, Cond::Uge, Cond::Ne];
impl Cond {
    fn name(self) -> &'static str {
        match self {
            Cond::Sle => "add_signed_less_equal_bound",
            Cond::Sge => "add_signed_greater_equal_bound",
            Cond::Ule => "add_unsigned_less_equal_bound",
            Cond::Uge => "add_unsigned_greater_equal_bound",
            Cond::Ne => "add_not_equal_bound",
        }
    }
    fn by_name(n: &str) -> Cond {
        *CONDS.iter().find(|c| c.name() == n).unwrap_or_else(|| mcx::machinery("unknown operation in case"))
    }
    /// Does the concrete value `x` satisfy `x <cond> c`? Evaluated by the reference semantics.
    fn holds(self, x: u128, c: u128, w: u32) -> bool {
        let r = match self {
            Cond::Sle => ops::bin(Bin::IntSLessEqual, x, w, c, w),
            Cond::Sge => ops::bin(Bin::IntSLessEqual, c, w, x, w),
            Cond::Ule => ops::bin(Bin::IntLessEqual, x, w, c, w),
            Cond::Uge => ops::bin(Bin::IntLessEqual, c, w, x, w),
            Cond::Ne => ops::bin(Bin::IntNotEqual, x, w, c, w),
        };
        r == Some(1)
    }
    fn apply<T: SpecializeByConditional>(self, d: T, c: &Bitvector) -> Result<T, String> {
        match self {
            Cond::Sle => d.add_signed_less_equal_bound(c),
            Cond::Sge => d.add_signed_greater_equal_bound(c),
            Cond::Ule => d.add_unsigned_less_equal_bound(c),
            Cond::Uge => d.add_unsigned_greater_equal_bound(c),
            Cond::Ne => d.add_not_equal_bound(c),
        }
        .map_err(|e| e.to_string())
    }
}

/// 1-byte satisfaction sets: `[cond][c]` = { x | x cond c }.
struct CondTables {
    t: Vec<Vec<Bits>>,
}
impl CondTables {
    fn new() -> CondTables {
        let t = CONDS
            .iter()
            .map(|cond| {
                (0..256u128)
                    .map(|c| {
                        let mut b = EMPTY;
                        for x in 0..256u128 {
                            if cond.holds(x, c, 1) {
                                bset(&mut b, x as u8);
                            }
                        }
                        b
                    })
                    .collect()
            })
            .collect();
        CondTables { t }
    }
    fn get(&self, cond: Cond, c: u8) -> &Bits {
        &self.t[CONDS.iter().position(|x| *x == cond).unwrap()][c as usize]
    }
}

type Real<T> = Result<Result<T, String>, String>; // Err(panic) | Ok(Err(unsat)) | Ok(Ok(value))

/// Judge one refinement result of an `IntervalDomain`.
/// `s_any`: some member of `S` (None iff `S` is empty; exact).
/// `missing(view)`: a member of `S` that is not in γ(view), if any.
fn judge_iv(ctx: &Ctx, acc: &mut Acc, name: &str, case: &dyn Fn() -> Case, w: u32, res: Real<IntervalDomain>, s_any: Option<u128>, missing: &dyn Fn(&View) -> Option<u128>) -> Option<View> {
    acc.transitions += 1;
    match res {
        Err(p) => {
            viol(ctx, acc, format!("panic {name} {}", panic_site(&p)), serde_json::to_value(case()).unwrap(), json!({"observed": format!("panic: {p}"), "expected": "Ok(refined value) or Err(unsatisfiable)"}));
            None
        }
        Ok(Err(e)) => {
            if let Some(x) = s_any {
                viol(ctx, acc, 
                    // the error text separates "declared empty" from "gave up because of an integer overflow"
                    format!("spurious-unsat {name}{}", if e.contains("Integer overflow") { " (integer overflow reported)" } else { "" }),
                    serde_json::to_value(case()).unwrap(),
                    json!({"observed": format!("Err({e})"), "expected": "Ok: the value has members that satisfy the condition", "satisfying_member": format!("{x:#x}")}),
                );
            }
            acc.outcome(&(name, "err"));
            None
        }
        Ok(Ok(d)) => {
            let view = read_back(&d);
            for (kind, text) in view.well_formed(Some(w)) {
                viol(ctx, acc, format!("wellformed {kind} {name}"), serde_json::to_value(case()).unwrap(), json!({"observed": view.render(), "broken": text}));
            }
            if view.bits_s == view.bits_e && view.bits_s == w * 8 {
                if let Some(x) = missing(&view) {
                    viol(ctx, acc, 
                        format!("soundness {name}"),
                        serde_json::to_value(case()).unwrap(),
                        json!({"observed": view.render(), "lost_member": format!("{x:#x}"), "expected": "every member of the original value that satisfies the condition is still represented"}),
                    );
                }
            }
            if s_any.is_none() {
                acc.stat("ok_although_unsatisfiable_(allowed_imprecision)", 1);
            }
            let (inside, width) = view.hint_oddities();
            if inside {
                acc.stat("result_hint_not_outside_interval", 1);
            }
            if width {
                acc.stat("result_hint_width_differs", 1);
            }
            acc.outcome(&(name, view.bits_s, view.stride, view.len()));
            Some(view)
        }
    }
}

// ---------------------------------------------------------------- 1 byte

fn bound1(ctx: &Ctx, acc: &mut Acc, ct: &CondTables, cond: Cond, iv: &Iv, dom: &IntervalDomain, gamma: &Bits, c: u8) {
    let case = || Case::Bound { op: cond.name().into(), a: iv.clone(), c: c as i8 as i64 };
    let s = band(gamma, ct.get(cond, c));
    let cb = bv(c as u128, 1);
    let res = catch(|| cond.apply(dom.clone(), &cb));
    acc.evaluations += bcount(gamma) as u64;
    if !bempty(&s) && s != *gamma {
        acc.nontrivial += 1;
    }
    let view = judge_iv(ctx, acc, cond.name(), &case, 1, res, bfirst(&s).map(|x| x as u128), &|v: &View| bfirst(&bandnot(&s, &v.gamma1())).map(|x| x as u128));
    if let Some(v) = view {
        if v.bits_s == 8 {
            let g = v.gamma1();
            if !bempty(&bandnot(&g, gamma)) {
                acc.stat("result_not_subset_of_input_(allowed_imprecision)", 1);
            }
            if g == s {
                acc.stat("exact_results", 1);
            }
        }
    }
}

fn intersect1(ctx: &Ctx, acc: &mut Acc, a: &Iv, da: &IntervalDomain, ga: &Bits, b: &Iv, db: &IntervalDomain, gb: &Bits) {
    let case = || Case::Intersect { a: a.clone(), b: b.clone() };
    let s = band(ga, gb);
    let res = catch(|| da.clone().intersect(db).map_err(|e| e.to_string()));
    acc.evaluations += 256;
    if !bempty(&s) && s != *ga && s != *gb {
        acc.nontrivial += 1;
    }
    let view = judge_iv(ctx, acc, "intersect", &case, 1, res, bfirst(&s).map(|x| x as u128), &|v: &View| bfirst(&bandnot(&s, &v.gamma1())).map(|x| x as u128));
    if let Some(v) = view {
        if v.bits_s == 8 && v.gamma1() == s {
            acc.stat("exact_results", 1);
        }
    }
}

// ---------------------------------------------------------------- wide

/// Bounds tried against a wide interval: the boundary points and the neighbourhood of the
/// interval's own end points and strides.
fn wide_bounds(iv: &Iv, thorough: bool) -> Vec<i64> {
    let mut set: BTreeSet<i128> = BTreeSet::new();
    for p in wide_points(iv.w, thorough) {
        set.insert(p as i128);
    }
    let (s, e, t) = (iv.s as i128, iv.e as i128, iv.stride as i128);
    let mid = s + (iv.count() as i128 / 2) * t;
    for base in [s, e, s + t, e - t, mid] {
        for d in [-1i128, 0, 1] {
            set.insert(base + d);
        }
    }
    set.into_iter().filter(|x| *x >= smin(iv.w) as i128 && *x <= smax(iv.w) as i128).map(|x| x as i64).collect()
}

fn bound_wide(ctx: &Ctx, acc: &mut Acc, cond: Cond, iv: &Iv, dom: &IntervalDomain, c: i64) {
    let w = iv.w;
    let case = || Case::Bound { op: cond.name().into(), a: iv.clone(), c };
    let craw = raw(c, w);
    // the member alphabet contains the extreme members in signed and unsigned order and the
    // members next to the bound, so "S is empty" is decided exactly
    let mut pts = wide_interest(w);
    pts.push(c as i128);
    let members = iv.members_alphabet(&pts, 256);
    let s: Vec<u128> = members.iter().copied().filter(|x| cond.holds(*x, craw, w)).collect();
    acc.evaluations += members.len() as u64;
    if !s.is_empty() && s.len() != members.len() {
        acc.nontrivial += 1;
    }
    let cb = bv(craw, w);
    let res = catch(|| cond.apply(dom.clone(), &cb));
    judge_iv(ctx, acc, cond.name(), &case, w, res, s.first().copied(), &|v: &View| s.iter().copied().find(|x| !v.member(*x)));
}

fn gcd(a: u128, b: u128) -> u128 {
    if b == 0 {
        a
    } else {
        gcd(b, a % b)
    }
}

/// Sample of the common members of two (well-formed) intervals of the same width, by search:
/// walk the members of the interval with the larger stride inside the overlap of the two ranges;
/// residues repeat after `small/gcd` steps, so that many steps without a hit prove emptiness.
/// Returns `None` if that would take more than `cap` steps (case is then left out).
/// `Some(vec![])` = provably empty; otherwise the smallest, some following, and the largest common members.
fn common_members(a: &Iv, b: &Iv, cap: u128) -> Option<Vec<i128>> {
    let lo = (a.s as i128).max(b.s as i128);
    let hi = (a.e as i128).min(b.e as i128);
    if lo > hi {
        return Some(vec![]);
    }
    if a.stride == 0 {
        return Some(if b.contains(a.s as i128) { vec![a.s as i128] } else { vec![] });
    }
    if b.stride == 0 {
        return Some(if a.contains(b.s as i128) { vec![b.s as i128] } else { vec![] });
    }
    // few members on one side: enumerate them
    for (small, other) in [(a, b), (b, a)] {
        if let Some(all) = small.members_all(1024) {
            let mut hits: Vec<i128> = all.iter().map(|x| ops::to_signed(*x, small.w)).filter(|x| other.contains(*x)).collect();
            if hits.len() > 6 {
                let n = hits.len();
                hits = vec![hits[0], hits[1], hits[2], hits[n - 2], hits[n - 1]];
            }
            return Some(hits);
        }
    }
    // walk the members of the interval with the larger stride, test them in the other one
    let (walk, test) = if a.stride >= b.stride { (a, b) } else { (b, a) };
    let Some(first) = walk.member_ge(lo) else { return Some(vec![]) };
    let (tw, tt) = (walk.stride as u128, test.stride as u128);
    let period = tt / gcd(tw, tt);
    if period > cap {
        return None;
    }
    let mut found: Option<i128> = None;
    let mut xv = first;
    let mut steps = 0u128;
    while xv <= hi && steps <= period {
        if test.contains(xv) {
            found = Some(xv);
            break;
        }
        xv += tw as i128;
        steps += 1;
    }
    let Some(m0) = found else { return Some(vec![]) };
    // common members repeat with the least common multiple of the strides
    let lcm = tw / gcd(tw, tt) * tt;
    let mut out = vec![m0];
    let span = (hi - m0) as u128;
    let kmax = span / lcm;
    for k in [1u128, 2, kmax.saturating_sub(1), kmax] {
        if k <= kmax {
            let m = m0 + (k * lcm) as i128;
            if !(a.contains(m) && b.contains(m)) {
                mcx::machinery("C04 oracle: lcm step left the intersection");
            }
            out.push(m);
        }
    }
    out.sort();
    out.dedup();
    Some(out)
}

fn intersect_wide(ctx: &Ctx, acc: &mut Acc, a: &Iv, da: &IntervalDomain, b: &Iv, db: &IntervalDomain) {
    let case = || Case::Intersect { a: a.clone(), b: b.clone() };
    let Some(common) = common_members(a, b, 1 << 16) else {
        acc.stat("skipped_intersection_not_decidable_by_search", 1);
        return;
    };
    let s: Vec<u128> = common.iter().map(|x| (*x as u128) & ops::mask(a.w)).collect();
    acc.evaluations += s.len() as u64 + 1;
    if !s.is_empty() && !(a.is_singleton() || b.is_singleton()) {
        acc.nontrivial += 1;
    }
    let res = catch(|| da.clone().intersect(db).map_err(|e| e.to_string()));
    judge_iv(ctx, acc, "intersect", &case, a.w, res, s.first().copied(), &|v: &View| s.iter().copied().find(|x| !v.member(*x)));
}

// ---------------------------------------------------------------- DataDomain

fn ident(n: u8) -> AbstractIdentifier {
    let name = if n == 0 { "RAX" } else { "RBX" };
    AbstractIdentifier::new(Tid::new("time0"), AbstractLocation::Register(Variable { name: name.into(), size: ByteSize::new(8), is_temp: false }))
}

fn build_data(d: &DataDesc) -> DataDomain<IntervalDomain> {
    let mut x: DataDomain<IntervalDomain> = DataDomain::new_empty(ByteSize::new(1));
    x.set_absolute_value(d.abs.as_ref().map(build));
    x.set_relative_values(d.rel.iter().map(|(n, iv)| (ident(*n), build(iv))).collect::<BTreeMap<_, _>>());
    if d.top {
        x.set_contains_top_flag();
    }
    x
}

/// What must be represented after a refinement of a `DataDomain`: per part a 1-byte set.
struct DataSet {
    abs: Bits,
    rel: BTreeMap<u8, Bits>,
    top: bool,
}
impl DataSet {
    fn of(d: &DataDesc) -> DataSet {
        DataSet { abs: d.abs.as_ref().map(|i| i.gamma1()).unwrap_or(EMPTY), rel: d.rel.iter().map(|(n, iv)| (*n, iv.gamma1())).collect(), top: d.top }
    }
    fn is_empty(&self) -> bool {
        !self.top && bempty(&self.abs) && self.rel.values().all(bempty)
    }
}

/// Judge a `DataDomain` result against the set `s` that must still be represented.
fn judge_data(ctx: &Ctx, acc: &mut Acc, name: &str, case: &dyn Fn() -> Case, res: Real<DataDomain<IntervalDomain>>, s: &DataSet) {
    acc.transitions += 1;
    let key = |k: &str| format!("{k} DataDomain::{name}");
    match res {
        Err(p) => viol(ctx, acc, format!("panic DataDomain::{name} {}", panic_site(&p)), serde_json::to_value(case()).unwrap(), json!({"observed": format!("panic: {p}")})),
        Ok(Err(e)) => {
            if !s.is_empty() {
                viol(ctx, acc, key("spurious-unsat"), serde_json::to_value(case()).unwrap(), json!({"observed": format!("Err({e})"), "expected": "Ok: something satisfying the condition remains"}));
            }
            acc.outcome(&(name, "data-err"));
        }
        Ok(Ok(r)) => {
            if r.bytesize() != ByteSize::new(1) {
                viol(ctx, acc, key("wellformed width"), serde_json::to_value(case()).unwrap(), json!({"observed_size": u64::from(r.bytesize())}));
            }
            let rtop = r.contains_top();
            let mut lost: Option<String> = None;
            if s.top && !rtop {
                lost = Some("the top flag (unknown values) was dropped".into());
            }
            let mut shape = (rtop, None, Vec::new());
            let abs_view = r.get_absolute_value().map(read_back);
            if let Some(v) = &abs_view {
                for (kind, text) in v.well_formed(Some(1)) {
                    viol(ctx, acc, key(&format!("wellformed {kind}")), serde_json::to_value(case()).unwrap(), json!({"observed": v.render(), "broken": text}));
                }
                shape.1 = Some((v.s, v.e, v.stride));
            }
            if !rtop {
                // a result with the top flag represents everything
                let g = abs_view.as_ref().filter(|v| v.bits_s == 8).map(|v| v.gamma1()).unwrap_or(EMPTY);
                if let Some(x) = bfirst(&bandnot(&s.abs, &g)) {
                    lost = Some(format!("absolute value {x:#x}"));
                }
                for (n, bits) in &s.rel {
                    let g = r.get_relative_values().get(&ident(*n)).map(read_back).filter(|v| v.bits_s == 8).map(|v| v.gamma1()).unwrap_or(EMPTY);
                    if let Some(x) = bfirst(&bandnot(bits, &g)) {
                        lost = Some(format!("relative target id{n} offset {x:#x}"));
                    }
                }
            }
            for (id, off) in r.get_relative_values() {
                let v = read_back(off);
                for (kind, text) in v.well_formed(Some(1)) {
                    viol(ctx, acc, key(&format!("wellformed {kind}")), serde_json::to_value(case()).unwrap(), json!({"relative_target": format!("{id}"), "observed": v.render(), "broken": text}));
                }
                shape.2.push((v.s, v.e, v.stride));
            }
            if let Some(l) = lost {
                viol(ctx, acc, key("soundness"), serde_json::to_value(case()).unwrap(), json!({"lost": l, "observed": r.to_json_compact(), "expected": "only the absolute part may shrink, and only by values that do not satisfy the condition"}));
            }
            acc.outcome(&(name, shape));
        }
    }
}

fn data_bound(ctx: &Ctx, acc: &mut Acc, ct: &CondTables, cond: Cond, d: &DataDesc, dom: &DataDomain<IntervalDomain>, c: u8) {
    let case = || Case::DataBound { op: cond.name().into(), d: d.clone(), c: c as i8 as i64 };
    let mut s = DataSet::of(d);
    let before = s.abs;
    s.abs = band(&s.abs, ct.get(cond, c));
    if !bempty(&s.abs) && s.abs != before {
        acc.nontrivial += 1;
    }
    acc.evaluations += 256;
    let cb = bv(c as u128, 1);
    let res = catch(|| cond.apply(dom.clone(), &cb));
    judge_data(ctx, acc, cond.name(), &case, res, &s);
}

fn data_intersect(ctx: &Ctx, acc: &mut Acc, a: &DataDesc, da: &DataDomain<IntervalDomain>, b: &DataDesc, db: &DataDomain<IntervalDomain>) {
    let case = || Case::DataIntersect { a: a.clone(), b: b.clone() };
    let (sa, sb) = (DataSet::of(a), DataSet::of(b));
    // γ(D) = absolute values ∪ (identifier, offset) pairs ∪ (everything, if the top flag is set)
    let s = match (sa.top, sb.top) {
        (true, true) => DataSet { abs: FULL, rel: BTreeMap::new(), top: true },
        (true, false) => sb,
        (false, true) => sa,
        (false, false) => DataSet {
            abs: band(&sa.abs, &sb.abs),
            rel: sa.rel.iter().filter_map(|(n, bits)| sb.rel.get(n).map(|o| (*n, band(bits, o)))).collect(),
            top: false,
        },
    };
    if !s.is_empty() && !s.top {
        acc.nontrivial += 1;
    }
    acc.evaluations += 256;
    let res = catch(|| da.clone().intersect(db).map_err(|e| e.to_string()));
    judge_data(ctx, acc, "intersect", &case, res, &s);
}

fn data_alphabet(thorough: bool) -> Vec<DataDesc> {
    let abs: Vec<Option<Iv>> = vec![
        None,
        Some(Iv::singleton(1, 0)),
        Some(Iv::singleton(1, -1)),
        Some(Iv { w: 1, s: 1, e: 7, stride: 3, lo: Some(-2), hi: Some(64), delay: 1 }),
        Some(Iv { w: 1, s: -4, e: 4, stride: 2, lo: None, hi: Some(5), delay: 0 }),
        Some(Iv::bare(1, -128, -1, 1)),
        Some(Iv::top(1)),
    ];
    let offs: Vec<Iv> = vec![Iv::singleton(1, 0), Iv::bare(1, -8, 8, 8), Iv { w: 1, s: 2, e: 6, stride: 1, lo: Some(0), hi: None, delay: 5 }, Iv::top(1)];
    let mut rels: Vec<Vec<(u8, Iv)>> = vec![vec![]];
    for o in &offs {
        rels.push(vec![(0, o.clone())]);
        rels.push(vec![(1, o.clone())]);
    }
    for (i, o0) in offs.iter().enumerate() {
        for (j, o1) in offs.iter().enumerate() {
            if thorough || (i + j) % 2 == 0 {
                rels.push(vec![(0, o0.clone()), (1, o1.clone())]);
            }
        }
    }
    let mut out = Vec::new();
    for a in &abs {
        for r in &rels {
            for top in [false, true] {
                out.push(DataDesc { abs: a.clone(), rel: r.clone(), top });
            }
        }
    }
    out
}

// ---------------------------------------------------------------- replay

fn check_iv(iv: &Iv) {
    if !(iv.w == 1 || iv.w == 2 || iv.w == 4 || iv.w == 8) || !iv.well_formed() {
        mcx::machinery("replay case holds an interval that is not well-formed (inputs of the property are well-formed values)");
    }
}
fn check_data(d: &DataDesc) {
    for iv in d.abs.iter().chain(d.rel.iter().map(|(_, i)| i)) {
        check_iv(iv);
        if iv.w != 1 {
            mcx::machinery("DataDomain cases are 1 byte wide");
        }
    }
}

fn run_case(ctx: &Ctx, ct: &CondTables, case: &Case) {
    let mut acc = Acc::default();
    acc.states = 1;
    match case {
        Case::Bound { op, a, c } => {
            check_iv(a);
            let cond = Cond::by_name(op);
            let dom = build(a);
            if a.w == 1 {
                bound1(ctx, &mut acc, ct, cond, a, &dom, &a.gamma1(), *c as u8);
            } else {
                bound_wide(ctx, &mut acc, cond, a, &dom, *c);
            }
        }
        Case::Intersect { a, b } => {
            check_iv(a);
            check_iv(b);
            if a.w != b.w {
                mcx::machinery("intersect of different widths is outside of the property");
            }
            let (da, db) = (build(a), build(b));
            if a.w == 1 {
                intersect1(ctx, &mut acc, a, &da, &a.gamma1(), b, &db, &b.gamma1());
            } else {
                intersect_wide(ctx, &mut acc, a, &da, b, &db);
            }
        }
        Case::DataBound { op, d, c } => {
            check_data(d);
            data_bound(ctx, &mut acc, ct, Cond::by_name(op), d, &build_data(d), *c as u8);
        }
        Case::DataIntersect { a, b } => {
            check_data(a);
            check_data(b);
            data_intersect(ctx, &mut acc, a, &build_data(a), b, &build_data(b));
        }
    }
    acc.flush(ctx);
}

/// The search oracle for intersections is validated against plain bit sets on all 1-byte pairs.
fn self_check_common_members(elems: &[Vec<Elem>]) -> u64 {
    let mut n = 0;
    for a in elems {
        for b in elems {
            let (a, b) = (&a[0], &b[0]);
            let s = band(&a.gamma, &b.gamma);
            let got = common_members(&a.iv, &b.iv, 1 << 16).unwrap_or_else(|| mcx::machinery("C04 oracle self check: undecided at 1 byte"));
            let signed: Vec<i128> = {
                let mut v: Vec<i128> = bvec(&s).iter().map(|x| *x as i8 as i128).collect();
                v.sort();
                v
            };
            let ok = got.iter().all(|x| signed.contains(x)) && got.is_empty() == signed.is_empty() && got.first() == signed.first() && got.last() == signed.last();
            if !ok {
                mcx::machinery(&format!("C04 oracle self check failed for {} and {}", a.iv.render(), b.iv.render()));
            }
            n += 1;
        }
    }
    n
}

fn main() {
    let ctx = Ctx::new("C04");
    match ops::self_check() {
        Ok(n) => ctx.stat("refsem_self_check_vectors", n),
        Err(e) => mcx::machinery(&e),
    }
    let ct = CondTables::new();
    if let Some(c) = ctx.replay_case() {
        let case: Case = serde_json::from_value(c.clone()).unwrap_or_else(|e| mcx::machinery(&format!("bad case: {e}")));
        run_case(&ctx, &ct, &case);
        ctx.finish("replay of one case", false);
    }
    let ctx = &ctx;
    let ct = &ct;
    let thorough = ctx.thorough();

    // ------------------------------------------------------------------ part 1: bounds, 1 byte
    let elems = i1_elems(thorough);
    ctx.stat("oracle_self_check_intersections", self_check_common_members(&elems));
    let flat: Vec<&Elem> = elems.iter().flatten().collect();
    ctx.set("i1_intervals", json!(elems.len()));
    ctx.set("i1_values_with_hints", json!(flat.len()));
    // a few cases for the evidence file, picked sequentially (independent of thread scheduling)
    for k in 0..=1000u64 {
        let m = flat.len() as u64;
        let (a, b) = (flat[((k * 37) % m) as usize], flat[((k * 101) % m) as usize]);
        ctx.sample(|| match k % 2 {
            0 => serde_json::to_value(Case::Bound { op: CONDS[(k % 5) as usize].name().into(), a: a.iv.clone(), c: ((k * 7) % 256) as u8 as i8 as i64 }).unwrap(),
            _ => serde_json::to_value(Case::Intersect { a: a.iv.clone(), b: b.iv.clone() }).unwrap(),
        });
    }
    {
        let flat = &flat;
        par_fold(
            flat.len() as u64,
            1,
            Acc::default,
            |acc, i| {
                acc.at(100, i);
                let e = flat[i as usize];
                for cond in CONDS {
                    for c in 0..=255u8 {
                        acc.states += 1;
                        bound1(ctx, acc, ct, cond, &e.iv, &e.dom, &e.gamma, c);
                    }
                }
            },
            |acc| acc.flush(ctx),
        );
    }
    // ------------------------------------------------------------------ part 2: intersect, 1 byte
    {
        let n = elems.len() as u64;
        let elems = &elems;
        par_fold(
            n * n,
            32,
            Acc::default,
            |acc, idx| {
                acc.at(200, idx);
                let (i, j) = ((idx / n) as usize, (idx % n) as usize);
                for ea in &elems[i] {
                    for eb in &elems[j] {
                        acc.states += 1;
                        intersect1(ctx, acc, &ea.iv, &ea.dom, &ea.gamma, &eb.iv, &eb.dom, &eb.gamma);
                    }
                }
            },
            |acc| acc.flush(ctx),
        );
    }
    // ------------------------------------------------------------------ thorough: EVERY 1-byte interval
    if thorough {
        let all1 = all1_bare();
        ctx.set("all_1_byte_intervals", json!(all1.len()));
        let partners: Vec<Elem> = i1_bare(false).into_iter().enumerate().map(|(idx, b)| elem1(b, idx, 0, &GRID_QUICK)).collect();
        let (all1, partners) = (&all1, &partners);
        par_fold(
            all1.len() as u64,
            16,
            Acc::default,
            |acc, i| {
                acc.at(300, i);
                let bare = all1[i as usize];
                // bounds: every hint configuration x every bound x 5 operations
                for iv in with_hints(1, bare, i as usize, &GRID) {
                    let (dom, gamma) = (build(&iv), iv.gamma1());
                    for cond in CONDS {
                        for c in 0..=255u8 {
                            acc.states += 1;
                            bound1(ctx, acc, ct, cond, &iv, &dom, &gamma, c);
                        }
                    }
                }
                // intersect with every interval of the quick I1, both orders, one hint configuration
                let e = elem1(bare, i as usize, i as usize, &GRID);
                for p in partners.iter() {
                    acc.states += 2;
                    intersect1(ctx, acc, &e.iv, &e.dom, &e.gamma, &p.iv, &p.dom, &p.gamma);
                    intersect1(ctx, acc, &p.iv, &p.dom, &p.gamma, &e.iv, &e.dom, &e.gamma);
                }
            },
            |acc| acc.flush(ctx),
        );
    }
    // ------------------------------------------------------------------ part 3: widths 2, 4, 8
    let mut wide_counts = serde_json::Map::new();
    for w in [2u32, 4, 8] {
        let bare = wide_bare(w, thorough);
        // every hint configuration of every interval for the bound operations
        let all: Vec<Iv> = bare.iter().enumerate().flat_map(|(idx, b)| wide_with_hints(w, *b, idx, thorough)).collect();
        let all_doms: Vec<IntervalDomain> = all.iter().map(build).collect();
        wide_counts.insert(format!("w{w}_values_with_hints"), json!(all.len()));
        {
            let (all, all_doms) = (&all, &all_doms);
            par_fold(
                all.len() as u64,
                2,
                Acc::default,
                |acc, i| {
                    acc.at(400 + w, i);
                    let (iv, dom) = (&all[i as usize], &all_doms[i as usize]);
                    for c in wide_bounds(iv, thorough) {
                        for cond in CONDS {
                            acc.states += 1;
                            bound_wide(ctx, acc, cond, iv, dom, c);
                        }
                    }
                },
                |acc| acc.flush(ctx),
            );
        }
        // intersect: all pairs, one hint configuration each
        let one: Vec<Iv> = bare
            .iter()
            .enumerate()
            .map(|(idx, b)| {
                let cfgs = wide_with_hints(w, *b, idx, thorough);
                cfgs[idx % cfgs.len()].clone()
            })
            .collect();
        let one_doms: Vec<IntervalDomain> = one.iter().map(build).collect();
        wide_counts.insert(format!("w{w}_intervals"), json!(one.len()));
        let nn = one.len() as u64;
        let (one, one_doms) = (&one, &one_doms);
        par_fold(
            nn * nn,
            256,
            Acc::default,
            |acc, idx| {
                acc.at(500 + w, idx);
                let (i, j) = ((idx / nn) as usize, (idx % nn) as usize);
                acc.states += 1;
                intersect_wide(ctx, acc, &one[i], &one_doms[i], &one[j], &one_doms[j]);
            },
            |acc| acc.flush(ctx),
        );
    }
    ctx.set("wide", serde_json::Value::Object(wide_counts));
    // ------------------------------------------------------------------ part 4: DataDomain
    let datas = data_alphabet(thorough);
    let data_doms: Vec<DataDomain<IntervalDomain>> = datas.iter().map(build_data).collect();
    ctx.set("data_domain_values", json!(datas.len()));
    {
        let (datas, data_doms) = (&datas, &data_doms);
        let n = datas.len() as u64;
        par_fold(
            n,
            1,
            Acc::default,
            |acc, i| {
                acc.at(600, i);
                let (d, dom) = (&datas[i as usize], &data_doms[i as usize]);
                for cond in CONDS {
                    for c in 0..=255u8 {
                        acc.states += 1;
                        data_bound(ctx, acc, ct, cond, d, dom, c);
                    }
                }
            },
            |acc| acc.flush(ctx),
        );
        par_fold(
            n * n,
            64,
            Acc::default,
            |acc, idx| {
                acc.at(700, idx);
                let (i, j) = ((idx / n) as usize, (idx % n) as usize);
                acc.states += 1;
                data_intersect(ctx, acc, &datas[i], &data_doms[i], &datas[j], &data_doms[j]);
            },
            |acc| acc.flush(ctx),
        );
    }
    ctx.set(
        "bounds",
        json!({
            "part1": "1 byte: every I1 value (grid end points, strides 0,1,2,3,4,5,8,16,64, anchored short intervals, Top) x hint configurations x every bound 0..=255 x {signed <=, signed >=, unsigned <=, unsigned >=, !=}; S computed over all 256 values",
            "part2": "1 byte: intersect over all pairs of I1 x all hint configuration pairs; S = bitwise intersection",
            "part3": "widths 2,4,8: boundary-point intervals x all hint configurations x bounds (boundary points and the neighbourhood of start, end, start+stride, end-stride, middle) x 5 operations; intersect over all pairs (one hint configuration each); members = all if <= 256, else the member alphabet incl. the neighbours of the bound and of 0/-1/min/max (emptiness of S exact, S ⊆ γ(R) over the alphabet only)",
            "part4": "DataDomain<IntervalDomain>, 1 byte: {no absolute value, 6 intervals} x {no, one or two relative targets with offsets from 4 intervals} x top flag; 5 operations x every bound; intersect over all pairs",
            "thorough_only": "EVERY well-formed 1-byte interval (170 700: all starts, all strides, all lengths) x hint configurations x every bound x 5 operations; intersect of each of them with every interval of the quick I1, both orders",
            "grid": if thorough { GRID.to_vec() } else { GRID_QUICK.to_vec() },
            "strides": STRIDES,
        }),
    );
    ctx.assume("inputs are well-formed interval values with widening hints strictly outside the interval (hints need not lie on the stride); bound and value have the same width");
    ctx.assume("precision is not required: Ok(R) with γ(R) not a subset of γ(A), or Ok although nothing satisfies the condition, are counted as statistics only (the trait documents an upper bound)");
    ctx.assume("DataDomain: γ(D) = absolute values ∪ (identifier, offset) pairs, everything if the top flag is set; distinct identifiers denote distinct bases (the reading of DESIGN.md)");
    ctx.assume("widths 2,4,8: intersections whose emptiness cannot be decided by a search of <= 65536 steps are left out (counted in stats; 0 for the stride alphabet used)");
    emit_violations(ctx);
    ctx.finish(
        "one case = (operation, value incl. hints, bound) or (intersect, value, value); the real method is called once per case and its Ok/Err result judged against S = members satisfying the condition; non-trivial = S is neither empty nor all of γ(A) (the condition really splits the value)",
        true,
    );
}
