//! C11 — lifting P-Code to the IR preserves behaviour.
//! Shape E: every block of the finite P-Code block space (`shared/pcode_space.rs`)
//! is executed by the independent raw P-Code interpreter (byte-array register
//! file) and, after the real `pcode::Project::normalize` + `into_ir_project`,
//! by the independent IR interpreter, from every initial state of a small
//! state alphabet; final base-register bytes, load/store sequences and the
//! block exit (branch decision / targets) must agree.

#[path = "../shared/pcode_space.rs"]
mod pcode_space;

use mcx::{catch, par_for, Ctx};
use pcode_space::*;
use props::ccl::intermediate_representation as ir;
use props::ccl::pcode as pc;
use props::ir_interp::{Abort, Event, Machine};
use props::pcode::*;
use serde_json::json;

const SEED: u64 = 7;

fn init_states() -> Vec<Vec<(&'static str, u128)>> {
    let base = vec![
        ("RAX", 0x1122_3344_5566_7788u128),
        ("RBX", 0x99aa_bbcc_ddee_ff00),
        ("RCX", 0x0102_0304_0506_0708),
        ("RDI", 0x2000_0000_0000_1000),
        ("RSI", 0x0000_0000_0040_0000),
        ("RDX", 0xffff_ffff_ffff_fff0),
        ("RSP", 0x0000_7fff_0000_0000),
        ("RBP", 0x0000_7fff_0000_0100),
        ("ZF", 0),
        ("CF", 1),
        ("SF", 0),
    ];
    let mut s1 = base.clone();
    s1[0].1 = 0x8090_a0b0_c0d0_e0f1; // every byte of RAX negative
    s1[1].1 = 0x0011_2233_4455_6677;
    s1[8].1 = 1;
    s1[9].1 = 0;
    let mut s2 = base.clone();
    s2[0].1 = 0x0000_0000_0000_0001;
    s2[1].1 = 0x0000_0000_0000_0001;
    s2[10].1 = 1;
    let mut s3 = base.clone();
    s3[0].1 = 0x7fff_ffff_8000_00ff;
    s3[1].1 = 0xffff_ffff_ffff_ffff;
    let mut s4 = base.clone();
    s4[0].1 = 0xffff_ffff_ffff_ff00;
    s4[1].1 = 0x0000_0000_8000_0000;
    s4[2].1 = 0x8000_0000_0000_0000;
    let mut s5 = base.clone();
    s5[0].1 = 0x0000_0000_ffff_ffff;
    s5[1].1 = 0x0000_0001_0000_0000;
    s5[8].1 = 1;
    s5[9].1 = 1;
    s5[10].1 = 1;
    if std::env::args().any(|a| a == "thorough") || std::env::var("VERIF_TIER").ok().as_deref() == Some("thorough") {
        vec![base, s1, s2, s3, s4, s5]
    } else {
        vec![base, s1, s2, s3]
    }
}

fn lift(raw: &pc::Project) -> Result<ir::Project, String> {
    catch(|| {
        let mut p = raw.clone();
        let _ = p.normalize();
        p.into_ir_project(0x10000)
    })
}

/// Execute one lifted IR block; returns (load/store events, exit).
fn run_ir_block(m: &mut Machine, blk: &ir::Term<ir::Blk>) -> (Vec<PEvent>, PExit) {
    let mut ev = Vec::new();
    let conv = |e: &Event| match e {
        Event::Load { addr, size, value } => Some(PEvent::Load { addr: *addr, size: *size, value: *value }),
        Event::Store { addr, size, value } => Some(PEvent::Store { addr: *addr, size: *size, value: *value }),
        _ => None,
    };
    for d in &blk.term.defs {
        let mut e = Vec::new();
        let r = m.exec_def(&d.term, &mut e);
        ev.extend(e.iter().filter_map(conv));
        if let Err(a) = r {
            return (ev, PExit::Abort(a));
        }
    }
    for j in &blk.term.jmps {
        let val = |m: &Machine, e: &ir::Expression| m.eval(e);
        match &j.term {
            ir::Jmp::Branch(t) => return (ev, PExit::Goto(format!("{t}"))),
            ir::Jmp::CBranch { target, condition } => match val(m, condition) {
                Err(a) => return (ev, PExit::Abort(a)),
                Ok(c) => {
                    if c != 0 {
                        return (ev, PExit::Goto(format!("{target}")));
                    }
                }
            },
            ir::Jmp::BranchInd(e) => return (ev, val(m, e).map(PExit::BranchInd).unwrap_or_else(PExit::Abort)),
            ir::Jmp::Return(e) => return (ev, val(m, e).map(PExit::Return).unwrap_or_else(PExit::Abort)),
            ir::Jmp::Call { target, return_ } => return (ev, PExit::Call { target: format!("{target}"), ret: return_.as_ref().map(|t| format!("{t}")) }),
            ir::Jmp::CallInd { target, return_ } => {
                let ret = return_.as_ref().map(|t| format!("{t}"));
                return (ev, val(m, target).map(|v| PExit::CallInd { target: v, ret }).unwrap_or_else(PExit::Abort));
            }
            ir::Jmp::CallOther { description, return_ } => return (ev, PExit::CallOther { desc: description.clone(), ret: return_.as_ref().map(|t| format!("{t}")) }),
        }
    }
    (ev, PExit::FallOff)
}

fn out_kind(v: &Option<pc::Variable>) -> &'static str {
    let Some(v) = v else { return "none" };
    if v.address.is_some() {
        return "ram";
    }
    if v.is_virtual {
        return "temp";
    }
    let name = v.name.as_deref().unwrap_or("");
    match REGISTER_TABLE.iter().find(|(r, ..)| *r == name) {
        Some((r, b, _lsb, size)) => {
            if r == b && *size == u64::from(v.size) {
                "base"
            } else if r == b {
                "samename-smaller"
            } else {
                "subreg"
            }
        }
        None => "unknown",
    }
}
fn describe(case: &BlockCase) -> String {
    let d: Vec<String> = case.defs.iter().map(|d| format!("{:?}>{}", d.rhs.mnemonic, out_kind(&d.lhs))).collect();
    let j: Vec<String> = case.jmps.iter().map(|j| format!("{:?}", j.mnemonic)).collect();
    format!("[{}|{}]", d.join(";"), j.join(";"))
}
fn render_ir(blk: &ir::Term<ir::Blk>) -> String {
    format!("{}", blk.term)
}

/// Compare one case (already lifted: `ir_blk`) in every initial state.
fn judge(ctx: &Ctx, case: &BlockCase, raw_blk: &pc::Blk, irp: &ir::Project, ir_blk: &ir::Term<ir::Blk>) {
    let case_json = || serde_json::to_value(case).unwrap();
    for (si, st) in init_states().iter().enumerate() {
        let mut pm = PMachine::new(SEED);
        let mut im = Machine::new(SEED, true, 8);
        for (r, v) in st {
            pm.set_base(r, *v);
            let size = REGISTER_TABLE.iter().find(|(n, ..)| n == r).unwrap().3;
            im.set_init(&props::irb::var(r, size), *v);
        }
        let (pev, pexit) = pm.exec_block(raw_blk);
        ctx.add_evaluations(1);
        match &pexit {
            PExit::Abort(Abort::Undefined(_)) => {
                ctx.stat("runs_skipped_undefined_in_pcode", 1);
                continue;
            }
            PExit::Abort(Abort::IllTyped(s)) => mcx::machinery(&format!("generator produced ill-typed P-Code: {s} in {}", case.label)),
            _ => (),
        }
        let (iev, iexit) = run_ir_block(&mut im, ir_blk);
        ctx.outcome(&(format!("{pexit:?}"), pev.len()));
        let mut problems = Vec::new();
        if let PExit::Abort(a) = &iexit {
            problems.push(format!("IR block aborts: {a:?}"));
        } else {
            if pexit != iexit {
                problems.push(format!("exit differs: pcode={pexit:?} ir={iexit:?}"));
            }
            if pev != iev {
                problems.push(format!("memory access sequence differs: pcode={pev:x?} ir={iev:x?}"));
            }
            for r in irp.register_set.iter() {
                let want = pm.get_base(&r.name);
                let got = im.read_var(r);
                if want != got {
                    problems.push(format!("final {}: pcode={want:#x} ir={got:#x}", r.name));
                }
            }
        }
        if !problems.is_empty() {
            let kind = if problems[0].starts_with("IR block aborts") {
                "ir-aborts"
            } else if problems[0].starts_with("exit") {
                "exit differs"
            } else if problems[0].starts_with("memory") {
                "memory accesses differ"
            } else {
                "registers differ"
            };
            ctx.violation(format!("lift {kind}: {}", describe(case)), case_json(), json!({"label": case.label, "initial_state": si, "problems": problems, "lifted_ir": render_ir(ir_blk)}));
            return;
        }
    }
}

fn run_batch(ctx: &Ctx, cases: &[BlockCase]) {
    let (raw, addrs) = project_for(cases);
    match lift(&raw) {
        Ok(irp) => {
            ctx.add_transitions(cases.len() as u64);
            let sub = irp.program.term.subs.values().find(|s| s.term.name == "f").unwrap_or_else(|| mcx::machinery("lifted function f missing"));
            let raw_sub = raw.program.term.subs.iter().find(|s| s.term.name == "f").unwrap();
            for (i, case) in cases.iter().enumerate() {
                let tid = blk_tid(&addrs[i]);
                let Some(ir_blk) = sub.term.blocks.iter().find(|b| b.tid == tid) else {
                    ctx.violation("lift dropped a block", serde_json::to_value(case).unwrap(), json!({"label": case.label}));
                    continue;
                };
                let raw_blk = &raw_sub.term.blocks.iter().find(|b| b.tid == tid).unwrap().term;
                judge(ctx, case, raw_blk, &irp, ir_blk);
            }
        }
        Err(p) => {
            if cases.len() == 1 {
                ctx.add_transitions(1);
                ctx.violation(format!("lift panic {}: {}", mcx::panic_site(&p), describe(&cases[0])), serde_json::to_value(&cases[0]).unwrap(), json!({"label": cases[0].label, "panic": p}));
            } else {
                for c in cases {
                    run_batch(ctx, std::slice::from_ref(c));
                }
            }
        }
    }
}

fn main() {
    let ctx = Ctx::new("C11");
    if let Err(e) = mcx::refsem::ops::self_check() {
        mcx::machinery(&e);
    }
    if let Some(c) = ctx.replay_case() {
        let case: BlockCase = serde_json::from_value(c.clone()).unwrap_or_else(|e| mcx::machinery(&format!("bad case: {e}")));
        run_batch(&ctx, &[case]);
        ctx.finish("replay of one case", false);
    }
    let ctx = &ctx;
    let cases = all_cases(ctx.thorough());
    let n = cases.len() as u64;
    const BATCH: u64 = 128;
    let batches = (n + BATCH - 1) / BATCH;
    par_for(batches, 1, |b| {
        let lo = (b * BATCH) as usize;
        let hi = ((b + 1) * BATCH).min(n) as usize;
        for c in &cases[lo..hi] {
            ctx.sample(|| json!({"label": c.label, "defs": c.defs.iter().map(|d| format!("{:?} <- {:?}({:?},{:?},{:?})", d.lhs.as_ref().map(short_var), d.rhs.mnemonic, d.rhs.input0.as_ref().map(short_var), d.rhs.input1.as_ref().map(short_var), d.rhs.input2.as_ref().map(short_var))).collect::<Vec<_>>(), "jmps": c.jmps.iter().map(|j| format!("{:?}", j.mnemonic)).collect::<Vec<_>>()}));
            let sub_or_ram = c.defs.iter().any(|d| matches!(out_kind(&d.lhs), "subreg" | "samename-smaller" | "ram")) || c.defs.iter().any(|d| [&d.rhs.input0, &d.rhs.input1, &d.rhs.input2].iter().any(|v| matches!(out_kind(v), "subreg" | "samename-smaller" | "ram")));
            if sub_or_ram || !c.jmps.is_empty() {
                ctx.add_nontrivial(1);
            }
        }
        ctx.add_states((hi - lo) as u64);
        run_batch(ctx, &cases[lo..hi]);
    });
    ctx.set("bounds", json!({"cases": n, "layers": "every single instruction over the varnode table; (sub-register write | load) x (cast | copy) pairs; every jump kind with register/sub-register/temporary/RAM operands, with and without a defining def; triples (thorough) or pairs (quick) over a 16-letter alphabet", "initial_states": init_states().len(), "batch": BATCH}));
    ctx.assume("the P-Code is size-consistent as Ghidra emits it; booleans are 0/1; runs that hit a division by zero / non-boolean operand in the raw P-Code are skipped (counted)");
    ctx.assume("floating point operations are uninterpreted functions of their operand values (same function on both sides)");
    ctx.assume("registers are little-endian byte ranges of their base register (x86-like table incl. a top-aligned, a middle and same-name smaller sub-registers)");
    ctx.finish("one case per raw P-Code block of the enumerated space; each is lifted by the real code and both forms are executed from every initial state; non-trivial = involves a sub-register, same-name smaller register, RAM operand or a jump", true);
}

fn short_var(v: &pc::Variable) -> String {
    if let Some(n) = &v.name {
        format!("{n}:{}", u64::from(v.size))
    } else if let Some(c) = &v.value {
        format!("0x{c}:{}", u64::from(v.size))
    } else {
        format!("ram[{}]:{}", v.address.clone().unwrap_or_default(), u64::from(v.size))
    }
}
