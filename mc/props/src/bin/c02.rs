//! C02 — interval transfer functions are sound and well-formed.
//!
//! Shape E. Every element of the following finite spaces is run through the real
//! `IntervalDomain::{bin_op, un_op, cast, subpiece}`; the result is read back through serde and
//! judged by (1) soundness: every concrete result (computed by `mcx::refsem::ops`) of concrete
//! members of the inputs is a member of the abstract result, (2) well-formedness exactly as the
//! statement lists it: width, start <=s end, (end-start) divisible by the stride, stride 0 exactly
//! for singletons.
//!
//!  part 1  1-byte: all pairs of `I1` x hint configurations x all 34 binary ops, ALL member pairs
//!  part 2  1-byte: all of `I1` x hints x every unary op, cast (to 1,2,4,8), subpiece
//!  part 3  2-byte intervals with <= 256 members (shifted/extended `I1` intervals), ALL members:
//!          unary ops, casts, every subpiece, binary ops against a fixed set of 2-byte operands,
//!          piece with 1- and 2-byte operands
//!  part 4  widths 2,4,8: intervals over the boundary points, all pairs x all binary ops
//!          (plus shifts by 1-byte amounts, piece for all width pairs <= 16), unary, casts,
//!          subpiece; members from the *member alphabet* (not all members)

#[path = "../shared/intervals.rs"]
mod intervals;

use intervals::*;
use mcx::refsem::ops::{self, Bin, Cast, Un};
use mcx::{catch, par_fold, panic_site, Ctx};
use props::ccl::abstract_domain::{IntervalDomain, RegisterDomain};
use props::ccl::intermediate_representation::*;
use serde::{Deserialize, Serialize};
use serde_json::json;

#[derive(Serialize, Deserialize, Clone, Debug)]
enum Case {
    Bin { op: String, a: Iv, b: Iv },
    Un { op: String, a: Iv },
    Cast { op: String, a: Iv, to: u32 },
    Subpiece { a: Iv, low: u32, size: u32 },
}

const ALL_BINOPS: [BinOpType; 34] = {
    use BinOpType::*;
    [
        Piece, IntEqual, IntNotEqual, IntLess, IntSLess, IntLessEqual, IntSLessEqual, IntAdd, IntSub, IntCarry,
        IntSCarry, IntSBorrow, IntXOr, IntAnd, IntOr, IntLeft, IntRight, IntSRight, IntMult, IntDiv, IntRem, IntSDiv,
        IntSRem, BoolXOr, BoolAnd, BoolOr, FloatEqual, FloatNotEqual, FloatLess, FloatLessEqual, FloatAdd, FloatSub,
        FloatMult, FloatDiv,
    ]
};
const ALL_UNOPS: [UnOpType; 10] = {
    use UnOpType::*;
    [IntNegate, Int2Comp, BoolNegate, FloatNegate, FloatAbs, FloatSqrt, FloatCeil, FloatFloor, FloatRound, FloatNaN]
};
const ALL_CASTS: [CastOpType; 7] = {
    use CastOpType::*;
    [IntZExt, IntSExt, Int2Float, Float2Float, Trunc, PopCount, LzCount]
};

fn binop_by_name(n: &str) -> BinOpType {
    *ALL_BINOPS.iter().find(|o| format!("{o:?}") == n).unwrap_or_else(|| mcx::machinery("unknown binary op in case"))
}
fn unop_by_name(n: &str) -> UnOpType {
    *ALL_UNOPS.iter().find(|o| format!("{o:?}") == n).unwrap_or_else(|| mcx::machinery("unknown unary op in case"))
}
fn cast_by_name(n: &str) -> CastOpType {
    *ALL_CASTS.iter().find(|o| format!("{o:?}") == n).unwrap_or_else(|| mcx::machinery("unknown cast in case"))
}
/// The repository's enums are mapped onto the reference table by *name*.
fn ref_bin(op: BinOpType) -> Option<Bin> {
    Bin::from_loose_name(&format!("{op:?}"))
}
fn ref_un(op: UnOpType) -> Option<Un> {
    match format!("{op:?}").as_str() {
        "IntNegate" => Some(Un::IntNegate),
        "Int2Comp" => Some(Un::Int2Comp),
        "BoolNegate" => Some(Un::BoolNegate),
        _ => None,
    }
}
fn ref_cast(op: CastOpType) -> Option<Cast> {
    match format!("{op:?}").as_str() {
        "IntZExt" => Some(Cast::IntZExt),
        "IntSExt" => Some(Cast::IntSExt),
        "PopCount" => Some(Cast::PopCount),
        "LzCount" => Some(Cast::LzCount),
        _ => None,
    }
}

const UNDEF: u32 = u32::MAX;
/// For every binary op with reference semantics: the full 1-byte x 1-byte result table, filled
/// from `refsem::ops::bin` (UNDEF = undefined by the reference, e.g. division by zero).
struct Tables {
    bin: Vec<Option<Vec<u32>>>,
}
impl Tables {
    fn new() -> Tables {
        let bin = ALL_BINOPS
            .iter()
            .map(|op| {
                ref_bin(*op).map(|r| {
                    let mut t = vec![UNDEF; 65536];
                    for a in 0..256u128 {
                        for b in 0..256u128 {
                            if let Some(v) = ops::bin(r, a, 1, b, 1) {
                                t[(a as usize) << 8 | b as usize] = v as u32;
                            }
                        }
                    }
                    t
                })
            })
            .collect();
        Tables { bin }
    }
}

/// One operand: description, real value and (for 1 byte) its precomputed members.
struct Operand<'a> {
    iv: &'a Iv,
    dom: &'a IntervalDomain,
    members1: Option<&'a [u8]>,
}

const MEMBER_LIMIT: u128 = 256;

fn members_of(iv: &Iv) -> Vec<u128> {
    iv.members_alphabet(&wide_interest(iv.w), MEMBER_LIMIT)
}

/// Common part of every judgement: panic, well-formedness, hint statistics.
/// Returns the view of the result if there is one.
fn judge_common(ctx: &Ctx, acc: &mut Acc, class: &str, case: &dyn Fn() -> Case, res: Result<IntervalDomain, String>, expected_w: Option<u32>, panic_in_scope: bool) -> Option<View> {
    acc.transitions += 1;
    let dom = match res {
        Ok(d) => d,
        Err(p) => {
            if panic_in_scope {
                viol(ctx, acc, format!("panic {class} {}", panic_site(&p)), serde_json::to_value(case()).unwrap(), json!({"observed": format!("panic: {p}"), "expected": "an abstract value"}));
            } else {
                acc.stat("panics_outside_scope_(non_boolean_operands)", 1);
            }
            return None;
        }
    };
    let view = read_back(&dom);
    for (kind, text) in view.well_formed(expected_w) {
        viol(ctx, acc, format!("wellformed {kind} {class}"), serde_json::to_value(case()).unwrap(), json!({"observed": view.render(), "broken": text}));
    }
    let (inside, width) = view.hint_oddities();
    if inside {
        acc.stat("result_hint_not_outside_interval", 1);
    }
    if width {
        acc.stat("result_hint_width_differs", 1);
    }
    Some(view)
}

fn report_unsound(ctx: &Ctx, acc: &mut Acc, class: &str, case: &dyn Fn() -> Case, view: &View, members: serde_json::Value, concrete: Option<u128>) {
    viol(ctx, acc, 
        format!("soundness {class}"),
        serde_json::to_value(case()).unwrap(),
        json!({
            "observed_abstract_result": view.render(),
            "concrete_members": members,
            "concrete_result": concrete.map(|v| format!("{v:#x}")),
            "expected": match concrete { Some(_) => "the concrete result is a member of the abstract result", None => "no reference semantics for this operation: every value is possible, the result must be Top" },
        }),
    );
}

/// Evaluate and judge one binary operation. `cache`: the result interval already judged sound for
/// the same operand intervals (other hint configuration); if the new result has the same
/// interval the member check is not repeated.
fn eval_bin(ctx: &Ctx, acc: &mut Acc, tabs: &Tables, opi: usize, a: &Operand, b: &Operand, cache: &mut Option<View>, cross_check: bool) {
    let op = ALL_BINOPS[opi];
    let class = format!("{op:?}");
    let case = || Case::Bin { op: format!("{op:?}"), a: a.iv.clone(), b: b.iv.clone() };
    let r = ref_bin(op);
    let is_bool = r.map(|r| r.is_bool()).unwrap_or(false);
    let (wa, wb) = (a.iv.w, b.iv.w);
    // booleans are 0/1: a panic on other operands is outside of the property
    let all_bool = |iv: &Iv| iv.s >= 0 && iv.e <= 1;
    let panic_in_scope = !is_bool || (all_bool(a.iv) && all_bool(b.iv));
    let expected_w = match r {
        Some(r) => ops::bin_width(r, wa, wb),
        None => {
            // float ops: comparisons give a 1-byte bool, arithmetic keeps the operand width
            if format!("{op:?}").starts_with("FloatEqual") || format!("{op:?}").starts_with("FloatNotEqual") || format!("{op:?}").starts_with("FloatLess") {
                1
            } else {
                wa
            }
        }
    };
    let res = catch(|| a.dom.bin_op(op, b.dom));
    let Some(view) = judge_common(ctx, acc, &class, &case, res, Some(expected_w), panic_in_scope) else { return };
    if view.bits_s != view.bits_e {
        return;
    }
    if a.iv.lo.is_none() && a.iv.hi.is_none() && b.iv.lo.is_none() && b.iv.hi.is_none() {
        acc.outcome(&(opi, view.bits_s, view.stride, view.len()));
    }
    if let Some(c) = cache {
        if c.same_interval(&view) {
            return;
        }
        acc.stat("result_interval_depends_on_hints", 1);
    }
    // ---- soundness
    let full = view.is_full();
    let Some(r) = r else {
        if !full {
            report_unsound(ctx, acc, &class, &case, &view, json!(null), None);
        }
        *cache = Some(view);
        return;
    };
    if !full {
        acc.nontrivial += 1;
        let rw = view.bits_s / 8;
        let mut bad: Option<(u128, u128, u128)> = None;
        if wa == 1 && wb == 1 {
            // fast path: table driven, all member pairs
            let tab = tabs.bin[opi].as_ref().unwrap();
            let (ga, gb);
            let ma: &[u8] = match a.members1 {
                Some(m) => m,
                None => {
                    ga = bvec(&a.iv.gamma1());
                    &ga
                }
            };
            let mb: &[u8] = match b.members1 {
                Some(m) => m,
                None => {
                    gb = bvec(&b.iv.gamma1());
                    &gb
                }
            };
            acc.evaluations += (ma.len() * mb.len()) as u64;
            if rw == 1 {
                let g = view.gamma1();
                let mut img = EMPTY;
                for &x in ma {
                    if is_bool && x > 1 {
                        continue;
                    }
                    let row = &tab[(x as usize) << 8..((x as usize) << 8) + 256];
                    for &y in mb {
                        if is_bool && y > 1 {
                            continue;
                        }
                        let v = row[y as usize];
                        if v != UNDEF {
                            bset(&mut img, v as u8);
                        }
                    }
                }
                if !bempty(&bandnot(&img, &g)) {
                    'outer: for &x in ma {
                        for &y in mb {
                            if is_bool && (x > 1 || y > 1) {
                                continue;
                            }
                            let v = tab[(x as usize) << 8 | y as usize];
                            if v != UNDEF && !bget(&g, v as u8) {
                                bad = Some((x as u128, y as u128, v as u128));
                                break 'outer;
                            }
                        }
                    }
                } else if img == g {
                    acc.stat("exact_results_(image_equals_gamma)", 1);
                }
            } else {
                'outer2: for &x in ma {
                    for &y in mb {
                        let v = tab[(x as usize) << 8 | y as usize];
                        if v != UNDEF && !view.member(v as u128) {
                            bad = Some((x as u128, y as u128, v as u128));
                            break 'outer2;
                        }
                    }
                }
            }
            if cross_check {
                // replay: the generic path must agree with the table-driven path
                let slow = generic_bin_witness(r, a.iv, b.iv, &view, is_bool, acc);
                if slow.is_some() != bad.is_some() {
                    mcx::machinery("C02: table-driven and generic member checks disagree");
                }
            }
        } else {
            bad = generic_bin_witness(r, a.iv, b.iv, &view, is_bool, acc);
        }
        if let Some((x, y, v)) = bad {
            report_unsound(ctx, acc, &class, &case, &view, json!({"a": format!("{x:#x}"), "b": format!("{y:#x}")}), Some(v));
        }
    } else {
        acc.stat("results_top", 1);
    }
    *cache = Some(view);
}

/// Generic member check of a binary op: members (all if <= 256, else the member alphabet) of both
/// operands through `refsem::ops::bin`. Returns a witness (a, b, concrete result) not in γ(view).
fn generic_bin_witness(r: Bin, a: &Iv, b: &Iv, view: &View, is_bool: bool, acc: &mut Acc) -> Option<(u128, u128, u128)> {
    let (ma, mb) = (members_of(a), members_of(b));
    acc.evaluations += (ma.len() * mb.len()) as u64;
    for &x in &ma {
        for &y in &mb {
            if is_bool && (x > 1 || y > 1) {
                continue;
            }
            if let Some(v) = ops::bin(r, x, a.w, y, b.w) {
                if !view.member(v) {
                    return Some((x, y, v));
                }
            }
        }
    }
    None
}

/// Judge a unary-style result (un_op, cast, subpiece) against the concrete function `f`.
fn judge_unary(ctx: &Ctx, acc: &mut Acc, class: &str, case: &dyn Fn() -> Case, a: &Iv, res: Result<IntervalDomain, String>, expected_w: Option<u32>, f: Option<&dyn Fn(u128) -> Option<u128>>, panic_in_scope: bool) {
    let Some(view) = judge_common(ctx, acc, class, case, res, expected_w, panic_in_scope) else { return };
    if view.bits_s != view.bits_e {
        return;
    }
    if a.lo.is_none() && a.hi.is_none() {
        acc.outcome(&(class, view.bits_s, view.stride, view.len()));
    }
    let full = view.is_full();
    let Some(f) = f else {
        if !full {
            report_unsound(ctx, acc, class, case, &view, json!(null), None);
        }
        return;
    };
    if full {
        acc.stat("results_top", 1);
        return;
    }
    acc.nontrivial += 1;
    let ma = members_of(a);
    acc.evaluations += ma.len() as u64;
    for &x in &ma {
        if let Some(v) = f(x) {
            if !view.member(v) {
                report_unsound(ctx, acc, class, case, &view, json!({"a": format!("{x:#x}")}), Some(v));
                return;
            }
        }
    }
}

fn eval_un(ctx: &Ctx, acc: &mut Acc, op: UnOpType, iv: &Iv, dom: &IntervalDomain) {
    let class = format!("{op:?}");
    let case = || Case::Un { op: format!("{op:?}"), a: iv.clone() };
    let r = ref_un(op);
    let w = iv.w;
    let expected_w = if matches!(op, UnOpType::FloatNaN) { 1 } else { w };
    let is_boolneg = matches!(op, UnOpType::BoolNegate);
    let res = catch(|| dom.un_op(op));
    let f = move |x: u128| r.and_then(|r| ops::un(r, x, w));
    let fref: Option<&dyn Fn(u128) -> Option<u128>> = if r.is_some() { Some(&f) } else { None };
    judge_unary(ctx, acc, &class, &case, iv, res, Some(expected_w), fref, !is_boolneg || (iv.s >= 0 && iv.e <= 1));
}

fn eval_cast(ctx: &Ctx, acc: &mut Acc, op: CastOpType, iv: &Iv, dom: &IntervalDomain, to: u32) {
    let class = format!("cast {op:?}");
    let case = || Case::Cast { op: format!("{op:?}"), a: iv.clone(), to };
    let r = ref_cast(op);
    let w = iv.w;
    let res = catch(|| dom.cast(op, ByteSize::new(to as u64)));
    let f = move |x: u128| r.map(|r| ops::cast(r, x, w, to));
    let fref: Option<&dyn Fn(u128) -> Option<u128>> = if r.is_some() { Some(&f) } else { None };
    judge_unary(ctx, acc, &class, &case, iv, res, Some(to), fref, true);
}

fn eval_subpiece(ctx: &Ctx, acc: &mut Acc, iv: &Iv, dom: &IntervalDomain, low: u32, size: u32) {
    let class = "subpiece".to_string();
    let case = || Case::Subpiece { a: iv.clone(), low, size };
    let w = iv.w;
    let res = catch(|| dom.subpiece(ByteSize::new(low as u64), ByteSize::new(size as u64)));
    let f = move |x: u128| Some(ops::subpiece(x, w, low, size));
    judge_unary(ctx, acc, &class, &case, iv, res, Some(size), Some(&f), true);
}

fn check_iv(iv: &Iv) {
    if !(iv.w == 1 || iv.w == 2 || iv.w == 4 || iv.w == 8) || !iv.well_formed() {
        mcx::machinery("replay case holds an interval that is not well-formed (inputs of the property are well-formed values)");
    }
}

fn run_case(ctx: &Ctx, tabs: &Tables, case: &Case) {
    let mut acc = Acc::default();
    acc.states = 1;
    match case {
        Case::Bin { op, a, b } => {
            check_iv(a);
            check_iv(b);
            let o = binop_by_name(op);
            let opi = ALL_BINOPS.iter().position(|x| *x == o).unwrap();
            let (da, db) = (build(a), build(b));
            eval_bin(ctx, &mut acc, tabs, opi, &Operand { iv: a, dom: &da, members1: None }, &Operand { iv: b, dom: &db, members1: None }, &mut None, true);
        }
        Case::Un { op, a } => {
            check_iv(a);
            eval_un(ctx, &mut acc, unop_by_name(op), a, &build(a));
        }
        Case::Cast { op, a, to } => {
            check_iv(a);
            eval_cast(ctx, &mut acc, cast_by_name(op), a, &build(a), *to);
        }
        Case::Subpiece { a, low, size } => {
            check_iv(a);
            eval_subpiece(ctx, &mut acc, a, &build(a), *low, *size);
        }
    }
    acc.flush(ctx);
}

/// 2-byte intervals with at most 256 members: `I1` intervals moved to places where the byte
/// boundary / sign boundary of a 2-byte value lies inside or next to them.
fn lifted_w2(thorough: bool) -> Vec<Iv> {
    let offsets: &[i64] = if thorough { &[0, 0x80, 0x100, 0x7f00, 0x7f80, -0x100, -0x7f80, 0x1234, -0x180] } else { &[0, 0x80, 0x7f80, -0x100, -0x7f80] };
    let mut set = std::collections::BTreeSet::new();
    for (s, e, t) in i1_bare(false) {
        for &o in offsets {
            let (s2, e2) = (s + o, e + o);
            if s2 >= -0x8000 && e2 <= 0x7fff {
                set.insert((s2, e2, t));
            }
        }
        // a stride scaled by 256 (what `piece` with a constant low byte produces)
        if t > 0 && e * 256 <= 0x7fff && s * 256 >= -0x8000 {
            set.insert((s * 256, e * 256, t * 256));
            set.insert((s * 256 + 0x7f, e * 256 + 0x7f, t * 256));
        }
    }
    let pts = wide_points(2, true);
    let mut out = Vec::new();
    for (idx, bare) in set.into_iter().enumerate() {
        // one hint configuration per interval, cycling through the 1..=4 that exist
        let cfgs = with_hints(2, bare, idx, &pts);
        out.push(cfgs[idx % cfgs.len()].clone());
    }
    out
}

fn shift_amounts(w_amount: u32, bits_of_value: u32) -> Vec<Iv> {
    let mut v: Vec<Iv> = Vec::new();
    let mut singles: Vec<i64> = (0..=(bits_of_value as i64 + 1)).collect();
    singles.extend([smax(w_amount), smin(w_amount), -1]);
    singles.retain(|x| *x >= smin(w_amount) && *x <= smax(w_amount));
    singles.sort();
    singles.dedup();
    for s in singles {
        v.push(Iv::singleton(w_amount, s));
    }
    v.push(Iv::bare(w_amount, 0, 1, 1));
    v.push(Iv::bare(w_amount, 1, 3, 2));
    v.push(Iv::bare(w_amount, -1, 1, 1));
    v.push(Iv::top(w_amount));
    v
}

fn main() {
    let ctx = Ctx::new("C02");
    match ops::self_check() {
        Ok(n) => ctx.stat("refsem_self_check_vectors", n),
        Err(e) => mcx::machinery(&e),
    }
    let tabs = Tables::new();
    if let Some(c) = ctx.replay_case() {
        let case: Case = serde_json::from_value(c.clone()).unwrap_or_else(|e| mcx::machinery(&format!("bad case: {e}")));
        run_case(&ctx, &tabs, &case);
        ctx.finish("replay of one case", false);
    }
    let ctx = &ctx;
    let tabs = &tabs;
    let thorough = ctx.thorough();

    // ------------------------------------------------------------------ part 1
    let elems = i1_elems(thorough);
    let n = elems.len() as u64;
    let n_values: usize = elems.iter().map(|c| c.len()).sum();
    ctx.set("i1_intervals", json!(n));
    ctx.set("i1_values_with_hints", json!(n_values));
    // a few cases for the evidence file, picked sequentially (independent of thread scheduling)
    for k in 0..=1000u64 {
        let (a, b) = (&elems[((k * 37) % n) as usize], &elems[((k * 101) % n) as usize]);
        let (a, b) = (&a[k as usize % a.len()], &b[(k / 3) as usize % b.len()]);
        ctx.sample(|| match k % 4 {
            0 | 1 => serde_json::to_value(Case::Bin { op: format!("{:?}", ALL_BINOPS[(k % 34) as usize]), a: a.iv.clone(), b: b.iv.clone() }).unwrap(),
            2 => serde_json::to_value(Case::Cast { op: format!("{:?}", ALL_CASTS[(k % 7) as usize]), a: a.iv.clone(), to: [1u32, 2, 4, 8, 16][(k % 5) as usize] }).unwrap(),
            _ => serde_json::to_value(Case::Un { op: format!("{:?}", ALL_UNOPS[(k % 10) as usize]), a: b.iv.clone() }).unwrap(),
        });
    }
    {
        let elems = &elems;
        par_fold(
            n * n,
            16,
            Acc::default,
            |acc, idx| {
                acc.at(100, idx);
                let (i, j) = ((idx / n) as usize, (idx % n) as usize);
                for opi in 0..ALL_BINOPS.len() {
                    let mut cache: Option<View> = None;
                    // operations whose code does not look at the hints at all (everything except the
                    // five interval-aware ones) get only the first/last hint configurations:
                    // quick (first,first),(last,last); thorough additionally (first,last),(last,first)
                    let reduced = !matches!(ALL_BINOPS[opi], BinOpType::Piece | BinOpType::IntAdd | BinOpType::IntSub | BinOpType::IntMult | BinOpType::IntLeft);
                    let (la, lb) = (elems[i].len() - 1, elems[j].len() - 1);
                    for (ka, ea) in elems[i].iter().enumerate() {
                        for (kb, eb) in elems[j].iter().enumerate() {
                            if reduced {
                                let corner = (ka == 0 || ka == la) && (kb == 0 || kb == lb);
                                let diagonal = (ka == 0) == (kb == 0) || la == 0 || lb == 0;
                                if !corner || (!thorough && !diagonal) {
                                    continue;
                                }
                            }
                            acc.states += 1;
                            eval_bin(
                                ctx,
                                acc,
                                tabs,
                                opi,
                                &Operand { iv: &ea.iv, dom: &ea.dom, members1: Some(&ea.members) },
                                &Operand { iv: &eb.iv, dom: &eb.dom, members1: Some(&eb.members) },
                                &mut cache,
                                false,
                            );
                        }
                    }
                }
            },
            |acc| acc.flush(ctx),
        );
    }
    ctx.set("wall_s_before_part2", json!(ctx.elapsed_s()));
    // ------------------------------------------------------------------ part 2
    {
        let flat: Vec<&Elem> = elems.iter().flatten().collect();
        let flat = &flat;
        par_fold(
            flat.len() as u64,
            4,
            Acc::default,
            |acc, i| {
                acc.at(200, i);
                let e = flat[i as usize];
                for op in ALL_UNOPS {
                    acc.states += 1;
                    eval_un(ctx, acc, op, &e.iv, &e.dom);
                }
                for op in ALL_CASTS {
                    for to in [1u32, 2, 4, 8, 16] {
                        acc.states += 1;
                        eval_cast(ctx, acc, op, &e.iv, &e.dom, to);
                    }
                }
                acc.states += 1;
                eval_subpiece(ctx, acc, &e.iv, &e.dom, 0, 1);
            },
            |acc| acc.flush(ctx),
        );
    }
    // ------------------------------------------------------------------ thorough: EVERY 1-byte interval
    if thorough {
        let all1 = all1_bare();
        ctx.set("all_1_byte_intervals", json!(all1.len()));
        let partners: Vec<Elem> = i1_bare(false).into_iter().enumerate().map(|(idx, b)| elem1(b, idx, 0, &GRID_QUICK)).collect();
        let aware: Vec<usize> = ALL_BINOPS.iter().enumerate().filter(|(_, o)| matches!(o, BinOpType::Piece | BinOpType::IntAdd | BinOpType::IntSub | BinOpType::IntMult | BinOpType::IntLeft)).map(|(i, _)| i).collect();
        let (all1, partners, aware) = (&all1, &partners, &aware);
        par_fold(
            all1.len() as u64,
            16,
            Acc::default,
            |acc, i| {
                acc.at(300, i);
                let bare = all1[i as usize];
                // unary ops, casts, subpiece: without hints and with one hint configuration
                for k in [0usize, 1 + i as usize] {
                    let e = elem1(bare, i as usize, k, &GRID);
                    if k != 0 && e.iv.lo.is_none() && e.iv.hi.is_none() {
                        continue;
                    }
                    for op in ALL_UNOPS {
                        acc.states += 1;
                        eval_un(ctx, acc, op, &e.iv, &e.dom);
                    }
                    for op in ALL_CASTS {
                        for to in [1u32, 2, 4, 8, 16] {
                            acc.states += 1;
                            eval_cast(ctx, acc, op, &e.iv, &e.dom, to);
                        }
                    }
                    acc.states += 1;
                    eval_subpiece(ctx, acc, &e.iv, &e.dom, 0, 1);
                }
                // the five interval-aware binary ops against every interval of the quick I1, both orders
                let e = elem1(bare, i as usize, i as usize, &GRID);
                let me = Operand { iv: &e.iv, dom: &e.dom, members1: Some(&e.members) };
                for p in partners.iter() {
                    let o = Operand { iv: &p.iv, dom: &p.dom, members1: Some(&p.members) };
                    for &opi in aware.iter() {
                        acc.states += 2;
                        eval_bin(ctx, acc, tabs, opi, &me, &o, &mut None, false);
                        eval_bin(ctx, acc, tabs, opi, &o, &me, &mut None, false);
                    }
                }
            },
            |acc| acc.flush(ctx),
        );
    }
    ctx.set("wall_s_before_part3", json!(ctx.elapsed_s()));
    // ------------------------------------------------------------------ part 3
    let w2 = lifted_w2(thorough);
    ctx.set("w2_intervals_exhaustive_members", json!(w2.len()));
    {
        let w2 = &w2;
        let fixed2: Vec<Iv> = {
            let mut v: Vec<Iv> = [0i64, 1, 2, -1, 3, 0x100, 0x7fff, -0x8000, 0x80].iter().map(|x| Iv::singleton(2, *x)).collect();
            v.extend([Iv::bare(2, 0, 1, 1), Iv::bare(2, -1, 1, 2), Iv::bare(2, 1, 3, 2), Iv::bare(2, -2, 2, 1), Iv::bare(2, 0x7ffe, 0x7fff, 1), Iv::bare(2, -0x8000, -0x7fff, 1), Iv::bare(2, -0x8000, -0x7ffe, 1), Iv::bare(2, 0x100, 0x300, 0x100), Iv::top(2)]);
            v
        };
        let fixed1: Vec<Iv> = vec![Iv::singleton(1, 0), Iv::singleton(1, -1), Iv::singleton(1, 0x7f), Iv::bare(1, -2, 2, 2), Iv::bare(1, 1, 7, 3), Iv::bare(1, -128, -126, 2), Iv::top(1)];
        let fixed2_doms: Vec<IntervalDomain> = fixed2.iter().map(build).collect();
        let fixed1_doms: Vec<IntervalDomain> = fixed1.iter().map(build).collect();
        let (fixed2, fixed1, fixed2_doms, fixed1_doms) = (&fixed2, &fixed1, &fixed2_doms, &fixed1_doms);
        par_fold(
            w2.len() as u64,
            2,
            Acc::default,
            |acc, i| {
                acc.at(400, i);
                let iv = &w2[i as usize];
                let dom = build(iv);
                for op in ALL_UNOPS {
                    if matches!(op, UnOpType::BoolNegate) {
                        continue; // booleans are 1 byte
                    }
                    acc.states += 1;
                    eval_un(ctx, acc, op, iv, &dom);
                }
                for op in ALL_CASTS {
                    for to in [1u32, 2, 4, 8, 16] {
                        if matches!(op, CastOpType::IntZExt | CastOpType::IntSExt) && to < 2 {
                            continue; // extensions only grow
                        }
                        acc.states += 1;
                        eval_cast(ctx, acc, op, iv, &dom, to);
                    }
                }
                for (low, size) in [(0u32, 1u32), (1, 1), (0, 2)] {
                    acc.states += 1;
                    eval_subpiece(ctx, acc, iv, &dom, low, size);
                }
                let me = Operand { iv, dom: &dom, members1: None };
                for (opi, op) in ALL_BINOPS.iter().enumerate() {
                    let r = ref_bin(*op);
                    if r.map(|r| r.is_bool()).unwrap_or(false) {
                        continue; // booleans are 1 byte
                    }
                    let is_shift = r.map(|r| r.is_shift()).unwrap_or(false);
                    let is_piece = matches!(op, BinOpType::Piece);
                    for (k, other) in fixed2.iter().enumerate() {
                        let o = Operand { iv: other, dom: &fixed2_doms[k], members1: None };
                        acc.states += 2;
                        eval_bin(ctx, acc, tabs, opi, &me, &o, &mut None, false);
                        eval_bin(ctx, acc, tabs, opi, &o, &me, &mut None, false);
                    }
                    if is_shift || is_piece {
                        for (k, other) in fixed1.iter().enumerate() {
                            let o = Operand { iv: other, dom: &fixed1_doms[k], members1: None };
                            acc.states += 1;
                            eval_bin(ctx, acc, tabs, opi, &me, &o, &mut None, false);
                            if is_piece {
                                acc.states += 1;
                                eval_bin(ctx, acc, tabs, opi, &o, &me, &mut None, false);
                            }
                        }
                    }
                }
            },
            |acc| acc.flush(ctx),
        );
    }
    ctx.set("wall_s_before_part4", json!(ctx.elapsed_s()));
    // ------------------------------------------------------------------ part 4
    let mut wide_counts = serde_json::Map::new();
    for w in [2u32, 4, 8] {
        let bare = wide_bare(w, thorough);
        let ivs: Vec<Iv> = bare
            .iter()
            .enumerate()
            .map(|(idx, b)| {
                let cfgs = wide_with_hints(w, *b, idx, thorough);
                cfgs[idx % cfgs.len()].clone()
            })
            .collect();
        let doms: Vec<IntervalDomain> = ivs.iter().map(build).collect();
        wide_counts.insert(format!("w{w}"), json!(ivs.len()));
        let nn = ivs.len() as u64;
        let (ivs, doms) = (&ivs, &doms);
        // all pairs, every binary op with two operands of the same width
        par_fold(
            nn * nn,
            64,
            Acc::default,
            |acc, idx| {
                acc.at(500 + w, idx);
                let (i, j) = ((idx / nn) as usize, (idx % nn) as usize);
                let a = Operand { iv: &ivs[i], dom: &doms[i], members1: None };
                let b = Operand { iv: &ivs[j], dom: &doms[j], members1: None };
                for (opi, op) in ALL_BINOPS.iter().enumerate() {
                    let r = ref_bin(*op);
                    if r.map(|r| r.is_bool()).unwrap_or(false) {
                        continue;
                    }
                    acc.states += 1;
                    eval_bin(ctx, acc, tabs, opi, &a, &b, &mut None, false);
                }
            },
            |acc| acc.flush(ctx),
        );
        // unary, casts, subpiece; shifts by 1-byte / same-width amount alphabets; piece with other widths
        let amounts1 = shift_amounts(1, w * 8);
        let amounts1_doms: Vec<IntervalDomain> = amounts1.iter().map(build).collect();
        let amountsw = shift_amounts(w, w * 8);
        let amountsw_doms: Vec<IntervalDomain> = amountsw.iter().map(build).collect();
        // partners for piece: a reduced alphabet of every other width
        let mut partners: Vec<Iv> = Vec::new();
        for wo in [1u32, 2, 4, 8] {
            if wo == w {
                continue;
            }
            if wo == 1 {
                partners.extend([Iv::singleton(1, 0), Iv::singleton(1, -1), Iv::singleton(1, 5), Iv::bare(1, -2, 2, 2), Iv::bare(1, 1, 7, 3), Iv::bare(1, -128, -126, 2), Iv::bare(1, -128, -1, 1), Iv::top(1)]);
            } else {
                let b = wide_bare(wo, false);
                let step = (b.len() / 24).max(1);
                partners.extend(b.iter().step_by(step).map(|(s, e, t)| Iv::bare(wo, *s, *e, *t)));
            }
        }
        let partner_doms: Vec<IntervalDomain> = partners.iter().map(build).collect();
        let piece_i = ALL_BINOPS.iter().position(|o| matches!(o, BinOpType::Piece)).unwrap();
        let shifts: Vec<usize> = ALL_BINOPS.iter().enumerate().filter(|(_, o)| ref_bin(**o).map(|r| r.is_shift()).unwrap_or(false)).map(|(i, _)| i).collect();
        let (amounts1, amounts1_doms, amountsw, amountsw_doms, partners, partner_doms, shifts) = (&amounts1, &amounts1_doms, &amountsw, &amountsw_doms, &partners, &partner_doms, &shifts);
        par_fold(
            nn,
            4,
            Acc::default,
            |acc, i| {
                acc.at(600 + w, i);
                let (iv, dom) = (&ivs[i as usize], &doms[i as usize]);
                for op in ALL_UNOPS {
                    if matches!(op, UnOpType::BoolNegate) {
                        continue;
                    }
                    acc.states += 1;
                    eval_un(ctx, acc, op, iv, dom);
                }
                for op in ALL_CASTS {
                    for to in [1u32, 2, 4, 8, 16] {
                        if matches!(op, CastOpType::IntZExt | CastOpType::IntSExt) && to < w {
                            continue;
                        }
                        acc.states += 1;
                        eval_cast(ctx, acc, op, iv, dom, to);
                    }
                }
                for low in 0..w {
                    for size in 1..=(w - low) {
                        acc.states += 1;
                        eval_subpiece(ctx, acc, iv, dom, low, size);
                    }
                }
                let me = Operand { iv, dom, members1: None };
                for &opi in shifts.iter() {
                    for (k, am) in amounts1.iter().enumerate() {
                        acc.states += 1;
                        eval_bin(ctx, acc, tabs, opi, &me, &Operand { iv: am, dom: &amounts1_doms[k], members1: None }, &mut None, false);
                    }
                    for (k, am) in amountsw.iter().enumerate() {
                        acc.states += 1;
                        eval_bin(ctx, acc, tabs, opi, &me, &Operand { iv: am, dom: &amountsw_doms[k], members1: None }, &mut None, false);
                    }
                }
                for (k, p) in partners.iter().enumerate() {
                    if p.w + w > 16 {
                        continue;
                    }
                    let o = Operand { iv: p, dom: &partner_doms[k], members1: None };
                    acc.states += 2;
                    eval_bin(ctx, acc, tabs, piece_i, &me, &o, &mut None, false);
                    eval_bin(ctx, acc, tabs, piece_i, &o, &me, &mut None, false);
                }
            },
            |acc| acc.flush(ctx),
        );
    }
    ctx.set("wide_intervals", serde_json::Value::Object(wide_counts));
    ctx.set(
        "bounds",
        json!({
            "part1": "1 byte: all pairs of I1 (grid end points, strides 0,1,2,3,4,5,8,16,64, anchored short intervals, Top) x all 34 binary ops; all pairs of hint configurations (none/lower/upper/both, delays 0,1,5) for Piece/IntAdd/IntSub/IntMult/IntLeft, first/last configuration pairs (quick 2, thorough 4) for the 29 operations whose code ignores hints; every member pair (<= 65536) checked",
            "part2": "1 byte: every I1 value x hints x 10 unary ops, 7 casts to 1/2/4/8/16 bytes, subpiece; every member checked",
            "part3": "2 bytes: I1 intervals moved across byte/sign boundaries and scaled by 256 (<= 256 members, every member checked) x unary ops, casts, all subpieces, all binary ops against 18 fixed 2-byte operands (both orders), shifts/piece with 7 fixed 1-byte operands",
            "part4": "widths 2,4,8: intervals over boundary points and strides (incl. 2^(bits/2), 2^(bits-2)), one hint configuration each; all pairs x all binary ops, shifts by 1-byte and same-width amounts, piece with all other widths (sum <= 16), unary ops, casts to 1..16, every subpiece; members = all if <= 256, else the member alphabet (end points, 3 strides from either end, neighbours of the boundary points) -- NOT all members",
            "thorough_only": "EVERY well-formed 1-byte interval (170 700: all starts, all strides, all lengths), without hints and with one hint configuration: all unary ops, casts, subpiece; Piece/IntAdd/IntSub/IntMult/IntLeft against every interval of the quick I1 in both operand orders; every member (pair) checked",
            "grid": if thorough { GRID.to_vec() } else { GRID_QUICK.to_vec() },
            "strides": STRIDES,
        }),
    );
    ctx.assume("inputs are well-formed interval values (start <=s end, end-start divisible by stride, stride 0 exactly for singletons) with widening hints strictly outside the interval (hints need not lie on the stride)");
    ctx.assume("boolean operations are judged only on members in {0,1}; a panic of a boolean operation on an operand with other members is outside of the property");
    ctx.assume("operations without reference semantics (float operations, float casts) can produce any value: the abstract result must be Top of the right width");
    ctx.assume("division/remainder by zero has no concrete result: only defined concrete results must be members");
    ctx.assume("widening hints of results are not judged (the statement does not constrain them); hints inside the interval / of another width are reported as statistics");
    ctx.assume("a result that violates a well-formedness condition is read leniently for the soundness judgement (start >s end as wrapping, stride 0 with start != end as {start,end}), so one defect is reported under one class");
    emit_violations(ctx);
    ctx.finish(
        "one case = (operation, operand values incl. hints); the real transfer function is called once per case, the result is read back through serde and judged for well-formedness; soundness: all members (1 byte and <=256-member intervals) or the member alphabet (large intervals) of the operands are pushed through refsem::ops and tested for membership in the result (skipped when the result interval equals the one already judged for the same operand intervals under another hint configuration); non-trivial = the abstract result is not Top, so membership was a real constraint",
        true,
    );
}
