//! C19 — global memory queries agree with the loaded memory image.
//! Shape E: every layout of <= 3 disjoint segments over a small grid (gaps,
//! adjacency, every list order, r/w flags, contents with NULs / invalid UTF-8,
//! both byte orders) x every address in the window x every query, each compared
//! with an independent byte map `addr -> (byte, segment)`.

use mcx::{catch, par_for, Ctx};
use props::ccl::intermediate_representation::*;
use props::ccl::utils::binary::{BareMetalConfig, MemorySegment};
use props::{bv, unbv};
use serde::{Deserialize, Serialize};
use serde_json::{json, Value};
use std::collections::BTreeMap;
use std::sync::atomic::{AtomicU64, Ordering};

#[derive(Serialize, Deserialize, Clone, Debug, PartialEq)]
struct Seg {
    base: u64,
    bytes: Vec<u8>,
    r: bool,
    w: bool,
}

#[derive(Serialize, Deserialize, Clone, Debug)]
enum Case {
    /// A memory image given by its segment list (in list order); all queries of the window are run.
    Layout { segs: Vec<Seg>, little_endian: bool },
    /// `RuntimeMemoryImage::new_from_bare_metal`, then all queries on the produced image.
    BareMetal { binary: Vec<u8>, processor_id: String, flash_base: String, ram_base: String, ram_size: String },
}

// ---------------------------------------------------------------- the reference: a byte map

struct ByteMap {
    /// address -> (byte, index of the segment in list order)
    map: BTreeMap<u64, (u8, usize)>,
}

impl ByteMap {
    fn new(segs: &[Seg]) -> ByteMap {
        let mut map = BTreeMap::new();
        for (i, s) in segs.iter().enumerate() {
            for (k, b) in s.bytes.iter().enumerate() {
                let prev = map.insert(s.base + k as u64, (*b, i));
                if prev.is_some() {
                    mcx::machinery("C19: generated layout has overlapping segments");
                }
            }
        }
        ByteMap { map }
    }
    fn seg_of(&self, a: u64) -> Option<usize> {
        self.map.get(&a).map(|x| x.1)
    }
    /// `Some(segment)` iff every byte of `[a, a+n)` is mapped and all belong to one segment.
    fn one_segment(&self, a: u64, n: u64) -> Option<usize> {
        let s = self.seg_of(a)?;
        for k in 1..n {
            if self.seg_of(a.checked_add(k)?)? != s {
                return None;
            }
        }
        Some(s)
    }
    fn byte(&self, a: u64) -> u8 {
        self.map[&a].0
    }
}

/// What a query may return, as classes of results.
#[derive(Debug, PartialEq, Clone)]
enum Obs {
    Panic(String),
    Err,
    /// `read`: unknown content
    Unknown,
    /// `read`: (value, width in bytes)
    Value(u128, u32),
    Bool(bool),
    Str(String),
    /// `get_ro_data_pointer_at_address`: (segment bytes, index)
    Slice(Vec<u8>, usize),
}

fn fmt_obs(o: &Obs) -> String {
    format!("{o:?}")
}

struct Judge<'a> {
    ctx: &'a Ctx,
    case: &'a Case,
    calls: u64,
    seen: u64,
}

static SEEN_OUTCOMES: AtomicU64 = AtomicU64::new(0);

impl<'a> Judge<'a> {
    /// `allowed`: the set of results the statement permits for this query.
    fn judge(&mut self, func: &str, class: &str, query: impl FnOnce() -> Value, got: Obs, allowed: &[Obs]) {
        self.calls += 1;
        // outcome classes (function x result kind), for the vacuity report
        let kind = match &got {
            Obs::Panic(_) => 0,
            Obs::Err => 1,
            Obs::Unknown => 2,
            Obs::Value(..) => 3,
            Obs::Bool(false) => 4,
            Obs::Bool(true) => 5,
            Obs::Str(_) => 6,
            Obs::Slice(..) => 7,
        };
        let fidx = match func {
            "read" => 0,
            "read_string_until_null_terminator" => 1,
            "is_global_memory_address" => 2,
            "is_address_writeable" => 3,
            "get_ro_data_pointer_at_address" => 4,
            "is_interval_readable" => 5,
            "is_interval_writeable" => 6,
            _ => 7,
        };
        self.seen |= 1u64 << (fidx * 8 + kind);
        if let Obs::Panic(p) = &got {
            self.ctx.violation(
                format!("{func}: panic {}", mcx::panic_site(p)),
                serde_json::to_value(self.case).unwrap(),
                json!({"query": query(), "observed": format!("panic: {p}"), "expected": allowed.iter().map(fmt_obs).collect::<Vec<_>>()}),
            );
            return;
        }
        if !allowed.contains(&got) {
            let obs_kind = match &got {
                Obs::Err => "fails",
                Obs::Unknown => "reports unknown content",
                Obs::Value(..) => "returns a value",
                Obs::Bool(_) => "returns a flag",
                Obs::Str(_) => "returns a string",
                Obs::Slice(..) => "returns a slice",
                Obs::Panic(_) => unreachable!(),
            };
            self.ctx.violation(
                format!("{func}: {class}: {obs_kind}"),
                serde_json::to_value(self.case).unwrap(),
                json!({"query": query(), "observed": fmt_obs(&got), "expected_one_of": allowed.iter().map(fmt_obs).collect::<Vec<_>>()}),
            );
        }
    }
}

fn real_image(segs: &[Seg], little_endian: bool) -> RuntimeMemoryImage {
    RuntimeMemoryImage {
        memory_segments: segs
            .iter()
            .map(|s| MemorySegment { bytes: s.bytes.clone(), base_address: s.base, read_flag: s.r, write_flag: s.w, execute_flag: false })
            .collect(),
        is_little_endian: little_endian,
        is_lkm: false,
    }
}

fn hx(a: u64) -> String {
    format!("{a:#x}")
}

/// Run every query of the window on `img` and judge it against the byte map of `segs`.
fn run_queries(j: &mut Judge, img: &RuntimeMemoryImage, segs: &[Seg], little_endian: bool) {
    let bm = ByteMap::new(segs);
    let nonempty: Vec<&Seg> = segs.iter().filter(|s| !s.bytes.is_empty()).collect();
    let (lo, hi) = if nonempty.is_empty() {
        let b = segs.first().map(|s| s.base).unwrap_or(0x10);
        (b.saturating_sub(2), b.saturating_add(2))
    } else {
        let min = nonempty.iter().map(|s| s.base).min().unwrap();
        let max_end = nonempty.iter().map(|s| s.base + s.bytes.len() as u64).max().unwrap();
        (min.saturating_sub(2), max_end.saturating_add(2))
    };
    for a in lo..=hi {
        let abv = bv(a as u128, 8);
        // ---- read(address, size)
        for size in [1u64, 2, 4, 8] {
            let got = match catch(|| img.read(&abv, ByteSize::new(size))) {
                Err(p) => Obs::Panic(p),
                Ok(Err(_)) => Obs::Err,
                Ok(Ok(None)) => Obs::Unknown,
                Ok(Ok(Some(v))) => {
                    let (v, w) = unbv(&v);
                    Obs::Value(v, w)
                }
            };
            let (class, allowed): (&str, Vec<Obs>) = match bm.one_segment(a, size) {
                None => ("range not inside one segment", vec![Obs::Err]),
                Some(s) => {
                    let mut v: u128 = 0;
                    for k in 0..size {
                        let b = bm.byte(a + k) as u128;
                        if little_endian {
                            v |= b << (8 * k);
                        } else {
                            v = (v << 8) | b;
                        }
                    }
                    let val = Obs::Value(v, size as u32);
                    if segs[s].w {
                        ("range inside one writable segment", vec![Obs::Unknown])
                    } else if segs[s].r {
                        ("range inside one read-only segment", vec![val])
                    } else {
                        // neither readable nor writable: the statement speaks of read-only and of
                        // writable segments only; the stored bytes or a failure are both accepted
                        ("range inside one segment without r and w", vec![val, Obs::Err, Obs::Unknown])
                    }
                }
            };
            j.judge("read", class, || json!({"address": hx(a), "size": size}), got, &allowed);
        }
        // ---- is_global_memory_address(constant) for pointer widths in which the address fits
        for width in [1u32, 2, 4, 8] {
            if width < 8 && a >> (8 * width) != 0 {
                continue;
            }
            let c = bv(a as u128, width);
            let got = match catch(|| img.is_global_memory_address(&c)) {
                Err(p) => Obs::Panic(p),
                Ok(b) => Obs::Bool(b),
            };
            let (class, allowed) = if bm.seg_of(a).is_none() {
                ("address not in any segment", vec![Obs::Bool(false)])
            } else if bm.one_segment(a, width as u64).is_some() {
                ("pointer-sized range inside one segment", vec![Obs::Bool(true)])
            } else {
                // address is mapped but fewer than `width` bytes follow in its segment: not specified
                ("address mapped, pointer-sized range not", vec![Obs::Bool(true), Obs::Bool(false)])
            };
            j.judge("is_global_memory_address", class, || json!({"constant": hx(a), "width": width}), got, &allowed);
        }
        // ---- is_address_writeable(address)
        {
            let got = match catch(|| img.is_address_writeable(&abv)) {
                Err(p) => Obs::Panic(p),
                Ok(Err(_)) => Obs::Err,
                Ok(Ok(b)) => Obs::Bool(b),
            };
            let (class, allowed) = match bm.seg_of(a) {
                None => ("address not in any segment", vec![Obs::Err]),
                Some(s) => ("address inside a segment", vec![Obs::Bool(segs[s].w)]),
            };
            j.judge("is_address_writeable", class, || json!({"address": hx(a)}), got, &allowed);
        }
        // ---- get_ro_data_pointer_at_address(address)
        {
            let got = match catch(|| img.get_ro_data_pointer_at_address(&abv).map(|(s, i)| (s.to_vec(), i))) {
                Err(p) => Obs::Panic(p),
                Ok(Err(_)) => Obs::Err,
                Ok(Ok((s, i))) => Obs::Slice(s, i),
            };
            let (class, allowed) = match bm.seg_of(a) {
                None => ("address not in any segment", vec![Obs::Err]),
                Some(s) => {
                    let ok = Obs::Slice(segs[s].bytes.clone(), (a - segs[s].base) as usize);
                    if segs[s].w {
                        ("address inside a writable segment", vec![Obs::Err])
                    } else if segs[s].r {
                        ("address inside a read-only segment", vec![ok])
                    } else {
                        ("address inside a segment without r and w", vec![ok, Obs::Err])
                    }
                }
            };
            j.judge("get_ro_data_pointer_at_address", class, || json!({"address": hx(a)}), got, &allowed);
        }
        // ---- read_string_until_null_terminator(address)
        {
            let got = match catch(|| img.read_string_until_null_terminator(&abv).map(|s| s.to_string())) {
                Err(p) => Obs::Panic(p),
                Ok(Err(_)) => Obs::Err,
                Ok(Ok(s)) => Obs::Str(s),
            };
            let (class, allowed): (&str, Vec<Obs>) = match bm.seg_of(a) {
                None => ("address not in any segment", vec![Obs::Err]),
                Some(s) => {
                    // bytes from `a` to the first NUL, staying inside the segment
                    let mut inside: Option<Vec<u8>> = None;
                    let mut cur = Vec::new();
                    let mut k = a;
                    while bm.seg_of(k) == Some(s) {
                        if bm.byte(k) == 0 {
                            inside = Some(cur.clone());
                            break;
                        }
                        cur.push(bm.byte(k));
                        k += 1;
                    }
                    match inside {
                        Some(bytes) => match String::from_utf8(bytes) {
                            Ok(text) => {
                                if !segs[s].w && segs[s].r {
                                    ("NUL-terminated UTF-8 string inside a read-only segment", vec![Obs::Str(text)])
                                } else {
                                    // the statement only speaks about read-only segments
                                    ("NUL-terminated UTF-8 string inside a segment that is not read-only", vec![Obs::Str(text), Obs::Err])
                                }
                            }
                            Err(_) => ("bytes before the NUL are not UTF-8", vec![Obs::Err]),
                        },
                        None => {
                            // no NUL before the end of the segment. Failing is fine; following the bytes
                            // into a directly adjacent segment is the only other thing the image supports.
                            let mut allowed = vec![Obs::Err];
                            let mut cur = cur;
                            while bm.seg_of(k).is_some() {
                                if bm.byte(k) == 0 {
                                    if let Ok(text) = String::from_utf8(cur.clone()) {
                                        allowed.push(Obs::Str(text));
                                    }
                                    break;
                                }
                                cur.push(bm.byte(k));
                                k += 1;
                            }
                            ("no NUL before the end of the segment", allowed)
                        }
                    }
                }
            };
            j.judge("read_string_until_null_terminator", class, || json!({"address": hx(a)}), got, &allowed);
        }
        // ---- is_interval_readable / is_interval_writeable (start, end), start <= end
        for e in a..=hi {
            for which in 0..2 {
                let (name, got) = if which == 0 {
                    ("is_interval_readable", catch(|| img.is_interval_readable(a, e)))
                } else {
                    ("is_interval_writeable", catch(|| img.is_interval_writeable(a, e)))
                };
                let got = match got {
                    Err(p) => Obs::Panic(p),
                    Ok(Err(_)) => Obs::Err,
                    Ok(Ok(b)) => Obs::Bool(b),
                };
                let (class, allowed) = match bm.seg_of(a) {
                    None => ("start not in any segment", vec![Obs::Err]),
                    Some(s) => {
                        let flag = Obs::Bool(if which == 0 { segs[s].r } else { segs[s].w });
                        let seg_end = segs[s].base + segs[s].bytes.len() as u64; // one past the last byte
                        if e < seg_end {
                            ("start and end inside one segment", vec![flag])
                        } else if e == seg_end {
                            // callers pass both inclusive and exclusive ends; the documentation does not say
                            ("end is one past the last byte of the segment", vec![flag, Obs::Err])
                        } else {
                            ("interval leaves the segment", vec![Obs::Err])
                        }
                    }
                };
                j.judge(name, class, || json!({"start": hx(a), "end": hx(e)}), got, &allowed);
            }
        }
    }
}

fn flush(j: Judge) {
    j.ctx.add_transitions(j.calls);
    let old = SEEN_OUTCOMES.fetch_or(j.seen, Ordering::Relaxed);
    let new = j.seen & !old;
    for bit in 0..64 {
        if new >> bit & 1 == 1 {
            j.ctx.outcome(&bit);
        }
    }
}

fn segments_disjoint(segs: &[Seg]) -> bool {
    for (i, a) in segs.iter().enumerate() {
        for b in segs.iter().skip(i + 1) {
            let (ae, be) = (a.base + a.bytes.len() as u64, b.base + b.bytes.len() as u64);
            if a.base < be && b.base < ae {
                return false;
            }
        }
    }
    true
}

fn parse_hex(s: &str) -> Option<u64> {
    u64::from_str_radix(s.strip_prefix("0x").unwrap_or(s), 16).ok()
}

fn run_case(ctx: &Ctx, case: &Case) {
    let mut j = Judge { ctx, case, calls: 0, seen: 0 };
    match case {
        Case::Layout { segs, little_endian } => {
            let img = real_image(segs, *little_endian);
            run_queries(&mut j, &img, segs, *little_endian);
        }
        Case::BareMetal { binary, processor_id, flash_base, ram_base, ram_size } => {
            let cfg = BareMetalConfig {
                processor_id: processor_id.clone(),
                flash_base_address: flash_base.clone(),
                ram_base_address: ram_base.clone(),
                ram_size: ram_size.clone(),
            };
            let got = catch(|| RuntimeMemoryImage::new_from_bare_metal(binary, &cfg));
            j.calls += 1;
            // expectation from the documentation of BareMetalConfig / new_from_bare_metal
            let parts: Vec<&str> = processor_id.split(':').collect();
            let endian = match parts.get(1) {
                Some(&"LE") => Some(true),
                Some(&"BE") => Some(false),
                _ => None,
            };
            let bits: Option<u32> = parts.get(2).and_then(|b| b.parse().ok());
            let (fb, rb, rs) = (parse_hex(flash_base), parse_hex(ram_base), parse_hex(ram_size));
            #[derive(PartialEq)]
            enum Want {
                Fail,
                Image,
                Either,
            }
            let want = if parts.len() < 3 || endian.is_none() || bits.is_none() || fb.is_none() || rb.is_none() || rs.is_none() {
                Want::Fail
            } else {
                let end = fb.unwrap() as u128 + binary.len() as u128; // one past the last byte
                let limit = 1u128 << bits.unwrap().min(64);
                if end > limit {
                    Want::Fail // the binary does not fit into the address space
                } else if end == limit {
                    Want::Either // last byte is the last addressable byte: the doc comment is not precise
                } else {
                    Want::Image
                }
            };
            let exp_segs = || {
                vec![
                    Seg { base: fb.unwrap(), bytes: binary.clone(), r: true, w: true },
                    Seg { base: rb.unwrap(), bytes: vec![0; rs.unwrap() as usize], r: true, w: true },
                ]
            };
            let bad = |key: &str, obs: String, exp: &str| {
                ctx.violation(format!("new_from_bare_metal: {key}"), serde_json::to_value(case).unwrap(), json!({"observed": obs, "expected": exp}));
            };
            match got {
                Err(p) => bad(&format!("panic {}", mcx::panic_site(&p)), format!("panic: {p}"), "no panic"),
                Ok(Err(e)) => {
                    j.seen |= 1 << 57;
                    if want == Want::Image {
                        bad("fails for a binary that fits the address space", format!("Err({e})"), "image with flash and RAM segment");
                    }
                }
                Ok(Ok(img)) => {
                    j.seen |= 1 << 58;
                    if want == Want::Fail {
                        bad("accepts an invalid configuration", "Ok(image)".into(), "error");
                    } else {
                        let segs = exp_segs();
                        let exp = real_image(&segs, endian.unwrap());
                        let same_layout = img.memory_segments.len() == 2
                            && img.is_little_endian == exp.is_little_endian
                            && !img.is_lkm
                            && img.memory_segments.iter().zip(exp.memory_segments.iter()).all(|(a, b)| {
                                a.bytes == b.bytes && a.base_address == b.base_address && a.read_flag == b.read_flag && a.write_flag == b.write_flag
                            });
                        if !same_layout {
                            bad("image differs from the documented layout", format!("{img:?}"), "flash segment (rw, file contents) + RAM segment (rw, zeroes)");
                        } else if segments_disjoint(&segs) {
                            run_queries(&mut j, &img, &segs, endian.unwrap());
                        } else {
                            ctx.stat("bare_metal_overlapping_placements_not_queried", 1);
                        }
                    }
                }
            }
        }
    }
    flush(j);
}

// ---------------------------------------------------------------- enumeration

/// All (contents, r, w) of one segment: lengths 1..=max_len over `alphabet`, 4 flag combinations.
fn seg_variants(max_len: usize, alphabet: &[u8]) -> Vec<(Vec<u8>, bool, bool)> {
    let mut out = Vec::new();
    for len in 1..=max_len {
        let n = (alphabet.len() as u64).pow(len as u32);
        for mut i in 0..n {
            let mut bytes = Vec::with_capacity(len);
            for _ in 0..len {
                bytes.push(alphabet[(i % alphabet.len() as u64) as usize]);
                i /= alphabet.len() as u64;
            }
            for f in 0..4 {
                out.push((bytes.clone(), f & 1 != 0, f & 2 != 0));
            }
        }
    }
    out
}

const FIRST_BASES: [u64; 2] = [0, 0x1000];
const GAPS: [u64; 3] = [0, 1, 3];

/// Place `parts` in address order starting at `b0` with the given gaps, then list them in `order`.
fn place(parts: &[&(Vec<u8>, bool, bool)], b0: u64, gaps: &[u64], order: &[usize]) -> Vec<Seg> {
    let mut placed = Vec::new();
    let mut next = b0;
    for (i, p) in parts.iter().enumerate() {
        if i > 0 {
            next += gaps[i - 1];
        }
        placed.push(Seg { base: next, bytes: p.0.clone(), r: p.1, w: p.2 });
        next += p.0.len() as u64;
    }
    order.iter().map(|&i| placed[i].clone()).collect()
}

fn do_layout(ctx: &Ctx, segs: Vec<Seg>, little_endian: bool) {
    let adjacent = segs.iter().any(|a| segs.iter().any(|b| a.base + a.bytes.len() as u64 == b.base));
    let case = Case::Layout { segs, little_endian };
    ctx.sample(|| serde_json::to_value(&case).unwrap());
    run_case(ctx, &case);
    ctx.add_states(1);
    ctx.add_nontrivial(adjacent as u64);
}

/// Every layout of `k` segments drawn from `variants`.
fn enumerate_layouts(ctx: &Ctx, k: usize, variants: &[(Vec<u8>, bool, bool)]) {
    let nv = variants.len() as u64;
    let orders = mcx::space::permutations(k);
    // outer index: first segment x first base x gaps x order x endianness; inner loops: the other segments
    let mut dims = vec![nv, FIRST_BASES.len() as u64];
    for _ in 1..k {
        dims.push(GAPS.len() as u64);
    }
    dims.push(orders.len() as u64);
    dims.push(2);
    let total = mcx::space::size(&dims);
    par_for(total, 1, |i| {
        let d = mcx::space::decode(i, &dims);
        let first = &variants[d[0]];
        let b0 = FIRST_BASES[d[1]];
        let gaps: Vec<u64> = (0..k - 1).map(|g| GAPS[d[2 + g]]).collect();
        let order = &orders[d[2 + (k - 1)]];
        let le = d[3 + (k - 1)] == 1;
        match k {
            1 => do_layout(ctx, place(&[first], b0, &gaps, order), le),
            2 => {
                for second in variants {
                    do_layout(ctx, place(&[first, second], b0, &gaps, order), le);
                }
            }
            3 => {
                for second in variants {
                    for third in variants {
                        do_layout(ctx, place(&[first, second, third], b0, &gaps, order), le);
                    }
                }
            }
            _ => unreachable!(),
        }
    });
}

/// Long segments (8 and 9 bytes), so that 8-byte reads can succeed; alone and with an adjacent neighbour.
fn enumerate_long(ctx: &Ctx) {
    let mut contents: Vec<Vec<u8>> = Vec::new();
    for len in [8usize, 9] {
        let base: Vec<u8> = (0..len).map(|k| 0x11 * (k as u8 + 1)).collect();
        contents.push(base.clone());
        for z in 0..len {
            let mut c = base.clone();
            c[z] = 0;
            contents.push(c);
        }
    }
    let neighbours: Vec<Option<(Vec<u8>, bool, bool)>> = vec![None, Some((vec![b'a'], true, false)), Some((vec![0], true, true))];
    let mut list = Vec::new();
    for c in &contents {
        for f in 0..4u8 {
            for b0 in FIRST_BASES {
                for nb in &neighbours {
                    for nb_first in [false, true] {
                        for le in [false, true] {
                            list.push((c.clone(), f, b0, nb.clone(), nb_first, le));
                        }
                    }
                }
            }
        }
    }
    par_for(list.len() as u64, 4, |i| {
        let (c, f, b0, nb, nb_first, le) = &list[i as usize];
        let long = (c.clone(), f & 1 != 0, f & 2 != 0);
        match nb {
            None => {
                if !*nb_first {
                    do_layout(ctx, place(&[&long], *b0, &[], &[0]), *le);
                }
            }
            Some(n) => {
                // neighbour directly before or directly behind, both list orders
                for order in [[0usize, 1], [1, 0]] {
                    let parts: [&(Vec<u8>, bool, bool); 2] = if *nb_first { [n, &long] } else { [&long, n] };
                    do_layout(ctx, place(&parts, *b0, &[0], &order), *le);
                }
            }
        }
    });
}

fn enumerate_bare_metal(ctx: &Ctx) {
    let ids = ["ARM:LE:32:Cortex", "ARM:BE:32:Cortex", "tiny:LE:16:default", "AARCH64:LE:64:v8A", "ARM:LE", "ARM:XX:32:Cortex", "ARM:LE:abc:Cortex"];
    let binaries: Vec<Vec<u8>> = vec![vec![], vec![b'a'], vec![b'a', 0], vec![0xC3, b'b', 0, b'a']];
    let mut cases = Vec::new();
    for id in ids {
        let bits: u32 = id.split(':').nth(2).and_then(|b| b.parse().ok()).unwrap_or(32);
        let top: u128 = 1u128 << bits;
        for bin in &binaries {
            // flash placements: bottom, middle, and around the top of the address space
            let mut flashes: Vec<u128> = vec![0, 2, 0x1000];
            for back in 0..=5u128 {
                flashes.push(top - back);
            }
            flashes.retain(|f| *f <= u64::MAX as u128);
            flashes.sort();
            flashes.dedup();
            for f in flashes {
                let f = f as u64;
                let end = f.saturating_add(bin.len() as u64);
                // RAM: adjacent behind, adjacent before, with a gap, overlapping
                let rams: Vec<(u64, u64)> = vec![(end, 2), (end, 0), (end.saturating_add(3), 2), (f.saturating_sub(2), 2), (f, 1)];
                for (rb, rs) in rams {
                    if rb.checked_add(rs + 4).is_none() {
                        continue;
                    }
                    for prefix in [true, false] {
                        let h = |v: u64| if prefix { format!("0x{v:x}") } else { format!("{v:x}") };
                        cases.push(Case::BareMetal { binary: bin.clone(), processor_id: id.to_string(), flash_base: h(f), ram_base: h(rb), ram_size: h(rs) });
                    }
                }
            }
        }
    }
    cases.push(Case::BareMetal { binary: vec![1], processor_id: "ARM:LE:32:Cortex".into(), flash_base: "xyz".into(), ram_base: "0".into(), ram_size: "1".into() });
    par_for(cases.len() as u64, 8, |i| {
        let case = &cases[i as usize];
        ctx.sample(|| serde_json::to_value(case).unwrap());
        run_case(ctx, case);
        ctx.add_states(1);
        ctx.add_nontrivial(1);
    });
    ctx.stat("bare_metal_configurations", cases.len() as u64);
}

fn main() {
    // RUST_BACKTRACE=1 in the environment would make every anyhow error of the real code capture a
    // backtrace (16x slower); the harness never prints them.
    std::env::set_var("RUST_LIB_BACKTRACE", "0");
    let ctx = Ctx::new("C19");
    if let Some(c) = ctx.replay_case() {
        let case: Case = serde_json::from_value(c.clone()).unwrap_or_else(|e| mcx::machinery(&format!("bad case: {e}")));
        run_case(&ctx, &case);
        ctx.finish("replay of one case", false);
    }
    let ctx = &ctx;
    const ALPHA: [u8; 4] = [0, b'a', b'b', 0xC3];
    let thorough = ctx.thorough();
    // one segment: lengths 1..=4, full alphabet
    enumerate_layouts(ctx, 1, &seg_variants(4, &ALPHA));
    // two segments
    let two = if thorough { seg_variants(4, &ALPHA) } else { seg_variants(3, &ALPHA) };
    enumerate_layouts(ctx, 2, &two);
    // three segments
    let three = if thorough { seg_variants(2, &[0, b'a', 0xC3]) } else { seg_variants(1, &[0, b'a']) };
    enumerate_layouts(ctx, 3, &three);
    enumerate_long(ctx);
    enumerate_bare_metal(ctx);

    ctx.set(
        "bounds",
        json!({
            "segments": "1, 2 and 3 disjoint segments, first base in {0, 0x1000}, gaps between neighbours in {0 (adjacent), 1, 3}, every list order, r/w in 4 combinations, both byte orders",
            "contents": if thorough { "1 and 2 segments: lengths 1..4 over {0,'a','b',0xC3}; 3 segments: lengths 1..2 over {0,'a',0xC3}" } else { "1 segment: lengths 1..4 over {0,'a','b',0xC3}; 2 segments: lengths 1..3 over the same; 3 segments: length 1 over {0,'a'}" },
            "long_segments": "8 and 9 bytes (distinct bytes, NUL at each position), alone and with an adjacent 1-byte neighbour before/behind",
            "queries": "every address from min-2 (not below 0) to max+2: read with sizes 1,2,4,8; string read; is_address_writeable; get_ro_data_pointer_at_address; is_global_memory_address for widths 1,2,4,8 in which the address fits; is_interval_readable/writeable for every start <= end in the window",
            "bare_metal": "7 processor ids (LE/BE, 16/32/64 bit, 3 malformed) x 4 binaries x flash placements at the bottom, middle and top of the address space x 5 RAM placements x hex with/without 0x",
        }),
    );
    ctx.assume("segments are pairwise disjoint (the property's precondition); overlapping flash/RAM placements are constructed but not queried");
    ctx.assume("'read-only segment' = readable and not writable; for segments that are neither readable nor writable the stored bytes, 'unknown' or a failure are accepted");
    ctx.assume("string reads: inside a segment that is not read-only both the stored string and a failure are accepted; without a NUL before the segment end a failure or the string continued through directly adjacent segments is accepted");
    ctx.assume("is_interval_*(start,end): end == one past the last byte of the segment is accepted as inside or outside (callers use both conventions); only start <= end is enumerated");
    ctx.assume("is_global_memory_address: must be false for unmapped addresses and true when a pointer-sized range fits into the segment; in between both answers are accepted");
    ctx.assume("new_from_bare_metal: a binary whose last byte is the last addressable byte may be accepted or rejected");
    ctx.finish(
        "one case = one memory image (segment list, byte order); for each case every query of the window is evaluated on the real RuntimeMemoryImage and compared with an independent address->(byte,segment) map; non-trivial = the image contains two directly adjacent segments (or is a bare-metal configuration)",
        true,
    );
}
