//! C18 — constant-argument checkers decide on the argument's actual value.
//!
//! Statement: when the block containing a call to umask (or to a configured
//! allocation-like function) computes the call's parameter as a constant from
//! constants alone, the umask check (CWE560) warns exactly when that constant exceeds
//! 0o177 and differs from 0o777, and the sizeof-on-pointer check (CWE467) warns exactly
//! when some parameter equals the pointer size.
//!
//! Shape E. Enumerated: every def sequence of length <= 3 (thorough: 4) over
//! {P = c, R = c, P = R, P = P + c, P = P - c, P = P | c, P = R ^ R,
//!  Store [RSP+8|16] = P | R | c, P | R = Load [RSP+8|16]} with
//! c in {0, 0o22, 0o177, 0o200, 0o666, 0o777, 0o1000, 4, 8, 2^32}; loads only from a slot
//! written earlier in the sequence. Each sequence is put in front of a call to `umask`
//! (parameter: low 4 bytes of P), to `malloc` (parameter: P, 8 bytes) and to `memcpy2`
//! (parameters: P and the stack slot [RSP+8]) — three functions of one program. The
//! raw program goes through the real pipeline in its order (`normalize_basic`,
//! `normalize_optimize`, `get_program_cfg`; neither check reads any further analysis
//! result) and the real `CWE_MODULE.run` of both checks.
//!
//! Oracle: a concrete constant-propagation interpreter over the *raw* def sequence with
//! `Unknown` (`shared/c18_model.rs`); only when it yields constants is anything demanded.
//! Judged: presence of a warning for the call, the argument value CWE560 reports, panics.
//! Not judged: wording, version, log messages, anything when the reference says unknown.

#[path = "../shared/c18_model.rs"]
mod c18_model;

use c18_model::*;
use mcx::{catch, panic_site, par_for, Ctx};
use props::ccl::analysis::graph::get_program_cfg;
use props::ccl::checkers::{cwe_467, cwe_560};
use props::ccl::pipeline::AnalysisResults;
use props::ccl::utils::log::{CweWarning, LogMessage};
use props::irb::render;
use serde_json::{json, Value};

fn case_json(case: &Case) -> Value {
    serde_json::to_value(case).unwrap()
}

fn judge(ctx: &Ctx, check: &str, case: &Case, f: usize, demand: Demand, warnings: &[CweWarning], extra: impl Fn() -> Value) -> Option<bool> {
    let id = format!("{}", call_tid(f, case.defs.len()));
    let n = warnings.iter().filter(|w| w.tids.first() == Some(&id)).count();
    let detail = |what: &str| json!({"check": check, "callee": CALLEE_NAMES[f], "call": id, "expected": what, "warnings_for_the_call": n, "info": extra()});
    match (demand, n) {
        (Demand::Warn, 0) => ctx.violation(format!("{check} wrong-decision missing-warning ({})", CALLEE_NAMES[f]), case_json(case), detail("warning")),
        (Demand::NoWarn, 1) => ctx.violation(format!("{check} wrong-decision spurious-warning ({})", CALLEE_NAMES[f]), case_json(case), detail("no warning")),
        (_, n) if n > 1 => ctx.violation(format!("{check} duplicate-warning ({})", CALLEE_NAMES[f]), case_json(case), detail("at most one warning")),
        _ => (),
    }
    match demand {
        Demand::Warn => ctx.stat(&format!("judged: {} warning demanded", CALLEE_NAMES[f]), 1),
        Demand::NoWarn => ctx.stat(&format!("judged: {} silence demanded", CALLEE_NAMES[f]), 1),
        _ => (),
    }
    match demand {
        Demand::Open(why) => {
            ctx.stat(&format!("not_judged: {} {why}", CALLEE_NAMES[f]), 1);
            None
        }
        _ => Some(n > 0),
    }
}

fn run_case(ctx: &Ctx, case: &Case) {
    let mut project = build(case);
    let raw_render = || render(&build(case));
    if let Err(p) = catch(|| {
        let _ = project.normalize_basic();
        let _ = project.normalize_optimize();
    }) {
        ctx.violation(format!("normalization panic {}", panic_site(&p)), case_json(case), json!({"panic": p, "program": raw_render()}));
        return;
    }
    let cfg = match catch(|| get_program_cfg(&project.program)) {
        Ok(g) => g,
        Err(p) => {
            ctx.violation(format!("cfg construction panic {}", panic_site(&p)), case_json(case), json!({"panic": p, "program": render(&project)}));
            return;
        }
    };
    let binary: Vec<u8> = Vec::new();
    let results = AnalysisResults::new(&binary, &cfg, &project);
    let info = || json!({"raw_program": raw_render(), "program_seen_by_check": render(&project), "reference_P_R_slots": format!("{:?}", interpret(&case.defs))});
    let mut judged = Vec::new();

    // ---- CWE560
    let got: Result<(Vec<LogMessage>, Vec<CweWarning>), String> = catch(|| (cwe_560::CWE_MODULE.run)(&results, &Value::Null));
    ctx.add_transitions(1);
    match got {
        Err(p) => ctx.violation(format!("cwe560 panic {}", panic_site(&p)), case_json(case), json!({"panic": p, "info": info()})),
        Ok((logs, warnings)) => {
            let (demand, value) = demand_umask(&case.defs);
            let foreign = warnings.iter().filter(|w| w.name != "CWE560" || w.tids.first() != Some(&format!("{}", call_tid(0, case.defs.len())))).count();
            if foreign > 0 {
                ctx.violation("cwe560 spurious-warning (not a umask call)", case_json(case), json!({"warnings": warnings.iter().map(|w| w.tids.clone()).collect::<Vec<_>>(), "info": info()}));
            }
            let extra = || json!({"reference_argument": value.map(|v| format!("{v:#o}")), "check_logs": logs.iter().map(|l| l.text.clone()).collect::<Vec<_>>(), "programs": info()});
            let j = judge(ctx, "cwe560", case, 0, demand, &warnings, extra);
            if let (Some(true), Demand::Warn, Some(v)) = (j, demand, value) {
                // the value the check names must be the parameter's value
                let named: Vec<String> = warnings.iter().flat_map(|w| w.other.iter()).filter(|o| o.first().map(|s| s == "umask_arg").unwrap_or(false)).filter_map(|o| o.get(1).cloned()).collect();
                if named != vec![format!("{v:#o}")] {
                    ctx.violation("cwe560 wrong-value", case_json(case), json!({"reported": named, "expected": format!("{v:#o}"), "info": info()}));
                }
            }
            judged.push((0usize, j));
        }
    }
    // ---- CWE467
    let config = json!({"symbols": ["malloc", "memcpy2", "not_imported"]});
    let got: Result<(Vec<LogMessage>, Vec<CweWarning>), String> = catch(|| (cwe_467::CWE_MODULE.run)(&results, &config));
    ctx.add_transitions(1);
    match got {
        Err(p) => ctx.violation(format!("cwe467 panic {}", panic_site(&p)), case_json(case), json!({"panic": p, "info": info()})),
        Ok((_, warnings)) => {
            let ids = [format!("{}", call_tid(1, case.defs.len())), format!("{}", call_tid(2, case.defs.len()))];
            if warnings.iter().any(|w| w.name != "CWE467" || !w.tids.first().map(|t| ids.contains(t)).unwrap_or(false)) {
                ctx.violation("cwe467 spurious-warning (not a configured call)", case_json(case), json!({"warnings": warnings.iter().map(|w| w.tids.clone()).collect::<Vec<_>>(), "info": info()}));
            }
            judged.push((1, judge(ctx, "cwe467", case, 1, demand_malloc(&case.defs), &warnings, info)));
            judged.push((2, judge(ctx, "cwe467", case, 2, demand_memcpy2(&case.defs), &warnings, info)));
        }
    }
    ctx.outcome(&judged);
    if judged.iter().any(|(_, j)| j.is_some()) {
        ctx.add_nontrivial(1);
    }
    ctx.add_states(1);
}

fn main() {
    let ctx = Ctx::new("C18");
    if let Some(c) = ctx.replay_case() {
        let case: Case = serde_json::from_value(c.clone()).unwrap_or_else(|e| mcx::machinery(&format!("bad case: {e}")));
        if !in_scope(&case.defs) {
            mcx::machinery("replayed case is outside the enumerated space (load from a slot that was not stored before)");
        }
        run_case(&ctx, &case);
        ctx.finish("replay of one case", false);
    }
    let ctx = &ctx;
    let max_len: u32 = if ctx.thorough() { 4 } else { 3 };
    let letters = alphabet(&CONSTS);
    let k = letters.len() as u64;
    let total = mcx::space::seq_count(k, max_len);
    par_for(total, 128, |i| {
        let defs: Vec<D> = mcx::space::seq_decode(i, k, max_len).into_iter().map(|x| letters[x]).collect();
        if !in_scope(&defs) {
            ctx.stat("sequences_outside_the_space (load before store)", 1);
            return;
        }
        let case = Case { defs };
        ctx.sample(|| json!({"case": case, "raw_program": render(&build(&case))}));
        run_case(ctx, &case);
    });
    ctx.set(
        "bounds",
        json!({"def_sequence_length": format!("0..={max_len}"), "def_alphabet": k, "constants": CONSTS.iter().map(|c| format!("{c:#o}")).collect::<Vec<_>>(),
               "stack_slots": "[RSP+8], [RSP+16], 8 bytes each", "sequences_before_scope_filter": total,
               "calls": "umask(low 4 bytes of RDI), malloc(RDI), memcpy2(RDI, [RSP+8])", "pointer_size": POINTER_SIZE}),
    );
    ctx.assume("registers and stack slots are unknown at block entry; RSP is the frame base");
    ctx.assume("loads only read a slot written earlier in the same block with the same offset and size (partially overlapping stack slots are outside the space)");
    ctx.assume("a umask argument with the sign bit set at its declared 4-byte width is not judged (whether it 'exceeds 0o177' depends on signedness)");
    ctx.assume("x ^ x of an unknown x is a constant but not computed from constants alone: not judged (nor anything computed from it)");
    ctx.assume("the parameter of umask is the low 4 bytes of RDI (declared size), the parameters of the sizeof check are 8 bytes wide");
    ctx.finish(
        "one case per in-scope def sequence; the sequence precedes a call to umask, malloc and memcpy2 in three functions of one program; the program runs through normalize_basic + normalize_optimize and both real checks; each of the three decisions is compared with the reference constant propagation over the raw sequence; non-trivial = at least one of the three decisions is demanded by the reference",
        true,
    );
}
