//! Glue between the engine (`mcx`) and the code under test (`cwe_checker_lib`).
pub use cwe_checker_lib as ccl;
pub use mcx;

use ccl::intermediate_representation::*;

/// Build a real `Bitvector` of `bytes` width from the low bits of `v`.
pub fn bv(v: u128, bytes: u32) -> Bitvector {
    let full = Bitvector::from_u128(v);
    if bytes == 16 {
        full
    } else {
        full.into_truncate((bytes * 8) as usize).unwrap()
    }
}
/// Read back a real `Bitvector` (width <= 16 bytes) as `(value, bytes)`.
pub fn unbv(b: &Bitvector) -> (u128, u32) {
    use apint::Width;
    let bits = b.width().to_usize() as u32;
    let v = b.clone().into_zero_resize(128).try_to_u128().unwrap();
    (v, bits / 8)
}

pub fn hex(v: u128) -> String {
    format!("{v:#x}")
}

pub mod ir_interp;
pub mod irb;
pub mod pcode;
