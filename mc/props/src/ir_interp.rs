//! Independent concrete interpreter for IR `Project`s.
//!
//! Arithmetic comes from `mcx::refsem::ops` (mapped onto the IR's operation
//! enums by *name*), never from the repository's `Bitvector::bin_op`.
//! Distinct IR `Variable`s (name, size, is_temp) are distinct storage cells,
//! exactly as the analyses treat them.

use crate::ccl::intermediate_representation::*;
use crate::unbv;
use mcx::fixed_hash;
use mcx::refsem::ops::{self, Bin, Cast, Un};
use serde::{Deserialize, Serialize};
use std::collections::BTreeMap;

#[derive(Clone, Debug, PartialEq, Eq, Serialize, Deserialize)]
pub enum Abort {
    /// division by zero, non-boolean operand of a boolean negation, ...
    Undefined(String),
    /// operand sizes do not fit the operation
    IllTyped(String),
}

/// How the environment behaves at a call that returns.
#[derive(Clone, Copy, Debug, PartialEq, Eq, Serialize, Deserialize)]
pub enum CallEnv {
    /// callee changes nothing
    Identity,
    /// every physical register except the stack pointer gets a fresh value
    ClobberRegs,
    /// like ClobberRegs, and the 64 bytes around the stack pointer are overwritten
    ClobberRegsAndStack,
}

#[derive(Clone, Debug, PartialEq, Eq, Serialize, Deserialize)]
pub struct Snapshot {
    /// physical registers (the project's register set), by "name:size"
    pub regs: BTreeMap<String, u128>,
    /// memory bytes that differ from the initial pattern
    pub mem: BTreeMap<u64, u8>,
}

#[derive(Clone, Debug, PartialEq, Eq, Serialize, Deserialize)]
pub enum Event {
    Load { addr: u64, size: u32, value: u128 },
    Store { addr: u64, size: u32, value: u128 },
    Call { target: String, state: Snapshot },
    CallInd { target: u128, state: Snapshot },
    CallOther { desc: String, state: Snapshot },
    BranchInd { target: u128, state: Snapshot },
    Return { target: u128, state: Snapshot },
    DeadEnd { state: Snapshot },
}

#[derive(Clone, Debug, PartialEq, Eq, Serialize, Deserialize)]
pub enum End {
    Returned,
    DeadEnd,
    IndirectJump,
    CallWithoutReturn,
    FuelOut,
    Abort(Abort),
    MissingBlock(String),
}

#[derive(Clone, Debug, PartialEq, Eq, Serialize, Deserialize)]
pub struct Trace {
    pub events: Vec<Event>,
    pub end: End,
    /// TIDs of executed blocks (not part of the observable behaviour)
    pub blocks: Vec<String>,
}

#[derive(Clone, Debug)]
pub struct Machine {
    pub vars: BTreeMap<Variable, u128>,
    pub mem: BTreeMap<u64, u8>,
    pub init_vars: BTreeMap<Variable, u128>,
    pub seed: u64,
    pub little_endian: bool,
    pub ptr_bytes: u32,
    calls: u64,
}

impl Machine {
    pub fn new(seed: u64, little_endian: bool, ptr_bytes: u32) -> Machine {
        Machine { vars: BTreeMap::new(), mem: BTreeMap::new(), init_vars: BTreeMap::new(), seed, little_endian, ptr_bytes, calls: 0 }
    }
    pub fn set_init(&mut self, v: &Variable, value: u128) {
        self.init_vars.insert(v.clone(), value & ops::mask(u64::from(v.size) as u32));
    }
    fn initial_var(&self, v: &Variable) -> u128 {
        if let Some(x) = self.init_vars.get(v) {
            return *x;
        }
        let h = fixed_hash(&("var", &v.name, u64::from(v.size), self.seed)) as u128;
        (h | (h << 64)) & ops::mask(u64::from(v.size) as u32)
    }
    pub fn initial_mem(&self, addr: u64) -> u8 {
        // position dependent pattern, never 0 on purpose is not needed
        (fixed_hash(&("mem", addr, self.seed)) & 0xff) as u8
    }
    pub fn read_var(&self, v: &Variable) -> u128 {
        match self.vars.get(v) {
            Some(x) => *x,
            None => self.initial_var(v),
        }
    }
    pub fn write_var(&mut self, v: &Variable, value: u128) {
        self.vars.insert(v.clone(), value & ops::mask(u64::from(v.size) as u32));
    }
    pub fn read_byte(&self, addr: u64) -> u8 {
        match self.mem.get(&addr) {
            Some(b) => *b,
            None => self.initial_mem(addr),
        }
    }
    fn addr_mask(&self) -> u64 {
        if self.ptr_bytes >= 8 {
            u64::MAX
        } else {
            (1u64 << (self.ptr_bytes * 8)) - 1
        }
    }
    pub fn load(&self, addr: u64, size: u32) -> u128 {
        let mut v: u128 = 0;
        for i in 0..size {
            let a = addr.wrapping_add(i as u64) & self.addr_mask();
            let b = self.read_byte(a) as u128;
            if self.little_endian {
                v |= b << (8 * i);
            } else {
                v = (v << 8) | b;
            }
        }
        v
    }
    pub fn store(&mut self, addr: u64, size: u32, value: u128) {
        for i in 0..size {
            let a = addr.wrapping_add(i as u64) & self.addr_mask();
            let b = if self.little_endian { (value >> (8 * i)) & 0xff } else { (value >> (8 * (size - 1 - i))) & 0xff } as u8;
            self.mem.insert(a, b);
        }
    }
    pub fn snapshot(&self, project: &Project) -> Snapshot {
        let mut regs = BTreeMap::new();
        for r in project.register_set.iter() {
            regs.insert(format!("{}:{}", r.name, u64::from(r.size)), self.read_var(r));
        }
        let mem = self.mem.iter().filter(|(a, b)| self.initial_mem(**a) != **b).map(|(a, b)| (*a, *b)).collect();
        Snapshot { regs, mem }
    }

    pub fn eval(&self, e: &Expression) -> Result<u128, Abort> {
        let size = u64::from(e.bytesize()) as u32;
        if size == 0 || size > 16 {
            return Err(Abort::IllTyped(format!("expression of size {size}")));
        }
        match e {
            Expression::Var(v) => Ok(self.read_var(v)),
            Expression::Const(c) => Ok(unbv(c).0),
            Expression::Unknown { description, size } => {
                Ok((fixed_hash(&("unknown", description)) as u128) & ops::mask(u64::from(*size) as u32))
            }
            Expression::BinOp { op, lhs, rhs } => {
                let (a, b) = (self.eval(lhs)?, self.eval(rhs)?);
                let (wa, wb) = (u64::from(lhs.bytesize()) as u32, u64::from(rhs.bytesize()) as u32);
                let name = format!("{op:?}");
                match Bin::from_loose_name(&name) {
                    Some(r) => {
                        let same_size_needed = !(r == Bin::Piece || r.is_shift());
                        if same_size_needed && wa != wb {
                            return Err(Abort::IllTyped(format!("{name} on sizes {wa} and {wb}")));
                        }
                        if r == Bin::Piece && wa + wb > 16 {
                            return Err(Abort::IllTyped("piece wider than 16 bytes".into()));
                        }
                        if r.is_bool() && (wa != 1 || a > 1 || b > 1) {
                            return Err(Abort::Undefined(format!("{name} on non-boolean")));
                        }
                        ops::bin(r, a, wa, b, wb).ok_or_else(|| Abort::Undefined(format!("{name} undefined")))
                    }
                    None => Ok((fixed_hash(&("float", ops::float_key(&name), a, b)) as u128) & ops::mask(size)),
                }
            }
            Expression::UnOp { op, arg } => {
                let a = self.eval(arg)?;
                let w = u64::from(arg.bytesize()) as u32;
                let name = format!("{op:?}");
                let r = match name.as_str() {
                    "IntNegate" => Some(Un::IntNegate),
                    "Int2Comp" => Some(Un::Int2Comp),
                    "BoolNegate" => Some(Un::BoolNegate),
                    _ => None,
                };
                match r {
                    Some(r) => ops::un(r, a, w).ok_or_else(|| Abort::Undefined(format!("{name} on non-boolean"))),
                    None => Ok((fixed_hash(&("float", ops::float_key(&name), a)) as u128) & ops::mask(size)),
                }
            }
            Expression::Cast { op, size: to, arg } => {
                let a = self.eval(arg)?;
                let w = u64::from(arg.bytesize()) as u32;
                let to = u64::from(*to) as u32;
                let name = format!("{op:?}");
                let r = match name.as_str() {
                    "IntZExt" => Some(Cast::IntZExt),
                    "IntSExt" => Some(Cast::IntSExt),
                    "PopCount" => Some(Cast::PopCount),
                    "LzCount" => Some(Cast::LzCount),
                    _ => None,
                };
                match r {
                    Some(r) => {
                        if matches!(r, Cast::IntZExt | Cast::IntSExt) && to < w {
                            return Err(Abort::IllTyped(format!("{name} from {w} to {to} bytes")));
                        }
                        Ok(ops::cast(r, a, w, to))
                    }
                    None => Ok((fixed_hash(&("float", ops::float_key(&name), a)) as u128) & ops::mask(to)),
                }
            }
            Expression::Subpiece { low_byte, size, arg } => {
                let a = self.eval(arg)?;
                let w = u64::from(arg.bytesize()) as u32;
                let (low, size) = (u64::from(*low_byte) as u32, u64::from(*size) as u32);
                if low + size > w {
                    return Err(Abort::IllTyped(format!("subpiece [{low},{}) of {w} bytes", low + size)));
                }
                Ok(ops::subpiece(a, w, low, size))
            }
        }
    }

    /// Execute one def; loads/stores are appended to `events`.
    pub fn exec_def(&mut self, def: &Def, events: &mut Vec<Event>) -> Result<(), Abort> {
        match def {
            Def::Assign { var, value } => {
                if var.size != value.bytesize() {
                    return Err(Abort::IllTyped(format!("assign {} bytes to {}", u64::from(value.bytesize()), var)));
                }
                let v = self.eval(value)?;
                self.write_var(var, v);
            }
            Def::Load { var, address } => {
                let a = (self.eval(address)? as u64) & self.addr_mask();
                let size = u64::from(var.size) as u32;
                let v = self.load(a, size);
                events.push(Event::Load { addr: a, size, value: v });
                self.write_var(var, v);
            }
            Def::Store { address, value } => {
                let a = (self.eval(address)? as u64) & self.addr_mask();
                let v = self.eval(value)?;
                let size = u64::from(value.bytesize()) as u32;
                events.push(Event::Store { addr: a, size, value: v });
                self.store(a, size, v);
            }
        }
        Ok(())
    }

    fn apply_call_env(&mut self, project: &Project, env: CallEnv) {
        self.calls += 1;
        // P-Code temporaries (unique space) never live across a call: a call ends the
        // machine instruction. After a call every temporary is back to "uninitialised".
        self.vars.retain(|v, _| !v.is_temp);
        if env == CallEnv::Identity {
            return;
        }
        let sp = project.stack_pointer_register.clone();
        let regs: Vec<Variable> = project.register_set.iter().cloned().collect();
        for r in regs {
            if r == sp {
                continue;
            }
            let mut v = fixed_hash(&("clobber", &r.name, self.calls, self.seed)) as u128;
            if u64::from(r.size) == 1 {
                v &= 1; // flags stay boolean
            }
            self.write_var(&r, v);
        }
        if env == CallEnv::ClobberRegsAndStack {
            let spv = self.read_var(&sp) as u64;
            for i in 0..64u64 {
                let a = spv.wrapping_sub(32).wrapping_add(i) & self.addr_mask();
                self.mem.insert(a, (fixed_hash(&("clobbermem", a, self.calls, self.seed)) & 0xff) as u8);
            }
        }
    }
}

/// Where control goes after a block.
#[derive(Clone, Debug, PartialEq, Eq)]
pub enum Exit {
    Goto(Tid),
    Stop(End),
}

/// Execute the defs and jumps of one block.
pub fn exec_block(project: &Project, m: &mut Machine, blk: &Term<Blk>, env: CallEnv, events: &mut Vec<Event>) -> Exit {
    for def in &blk.term.defs {
        if let Err(a) = m.exec_def(&def.term, events) {
            return Exit::Stop(End::Abort(a));
        }
    }
    for jmp in &blk.term.jmps {
        match &jmp.term {
            Jmp::Branch(t) => return Exit::Goto(t.clone()),
            Jmp::CBranch { target, condition } => match m.eval(condition) {
                Err(a) => return Exit::Stop(End::Abort(a)),
                Ok(c) => {
                    if c != 0 {
                        return Exit::Goto(target.clone());
                    }
                }
            },
            Jmp::BranchInd(e) => match m.eval(e) {
                Err(a) => return Exit::Stop(End::Abort(a)),
                Ok(v) => {
                    events.push(Event::BranchInd { target: v, state: m.snapshot(project) });
                    return Exit::Stop(End::IndirectJump);
                }
            },
            Jmp::Return(e) => match m.eval(e) {
                Err(a) => return Exit::Stop(End::Abort(a)),
                Ok(v) => {
                    events.push(Event::Return { target: v, state: m.snapshot(project) });
                    return Exit::Stop(End::Returned);
                }
            },
            Jmp::Call { target, return_ } => {
                events.push(Event::Call { target: format!("{target}"), state: m.snapshot(project) });
                match return_ {
                    Some(r) => {
                        m.apply_call_env(project, env);
                        return Exit::Goto(r.clone());
                    }
                    None => return Exit::Stop(End::CallWithoutReturn),
                }
            }
            Jmp::CallInd { target, return_ } => match m.eval(target) {
                Err(a) => return Exit::Stop(End::Abort(a)),
                Ok(v) => {
                    events.push(Event::CallInd { target: v, state: m.snapshot(project) });
                    match return_ {
                        Some(r) => {
                            m.apply_call_env(project, env);
                            return Exit::Goto(r.clone());
                        }
                        None => return Exit::Stop(End::CallWithoutReturn),
                    }
                }
            },
            Jmp::CallOther { description, return_ } => {
                events.push(Event::CallOther { desc: description.clone(), state: m.snapshot(project) });
                match return_ {
                    Some(r) => {
                        m.apply_call_env(project, env);
                        return Exit::Goto(r.clone());
                    }
                    None => return Exit::Stop(End::CallWithoutReturn),
                }
            }
        }
    }
    events.push(Event::DeadEnd { state: m.snapshot(project) });
    Exit::Stop(End::DeadEnd)
}

/// Run one function from its first block, at most `fuel` blocks.
pub fn run_function(project: &Project, sub: &Term<Sub>, m: &mut Machine, env: CallEnv, fuel: usize) -> Trace {
    let mut events = Vec::new();
    let mut blocks = Vec::new();
    let Some(mut cur) = sub.term.blocks.first() else {
        return Trace { events, end: End::MissingBlock("empty function".into()), blocks };
    };
    for _ in 0..fuel {
        blocks.push(format!("{}", cur.tid));
        match exec_block(project, m, cur, env, &mut events) {
            Exit::Stop(end) => return Trace { events, end, blocks },
            Exit::Goto(t) => {
                let next = sub.term.blocks.iter().find(|b| b.tid == t).or_else(|| project.program.term.find_block(&t));
                match next {
                    Some(b) => cur = b,
                    None => return Trace { events, end: End::MissingBlock(format!("{t}")), blocks },
                }
            }
        }
    }
    Trace { events, end: End::FuelOut, blocks }
}
