//! Small builder DSL for IR programs (all IR structs have pub fields).
use crate::ccl::intermediate_representation::*;
use std::collections::{BTreeMap, BTreeSet};

pub fn var(name: &str, size: u64) -> Variable {
    Variable { name: name.to_string(), size: ByteSize::new(size), is_temp: false }
}
pub fn tmp(name: &str, size: u64) -> Variable {
    Variable { name: name.to_string(), size: ByteSize::new(size), is_temp: true }
}
pub fn ev(v: &Variable) -> Expression {
    Expression::Var(v.clone())
}
pub fn reg(name: &str, size: u64) -> Expression {
    Expression::Var(var(name, size))
}
pub fn cst(v: u128, size: u64) -> Expression {
    Expression::Const(crate::bv(v, size as u32))
}
/// signed constant helper
pub fn csti(v: i128, size: u64) -> Expression {
    Expression::Const(crate::bv(v as u128, size as u32))
}
pub fn bin(op: BinOpType, l: Expression, r: Expression) -> Expression {
    Expression::BinOp { op, lhs: Box::new(l), rhs: Box::new(r) }
}
pub fn un(op: UnOpType, a: Expression) -> Expression {
    Expression::UnOp { op, arg: Box::new(a) }
}
pub fn cast(op: CastOpType, size: u64, a: Expression) -> Expression {
    Expression::Cast { op, size: ByteSize::new(size), arg: Box::new(a) }
}
pub fn subpiece(low: u64, size: u64, a: Expression) -> Expression {
    Expression::Subpiece { low_byte: ByteSize::new(low), size: ByteSize::new(size), arg: Box::new(a) }
}
pub fn add(l: Expression, r: Expression) -> Expression {
    bin(BinOpType::IntAdd, l, r)
}
pub fn sub_(l: Expression, r: Expression) -> Expression {
    bin(BinOpType::IntSub, l, r)
}
pub fn and(l: Expression, r: Expression) -> Expression {
    bin(BinOpType::IntAnd, l, r)
}

pub fn tid(s: &str) -> Tid {
    Tid::new(s)
}
/// A Tid with an address (as the extractor emits them).
pub fn tid_at(id: &str, address: &str) -> Tid {
    let mut t = Tid::new(id);
    t.address = address.to_string();
    t
}

pub fn assign(t: &str, v: Variable, e: Expression) -> Term<Def> {
    Term { tid: tid(t), term: Def::Assign { var: v, value: e } }
}
pub fn load(t: &str, v: Variable, addr: Expression) -> Term<Def> {
    Term { tid: tid(t), term: Def::Load { var: v, address: addr } }
}
pub fn store(t: &str, addr: Expression, value: Expression) -> Term<Def> {
    Term { tid: tid(t), term: Def::Store { address: addr, value } }
}

pub fn j_branch(t: &str, target: &str) -> Term<Jmp> {
    Term { tid: tid(t), term: Jmp::Branch(tid(target)) }
}
pub fn j_cbranch(t: &str, target: &str, cond: Expression) -> Term<Jmp> {
    Term { tid: tid(t), term: Jmp::CBranch { target: tid(target), condition: cond } }
}
pub fn j_call(t: &str, target: &str, ret: Option<&str>) -> Term<Jmp> {
    Term { tid: tid(t), term: Jmp::Call { target: tid(target), return_: ret.map(tid) } }
}
pub fn j_callind(t: &str, target: Expression, ret: Option<&str>) -> Term<Jmp> {
    Term { tid: tid(t), term: Jmp::CallInd { target, return_: ret.map(tid) } }
}
pub fn j_callother(t: &str, desc: &str, ret: Option<&str>) -> Term<Jmp> {
    Term { tid: tid(t), term: Jmp::CallOther { description: desc.to_string(), return_: ret.map(tid) } }
}
pub fn j_ret(t: &str, e: Expression) -> Term<Jmp> {
    Term { tid: tid(t), term: Jmp::Return(e) }
}
pub fn j_branchind(t: &str, e: Expression) -> Term<Jmp> {
    Term { tid: tid(t), term: Jmp::BranchInd(e) }
}

pub fn blk(t: &str, defs: Vec<Term<Def>>, jmps: Vec<Term<Jmp>>) -> Term<Blk> {
    Term { tid: tid(t), term: Blk { defs, jmps, indirect_jmp_targets: Vec::new() } }
}
pub fn blk_hints(t: &str, defs: Vec<Term<Def>>, jmps: Vec<Term<Jmp>>, hints: &[&str]) -> Term<Blk> {
    Term { tid: tid(t), term: Blk { defs, jmps, indirect_jmp_targets: hints.iter().map(|h| tid(h)).collect() } }
}
pub fn sub(t: &str, name: &str, blocks: Vec<Term<Blk>>) -> Term<Sub> {
    Term { tid: tid(t), term: Sub { name: name.to_string(), blocks, calling_convention: None } }
}

pub fn arg_reg(name: &str, size: u64) -> Arg {
    Arg::Register { expr: reg(name, size), data_type: None }
}
pub fn arg_stack(sp: &str, offset: i64, size: u64, ptr_size: u64) -> Arg {
    Arg::Stack { address: add(reg(sp, ptr_size), csti(offset as i128, ptr_size)), size: ByteSize::new(size), data_type: None }
}
pub fn extern_symbol(t: &str, name: &str, params: Vec<Arg>, rets: Vec<Arg>, no_return: bool) -> ExternSymbol {
    ExternSymbol {
        tid: tid(t),
        addresses: vec!["UNKNOWN".to_string()],
        name: name.to_string(),
        calling_convention: None,
        parameters: params,
        return_values: rets,
        no_return,
        has_var_args: false,
    }
}

pub const X64_REGS: [&str; 16] =
    ["RAX", "RBX", "RCX", "RDX", "RSI", "RDI", "RBP", "RSP", "R8", "R9", "R10", "R11", "R12", "R13", "R14", "R15"];
pub const X64_FLAGS: [&str; 4] = ["ZF", "CF", "SF", "OF"];

pub fn cconv_x64() -> CallingConvention {
    CallingConvention {
        name: "__stdcall".to_string(),
        integer_parameter_register: ["RDI", "RSI", "RDX", "RCX", "R8", "R9"].iter().map(|r| var(r, 8)).collect(),
        float_parameter_register: Vec::new(),
        integer_return_register: vec![var("RAX", 8)],
        float_return_register: Vec::new(),
        callee_saved_register: ["RBX", "RBP", "R12", "R13", "R14", "R15"].iter().map(|r| var(r, 8)).collect(),
    }
}

pub fn datatype_properties_x64() -> DatatypeProperties {
    DatatypeProperties {
        char_size: ByteSize::new(1),
        double_size: ByteSize::new(8),
        float_size: ByteSize::new(4),
        integer_size: ByteSize::new(4),
        long_double_size: ByteSize::new(8),
        long_long_size: ByteSize::new(8),
        long_size: ByteSize::new(8),
        pointer_size: ByteSize::new(8),
        short_size: ByteSize::new(2),
    }
}

/// x86_64-like project: 16 general registers (8 bytes), 4 one-byte flags, RSP stack pointer,
/// `__stdcall` convention, empty little-endian memory image.
pub fn project_x64(subs: Vec<Term<Sub>>, externs: Vec<ExternSymbol>) -> Project {
    let mut register_set = BTreeSet::new();
    for r in X64_REGS {
        register_set.insert(var(r, 8));
    }
    for f in X64_FLAGS {
        register_set.insert(var(f, 1));
    }
    let mut sub_map = BTreeMap::new();
    for s in subs {
        sub_map.insert(s.tid.clone(), s);
    }
    let mut ext_map = BTreeMap::new();
    for e in externs {
        ext_map.insert(e.tid.clone(), e);
    }
    let program = Program { subs: sub_map, extern_symbols: ext_map, entry_points: BTreeSet::new(), address_base_offset: 0 };
    let mut ccs = BTreeMap::new();
    ccs.insert("__stdcall".to_string(), cconv_x64());
    Project {
        program: Term { tid: tid("program"), term: program },
        cpu_architecture: "x86_64".to_string(),
        stack_pointer_register: var("RSP", 8),
        calling_conventions: ccs,
        register_set,
        datatype_properties: datatype_properties_x64(),
        runtime_memory_image: RuntimeMemoryImage::empty(true),
    }
}

/// Human-readable rendering of a program (for replay files / samples).
pub fn render(project: &Project) -> String {
    format!("{}", project.program.term)
}

/// Serializable form of a program (a `Project` itself cannot go through
/// serde_json because its maps are keyed by `Tid` structs). Used in replay files.
#[derive(serde::Serialize, serde::Deserialize, Clone, Debug)]
pub struct ProgramSpec {
    pub subs: Vec<Term<Sub>>,
    pub externs: Vec<ExternSymbol>,
}
impl ProgramSpec {
    pub fn of(project: &Project) -> ProgramSpec {
        ProgramSpec {
            subs: project.program.term.subs.values().cloned().collect(),
            externs: project.program.term.extern_symbols.values().cloned().collect(),
        }
    }
    pub fn to_project_x64(&self) -> Project {
        project_x64(self.subs.clone(), self.externs.clone())
    }
}
