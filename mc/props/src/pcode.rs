//! Raw P-Code side of C11/C12: a register table with nested sub-registers,
//! builders for `pcode::Project` values (round-tripped through JSON exactly like
//! the extractor's output), and an independent interpreter of raw P-Code blocks
//! over a *byte-array register file* (every register is a byte range of its
//! base register, as in Ghidra's register space).

use crate::ccl::intermediate_representation::{ByteSize, DatatypeProperties, Term, Tid};
use crate::ccl::pcode as pc;
use crate::ir_interp::{Abort, Machine};
use mcx::fixed_hash;
use mcx::refsem::ops::{self, Bin, Cast, Un};
use serde::{Deserialize, Serialize};
use std::collections::BTreeMap;

/// (register, base register, lsb, size)
pub const REGISTER_TABLE: [(&str, &str, u64, u64); 22] = [
    ("RAX", "RAX", 0, 8),
    ("EAX", "RAX", 0, 4),
    ("AX", "RAX", 0, 2),
    ("AL", "RAX", 0, 1),
    ("AH", "RAX", 1, 1),
    ("RAX_HI", "RAX", 4, 4), // top-aligned sub-register (like the upper half of a vector register)
    ("AX_MID", "RAX", 2, 2), // sub-register in the middle
    ("RBX", "RBX", 0, 8),
    ("EBX", "RBX", 0, 4),
    ("BX", "RBX", 0, 2),
    ("BL", "RBX", 0, 1),
    ("BH", "RBX", 1, 1),
    ("RCX", "RCX", 0, 8),
    ("ECX", "RCX", 0, 4),
    ("RDI", "RDI", 0, 8),
    ("RSI", "RSI", 0, 8),
    ("RDX", "RDX", 0, 8),
    ("RSP", "RSP", 0, 8),
    ("RBP", "RBP", 0, 8),
    ("ZF", "ZF", 0, 1),
    ("CF", "CF", 0, 1),
    ("SF", "SF", 0, 1),
];

pub fn register_properties() -> Vec<pc::RegisterProperties> {
    REGISTER_TABLE
        .iter()
        .map(|(r, b, lsb, size)| pc::RegisterProperties { register: r.to_string(), base_register: b.to_string(), lsb: ByteSize::new(*lsb), size: ByteSize::new(*size) })
        .collect()
}

// ---- varnode constructors
pub fn v_reg(name: &str, size: u64) -> pc::Variable {
    pc::Variable { name: Some(name.to_string()), value: None, address: None, size: ByteSize::new(size), is_virtual: false }
}
pub fn v_tmp(name: &str, size: u64) -> pc::Variable {
    pc::Variable { name: Some(name.to_string()), value: None, address: None, size: ByteSize::new(size), is_virtual: true }
}
pub fn v_const(value: u128, size: u64) -> pc::Variable {
    pc::Variable { name: None, value: Some(format!("{:x}", value & ops::mask(size as u32))), address: None, size: ByteSize::new(size), is_virtual: false }
}
pub fn v_ram(address: u64, size: u64) -> pc::Variable {
    pc::Variable { name: None, value: None, address: Some(format!("{address:08x}")), size: ByteSize::new(size), is_virtual: false }
}
pub fn vsize(v: &pc::Variable) -> u32 {
    u64::from(v.size) as u32
}

pub fn p_def(tid: &str, addr: &str, lhs: Option<pc::Variable>, mnemonic: pc::ExpressionType, i0: Option<pc::Variable>, i1: Option<pc::Variable>, i2: Option<pc::Variable>) -> Term<pc::Def> {
    Term { tid: crate::irb::tid_at(tid, addr), term: pc::Def { lhs, rhs: pc::Expression { mnemonic, input0: i0, input1: i1, input2: i2 } } }
}

pub fn blk_tid(addr: &str) -> Tid {
    crate::irb::tid_at(&format!("blk_{addr}"), addr)
}

pub fn p_jmp(tid: &str, addr: &str, mnemonic: pc::JmpType, goto: Option<pc::Label>, call: Option<pc::Call>, condition: Option<pc::Variable>, hints: Option<Vec<String>>) -> Term<pc::Jmp> {
    Term { tid: crate::irb::tid_at(tid, addr), term: pc::Jmp { mnemonic, goto, call, condition, target_hints: hints } }
}

pub fn p_blk(addr: &str, defs: Vec<Term<pc::Def>>, jmps: Vec<Term<pc::Jmp>>) -> Term<pc::Blk> {
    Term { tid: blk_tid(addr), term: pc::Blk { defs, jmps } }
}

pub fn p_sub(addr: &str, name: &str, blocks: Vec<Term<pc::Blk>>) -> Term<pc::Sub> {
    Term { tid: crate::irb::tid_at(&format!("FUN_{addr}"), addr), term: pc::Sub { name: name.to_string(), blocks, calling_convention: Some("__stdcall".to_string()) } }
}

pub fn p_cconv() -> pc::CallingConvention {
    serde_json::from_value(serde_json::json!({
        "calling_convention": "__stdcall",
        "integer_parameter_register": ["RDI", "RSI", "RDX", "RCX"],
        "float_parameter_register": [],
        "return_register": ["RAX"],
        "float_return_register": [],
        "unaffected_register": ["RBX", "RBP", "RSP"],
        "killed_by_call_register": ["RAX", "RCX", "RDX", "RSI", "RDI"]
    }))
    .unwrap()
}

pub fn p_extern(addr: &str, name: &str, params: &[&str], no_return: bool) -> pc::ExternSymbol {
    let mut arguments: Vec<pc::Arg> = params.iter().map(|r| pc::Arg { var: Some(v_reg(r, 8)), location: None, intent: pc::ArgIntent::INPUT }).collect();
    arguments.push(pc::Arg { var: Some(v_reg("RAX", 8)), location: None, intent: pc::ArgIntent::OUTPUT });
    pc::ExternSymbol { tid: crate::irb::tid_at(&format!("FUN_{addr}"), addr), addresses: vec![addr.to_string()], name: name.to_string(), calling_convention: Some("__stdcall".to_string()), arguments, no_return, has_var_args: false }
}

pub fn p_project(subs: Vec<Term<pc::Sub>>, externs: Vec<pc::ExternSymbol>) -> pc::Project {
    let p = pc::Project {
        program: Term { tid: crate::irb::tid_at("prog_00010000", "00010000"), term: pc::Program { subs, extern_symbols: externs, entry_points: vec![], image_base: "10000".to_string() } },
        cpu_architecture: "x86_64".to_string(),
        stack_pointer_register: v_reg("RSP", 8),
        register_properties: register_properties(),
        register_calling_convention: vec![p_cconv()],
        datatype_properties: DatatypeProperties {
            char_size: ByteSize::new(1),
            double_size: ByteSize::new(8),
            float_size: ByteSize::new(4),
            integer_size: ByteSize::new(4),
            long_double_size: ByteSize::new(8),
            long_long_size: ByteSize::new(8),
            long_size: ByteSize::new(8),
            pointer_size: ByteSize::new(8),
            short_size: ByteSize::new(2),
        },
    };
    // enter the tool the way the extractor's output does: through JSON
    let text = serde_json::to_string(&p).expect("pcode project serialises");
    serde_json::from_str(&text).expect("pcode project deserialises")
}

// ---------------------------------------------------------------- interpreter

#[derive(Clone, Debug, PartialEq, Eq, Serialize, Deserialize)]
pub enum PEvent {
    Load { addr: u64, size: u32, value: u128 },
    Store { addr: u64, size: u32, value: u128 },
}

#[derive(Clone, Debug, PartialEq, Eq, Serialize, Deserialize)]
pub enum PExit {
    Goto(String),
    BranchInd(u128),
    Call { target: String, ret: Option<String> },
    CallInd { target: u128, ret: Option<String> },
    CallOther { desc: String, ret: Option<String> },
    Return(u128),
    FallOff,
    Abort(Abort),
}

/// Machine state for raw P-Code: byte-array register file + temporaries + the
/// memory of an `ir_interp::Machine` (memory model only; no repository code).
#[derive(Clone, Debug)]
pub struct PMachine {
    pub regfile: BTreeMap<String, Vec<u8>>,
    pub temps: BTreeMap<(String, u32), u128>,
    pub mem: Machine,
    table: BTreeMap<String, (String, u32, u32)>,
}

impl PMachine {
    pub fn new(seed: u64) -> PMachine {
        let mut table = BTreeMap::new();
        let mut regfile = BTreeMap::new();
        for (r, b, lsb, size) in REGISTER_TABLE {
            table.insert(r.to_string(), (b.to_string(), lsb as u32, size as u32));
            if r == b {
                regfile.insert(b.to_string(), vec![0u8; size as usize]);
            }
        }
        PMachine { regfile, temps: BTreeMap::new(), mem: Machine::new(seed, true, 8), table }
    }
    pub fn set_base(&mut self, base: &str, value: u128) {
        let bytes = self.regfile.get_mut(base).expect("base register");
        for (i, b) in bytes.iter_mut().enumerate() {
            *b = ((value >> (8 * i)) & 0xff) as u8;
        }
    }
    pub fn get_base(&self, base: &str) -> u128 {
        let bytes = &self.regfile[base];
        bytes.iter().enumerate().fold(0u128, |acc, (i, b)| acc | ((*b as u128) << (8 * i)))
    }
    /// The value an uninitialised temporary has (same function as the IR machine uses).
    pub fn initial_temp(&self, name: &str, size: u32) -> u128 {
        let h = fixed_hash(&("var", name, size as u64, self.mem.seed)) as u128;
        (h | (h << 64)) & ops::mask(size)
    }
    fn read(&mut self, v: &pc::Variable, events: &mut Vec<PEvent>) -> Result<u128, Abort> {
        let size = vsize(v);
        if let Some(val) = &v.value {
            return u128::from_str_radix(val, 16).map(|x| x & ops::mask(size)).map_err(|e| Abort::IllTyped(format!("bad const {val}: {e}")));
        }
        if let Some(a) = &v.address {
            let addr = u64::from_str_radix(a, 16).map_err(|e| Abort::IllTyped(format!("bad address {a}: {e}")))?;
            let value = self.mem.load(addr, size);
            events.push(PEvent::Load { addr, size, value });
            return Ok(value);
        }
        let name = v.name.as_ref().ok_or_else(|| Abort::IllTyped("varnode without name/value/address".into()))?;
        if v.is_virtual {
            return Ok(match self.temps.get(&(name.clone(), size)) {
                Some(x) => *x,
                None => self.initial_temp(name, size),
            });
        }
        let (base, lsb, _rsize) = self.table.get(name).cloned().ok_or_else(|| Abort::IllTyped(format!("unknown register {name}")))?;
        let bytes = &self.regfile[&base];
        if (lsb + size) as usize > bytes.len() {
            return Err(Abort::IllTyped(format!("register {name}:{size} exceeds its base register")));
        }
        let mut val = 0u128;
        for i in 0..size {
            val |= (bytes[(lsb + i) as usize] as u128) << (8 * i);
        }
        Ok(val)
    }
    fn write(&mut self, v: &pc::Variable, value: u128, events: &mut Vec<PEvent>) -> Result<(), Abort> {
        let size = vsize(v);
        let value = value & ops::mask(size);
        if v.value.is_some() {
            return Err(Abort::IllTyped("write to a constant".into()));
        }
        if let Some(a) = &v.address {
            let addr = u64::from_str_radix(a, 16).map_err(|e| Abort::IllTyped(format!("bad address {a}: {e}")))?;
            events.push(PEvent::Store { addr, size, value });
            self.mem.store(addr, size, value);
            return Ok(());
        }
        let name = v.name.as_ref().ok_or_else(|| Abort::IllTyped("varnode without name/value/address".into()))?;
        if v.is_virtual {
            self.temps.insert((name.clone(), size), value);
            return Ok(());
        }
        let (base, lsb, _rsize) = self.table.get(name).cloned().ok_or_else(|| Abort::IllTyped(format!("unknown register {name}")))?;
        let bytes = self.regfile.get_mut(&base).unwrap();
        if (lsb + size) as usize > bytes.len() {
            return Err(Abort::IllTyped(format!("register {name}:{size} exceeds its base register")));
        }
        for i in 0..size {
            bytes[(lsb + i) as usize] = ((value >> (8 * i)) & 0xff) as u8;
        }
        Ok(())
    }

    pub fn exec_def(&mut self, def: &pc::Def, events: &mut Vec<PEvent>) -> Result<(), Abort> {
        use pc::ExpressionType as E;
        let m = def.rhs.mnemonic;
        let name = format!("{m:?}");
        let need = |o: &Option<pc::Variable>| o.clone().ok_or_else(|| Abort::IllTyped(format!("{name}: missing operand")));
        match m {
            E::STORE => {
                // input0 = address space id, input1 = pointer, input2 = value
                let p = need(&def.rhs.input1)?;
                let val = need(&def.rhs.input2)?;
                // operands are read in order (RAM operands become explicit reads)
                if let Some(i0) = &def.rhs.input0 {
                    if i0.address.is_some() {
                        self.read(i0, events)?;
                    }
                }
                let addr = self.read(&p, events)? as u64;
                let value = self.read(&val, events)?;
                let size = vsize(&val);
                events.push(PEvent::Store { addr, size, value });
                self.mem.store(addr, size, value);
                return Ok(());
            }
            E::LOAD => {
                let p = need(&def.rhs.input1)?;
                let out = need(&def.lhs)?;
                if let Some(i0) = &def.rhs.input0 {
                    if i0.address.is_some() {
                        self.read(i0, events)?;
                    }
                }
                let addr = self.read(&p, events)? as u64;
                let size = vsize(&out);
                let value = self.mem.load(addr, size);
                events.push(PEvent::Load { addr, size, value });
                return self.write(&out, value, events);
            }
            _ => (),
        }
        let out = need(&def.lhs)?;
        let wo = vsize(&out);
        let i0 = need(&def.rhs.input0)?;
        let a = self.read(&i0, events)?;
        let wa = vsize(&i0);
        let result: u128 = match m {
            E::COPY => {
                if wa != wo {
                    return Err(Abort::IllTyped("COPY size".into()));
                }
                a
            }
            E::SUBPIECE => {
                let i1 = need(&def.rhs.input1)?;
                let low = self.read(&i1, events)? as u32;
                // P-Code truncates (or zero-extends) to the output size
                ops::subpiece(a, wa, low, wo.min(16))
            }
            E::INT_ZEXT | E::INT_SEXT | E::POPCOUNT | E::LZCOUNT => {
                let c = match m {
                    E::INT_ZEXT => Cast::IntZExt,
                    E::INT_SEXT => Cast::IntSExt,
                    E::POPCOUNT => Cast::PopCount,
                    _ => Cast::LzCount,
                };
                ops::cast(c, a, wa, wo)
            }
            E::INT_NEGATE | E::INT_2COMP | E::BOOL_NEGATE => {
                let u = match m {
                    E::INT_NEGATE => Un::IntNegate,
                    E::INT_2COMP => Un::Int2Comp,
                    _ => Un::BoolNegate,
                };
                ops::un(u, a, wa).ok_or_else(|| Abort::Undefined(format!("{name} on non-boolean")))?
            }
            E::INT2FLOAT | E::FLOAT2FLOAT | E::TRUNC | E::FLOAT_NEG | E::FLOAT_ABS | E::FLOAT_SQRT | E::FLOAT_CEIL | E::FLOAT_FLOOR | E::FLOAT_ROUND | E::FLOAT_NAN => {
                (fixed_hash(&("float", ops::float_key(&name), a)) as u128) & ops::mask(wo)
            }
            _ => {
                let i1 = need(&def.rhs.input1)?;
                let b = self.read(&i1, events)?;
                let wb = vsize(&i1);
                match Bin::from_mnemonic(&name) {
                    Some(r) => {
                        if r.is_bool() && (a > 1 || b > 1) {
                            return Err(Abort::Undefined(format!("{name} on non-boolean")));
                        }
                        ops::bin(r, a, wa, b, wb).ok_or_else(|| Abort::Undefined(format!("{name} undefined")))?
                    }
                    None => (fixed_hash(&("float", ops::float_key(&name), a, b)) as u128) & ops::mask(wo),
                }
            }
        };
        self.write(&out, result, events)
    }

    pub fn exec_block(&mut self, blk: &pc::Blk) -> (Vec<PEvent>, PExit) {
        let mut events = Vec::new();
        for d in &blk.defs {
            if let Err(a) = self.exec_def(&d.term, &mut events) {
                return (events, PExit::Abort(a));
            }
        }
        let direct = |l: &Option<pc::Label>| match l {
            Some(pc::Label::Direct(t)) => Some(format!("{t}")),
            _ => None,
        };
        for j in &blk.jmps {
            let j = &j.term;
            use pc::JmpType as J;
            let indirect = |l: &Option<pc::Label>| match l {
                Some(pc::Label::Indirect(v)) => Some(v.clone()),
                _ => None,
            };
            match j.mnemonic {
                J::BRANCH => return (events, PExit::Goto(direct(&j.goto).unwrap_or_default())),
                J::CBRANCH => {
                    let Some(c) = &j.condition else { return (events, PExit::Abort(Abort::IllTyped("CBRANCH without condition".into()))) };
                    match self.read(c, &mut events) {
                        Err(a) => return (events, PExit::Abort(a)),
                        Ok(v) => {
                            if v != 0 {
                                return (events, PExit::Goto(direct(&j.goto).unwrap_or_default()));
                            }
                        }
                    }
                }
                J::BRANCHIND => match indirect(&j.goto).map(|v| self.read(&v, &mut events)) {
                    Some(Ok(v)) => return (events, PExit::BranchInd(v)),
                    Some(Err(a)) => return (events, PExit::Abort(a)),
                    None => return (events, PExit::Abort(Abort::IllTyped("BRANCHIND without target".into()))),
                },
                J::RETURN => match indirect(&j.goto).map(|v| self.read(&v, &mut events)) {
                    Some(Ok(v)) => return (events, PExit::Return(v)),
                    Some(Err(a)) => return (events, PExit::Abort(a)),
                    None => return (events, PExit::Abort(Abort::IllTyped("RETURN without target".into()))),
                },
                J::CALL => {
                    let c = j.call.as_ref().unwrap();
                    return (events, PExit::Call { target: direct(&c.target).unwrap_or_default(), ret: direct(&c.return_) });
                }
                J::CALLIND => {
                    let c = j.call.as_ref().unwrap();
                    match indirect(&c.target).map(|v| self.read(&v, &mut events)) {
                        Some(Ok(v)) => return (events, PExit::CallInd { target: v, ret: direct(&c.return_) }),
                        Some(Err(a)) => return (events, PExit::Abort(a)),
                        None => return (events, PExit::Abort(Abort::IllTyped("CALLIND without target".into()))),
                    }
                }
                J::CALLOTHER => {
                    let c = j.call.as_ref().unwrap();
                    return (events, PExit::CallOther { desc: c.call_string.clone().unwrap_or_default(), ret: direct(&c.return_) });
                }
            }
        }
        (events, PExit::FallOff)
    }
}
