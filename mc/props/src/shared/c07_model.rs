//! C07 helper: the transfer-function alphabet, the reference least fixpoint
//! (naive Kleene iteration, no worklist), closedness test, and the
//! enumeration of labelled multigraph skeletons.
//!
//! Nothing in this file calls into `cwe_checker_lib`.
#![allow(dead_code)]

use serde::{Deserialize, Serialize};

/// A value of the lattice: a subset of {0,1,2} as bit mask (bit k <=> k in x).
pub type Val = u8;
pub const FULL_SET: Val = 0b111;

/// A monotone edge transfer function `Val -> Option<Val>` (`None` = no flow).
#[derive(Serialize, Deserialize, Clone, Copy, Debug, PartialEq, Eq, Hash, PartialOrd, Ord)]
pub enum Fun {
    /// x
    Id,
    /// x ∪ {k}
    Add(u8),
    /// x ∩ S
    Meet(u8),
    /// S
    Const(u8),
    /// no flow, whatever x is
    Blocked,
    /// x if k ∈ x, otherwise no flow
    Guard(u8),
}

impl Fun {
    pub fn apply(self, x: Val) -> Option<Val> {
        match self {
            Fun::Id => Some(x),
            Fun::Add(k) => Some(x | (1 << k)),
            Fun::Meet(s) => Some(x & s),
            Fun::Const(s) => Some(s),
            Fun::Blocked => None,
            Fun::Guard(k) => {
                if x & (1 << k) != 0 {
                    Some(x)
                } else {
                    None
                }
            }
        }
    }
}

/// 5 letters: growth, a non-extensive constant, blocked, a guard that opens only after growth.
pub fn alphabet_core() -> Vec<Fun> {
    vec![Fun::Id, Fun::Add(1), Fun::Const(0b100), Fun::Blocked, Fun::Guard(1)]
}
/// 9 letters: core + second growth letter, a filter that drops the start element, const ∅, second guard.
pub fn alphabet_wide() -> Vec<Fun> {
    vec![
        Fun::Id,
        Fun::Add(1),
        Fun::Add(2),
        Fun::Meet(0b110),
        Fun::Const(0b100),
        Fun::Const(0),
        Fun::Blocked,
        Fun::Guard(1),
        Fun::Guard(2),
    ]
}
/// 22 letters: every member of every family (Meet with the full set is Id and is left out, Meet ∅ = Const ∅).
pub fn alphabet_full() -> Vec<Fun> {
    let mut v = vec![Fun::Id, Fun::Add(0), Fun::Add(1), Fun::Add(2)];
    for s in [0b001u8, 0b010, 0b100, 0b011, 0b101, 0b110] {
        v.push(Fun::Meet(s));
    }
    for s in 0..8u8 {
        v.push(Fun::Const(s));
    }
    v.push(Fun::Blocked);
    v.extend([Fun::Guard(0), Fun::Guard(1), Fun::Guard(2)]);
    v
}
/// 3 letters for the dense (all simple digraphs) slice.
pub fn alphabet_dense3() -> Vec<Fun> {
    vec![Fun::Id, Fun::Add(1), Fun::Guard(1)]
}
/// 4 letters for the dense slice in the thorough tier.
pub fn alphabet_dense4() -> Vec<Fun> {
    vec![Fun::Id, Fun::Add(1), Fun::Guard(1), Fun::Const(0b100)]
}
/// 2 letters for the dense slices on 4 nodes.
pub fn alphabet_dense2() -> Vec<Fun> {
    vec![Fun::Add(1), Fun::Guard(1)]
}

/// `a <= b` in the lifted lattice (no value < ∅ <= ... ; sets ordered by inclusion).
pub fn leq(a: Option<Val>, b: Option<Val>) -> bool {
    match (a, b) {
        (None, _) => true,
        (Some(_), None) => false,
        (Some(x), Some(y)) => x & !y == 0,
    }
}

/// Every letter must be monotone on the lifted lattice (precondition of the property).
pub fn check_monotone(letters: &[Fun]) -> Result<u64, String> {
    let mut n = 0;
    for f in letters {
        for x in 0..8u8 {
            for y in 0..8u8 {
                if x & !y == 0 {
                    n += 1;
                    if !leq(f.apply(x), f.apply(y)) {
                        return Err(format!("letter {f:?} is not monotone at {x:#b} <= {y:#b}"));
                    }
                }
            }
        }
    }
    Ok(n)
}

/// Join in the lifted lattice.
pub fn join(a: Option<Val>, b: Option<Val>) -> Option<Val> {
    match (a, b) {
        (None, v) | (v, None) => v,
        (Some(x), Some(y)) => Some(x | y),
    }
}

/// The initial assignment described by a start configuration: every node has
/// the default (if there is one), start nodes have their start value.
pub fn initial_assignment(n: usize, default_empty: bool, starts: &[(usize, Val)]) -> Vec<Option<Val>> {
    let mut a = vec![if default_empty { Some(0) } else { None }; n];
    for &(node, v) in starts {
        // a start value is *set*; the default ∅ is below every start value so this is also the join
        a[node] = Some(v);
    }
    a
}

/// Reference least fixpoint: the least assignment `A >= init` with
/// `f_e(A[s]) <= A[t]` for every edge `e = (s,t)` (edges do not fire from a
/// node without value, `None` results do not flow). Naive Kleene iteration:
/// apply *all* edges simultaneously to the previous iterate and join, until
/// nothing changes. Returns the assignment and the number of rounds.
pub fn kleene_lfp(n: usize, edges: &[(usize, usize)], funs: &[Fun], init: &[Option<Val>]) -> (Vec<Option<Val>>, u32) {
    assert_eq!(edges.len(), funs.len());
    let mut cur = init.to_vec();
    let mut rounds = 0;
    loop {
        rounds += 1;
        let mut next = cur.clone();
        for (i, &(s, t)) in edges.iter().enumerate() {
            if let Some(x) = cur[s] {
                if let Some(y) = funs[i].apply(x) {
                    next[t] = join(next[t], Some(y));
                }
            }
        }
        if next == cur {
            return (cur, rounds);
        }
        cur = next;
        assert!(rounds <= 4 * n as u32 + 4, "Kleene iteration exceeded the lattice height");
    }
}

/// Source nodes of the edges under which `a` is *not* closed (empty <=> closed).
pub fn violated_sources(edges: &[(usize, usize)], funs: &[Fun], a: &[Option<Val>]) -> Vec<usize> {
    let mut out = Vec::new();
    for (i, &(s, t)) in edges.iter().enumerate() {
        if let Some(x) = a[s] {
            if let Some(y) = funs[i].apply(x) {
                if !leq(Some(y), a[t]) && !out.contains(&s) {
                    out.push(s);
                }
            }
        }
    }
    out.sort();
    out
}

/// A multigraph skeleton on `n` nodes: edge list `(s,t)` in insertion order
/// (pairs in lexicographic order, parallel edges adjacent).
#[derive(Clone, Debug)]
pub struct Skeleton {
    pub n: usize,
    pub edges: Vec<(usize, usize)>,
}

/// All skeletons on `n` nodes (with or without self-loops), at most `max_mult`
/// parallel edges per ordered pair and at most `max_edges` edges in total, in a
/// fixed order (multiplicity vectors in lexicographic order).
pub fn skeletons(n: usize, self_loops: bool, max_mult: usize, max_edges: usize) -> Vec<Skeleton> {
    fn rec(n: usize, self_loops: bool, pair: usize, max_mult: usize, left: usize, cur: &mut Vec<(usize, usize)>, out: &mut Vec<Skeleton>) {
        if pair == n * n {
            out.push(Skeleton { n, edges: cur.clone() });
            return;
        }
        let (s, t) = (pair / n, pair % n);
        let cap = if s == t && !self_loops { 0 } else { max_mult.min(left) };
        for m in 0..=cap {
            for _ in 0..m {
                cur.push((s, t));
            }
            rec(n, self_loops, pair + 1, max_mult, left - m, cur, out);
            for _ in 0..m {
                cur.pop();
            }
        }
    }
    let mut out = Vec::new();
    rec(n, self_loops, 0, max_mult, max_edges, &mut Vec::new(), &mut out);
    out
}

/// The `idx`-th labelling of `m` edges over an alphabet of `k` letters (edge 0 least significant).
pub fn labelling(mut idx: u64, k: u64, m: usize, letters: &[Fun], out: &mut Vec<Fun>) {
    out.clear();
    for _ in 0..m {
        out.push(letters[(idx % k) as usize]);
        idx /= k;
    }
}

/// A start configuration.
#[derive(Clone, Debug)]
pub struct StartCfg {
    pub default_empty: bool,
    pub starts: Vec<(usize, Val)>,
}

/// Start configurations. `all_positions`: every choice of start node(s);
/// otherwise only node 0 / nodes (0,1) (the graph space is closed under node
/// renaming, so this loses nothing but edge-insertion-order variants).
pub fn start_configs(n: usize, all_positions: bool) -> Vec<StartCfg> {
    let mut v = Vec::new();
    let singles: Vec<usize> = if all_positions { (0..n).collect() } else { vec![0] };
    for &i in &singles {
        v.push(StartCfg { default_empty: false, starts: vec![(i, 0b001)] });
    }
    if n >= 2 {
        if all_positions {
            for i in 0..n {
                for j in (i + 1)..n {
                    v.push(StartCfg { default_empty: false, starts: vec![(i, 0b001), (j, 0b010)] });
                }
            }
        } else {
            v.push(StartCfg { default_empty: false, starts: vec![(0, 0b001), (1, 0b010)] });
        }
    }
    v.push(StartCfg { default_empty: true, starts: vec![] });
    for &i in &singles {
        v.push(StartCfg { default_empty: true, starts: vec![(i, 0b001)] });
    }
    v
}
