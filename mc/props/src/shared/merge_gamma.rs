//! Shared helpers for C03: value *specifications* (small serde structs that a
//! replay file can hold), builders that turn a specification into the real
//! abstract-domain object, readers that turn a real object back into a
//! concretisation, and the concretisations (γ) themselves.
//!
//! Everything on the γ side is written from the documentation of the domains
//! ("values represented by the interval are start, start+stride, ..., end",
//! "Top = nothing is known", "contains_top_values = values of fully unknown
//! origin and offset", "no value at the position or different size => Top") and
//! never calls `merge`, `contains`, `is_top` or any other logic of the code
//! under test: real objects are only *read* through serde / plain getters.
#![allow(dead_code)]

use props::ccl::abstract_domain::*;
use props::ccl::analysis::taint::Taint;
use props::ccl::intermediate_representation::*;
use props::{bv, unbv};
use serde::de::DeserializeOwned;
use serde::{Deserialize, Serialize};
use serde_json::{json, Value};
use std::collections::{BTreeMap, BTreeSet};

// ------------------------------------------------------------------ 256-bit sets

#[derive(Clone, Copy, PartialEq, Eq, Hash, Debug)]
pub struct Set256(pub [u64; 4]);
impl Set256 {
    pub const EMPTY: Set256 = Set256([0; 4]);
    pub const ALL: Set256 = Set256([u64::MAX; 4]);
    pub fn insert(&mut self, v: u8) {
        self.0[(v >> 6) as usize] |= 1u64 << (v & 63);
    }
    pub fn contains(&self, v: u8) -> bool {
        self.0[(v >> 6) as usize] >> (v & 63) & 1 == 1
    }
    pub fn subset(&self, o: &Set256) -> bool {
        (0..4).all(|i| self.0[i] & !o.0[i] == 0)
    }
    pub fn count(&self) -> u32 {
        self.0.iter().map(|w| w.count_ones()).sum()
    }
    pub fn first_missing_in(&self, o: &Set256) -> Option<u8> {
        (0..=255u8).find(|v| self.contains(*v) && !o.contains(*v))
    }
}

// ------------------------------------------------------------------ γ trait

/// A concretisation. `subset` is set inclusion of the represented sets.
pub trait Gamma: Clone + std::fmt::Debug {
    fn subset(&self, other: &Self) -> bool;
    fn is_all(&self) -> bool;
    fn is_empty(&self) -> bool;
    fn same(&self, other: &Self) -> bool {
        self.subset(other) && other.subset(self)
    }
}

/// γ extended by the two implicit values a container can give to an absent entry.
#[derive(Clone, Debug)]
pub enum Ext<G> {
    Empty,
    All,
    G(G),
}
impl<G: Gamma> Ext<G> {
    pub fn subset(&self, o: &Ext<G>) -> bool {
        match (self, o) {
            (Ext::Empty, _) => true,
            (_, Ext::All) => true,
            (Ext::All, Ext::G(g)) => g.is_all(),
            (Ext::All, Ext::Empty) => false,
            (Ext::G(x), Ext::Empty) => x.is_empty(),
            (Ext::G(x), Ext::G(y)) => x.subset(y),
        }
    }
}

// ------------------------------------------------------------------ the Dom trait

/// A value specification of one abstract domain.
pub trait Dom: Clone + Serialize + DeserializeOwned + Send + Sync + std::fmt::Debug {
    type Real: AbstractDomain + Clone + Send + Sync;
    type G: Gamma + Send + Sync;
    /// Build the real object.
    fn build(&self) -> Self::Real;
    /// γ of the specification (oracle side, independent of the real object).
    fn gamma(&self) -> Self::G;
    /// Read γ and the byte width back from a real object (serde / getters only).
    fn read(real: &Self::Real) -> Result<(Self::G, u64), String>;
    /// Byte width (address width for regions, 0 for maps).
    fn width(&self) -> u64;
    /// γ of the domain's `Top` element of byte width `w` (what `MergeTopStrategy`
    /// and `MemRegion` use for "nothing stored").
    fn top_gamma(w: u32) -> Self::G;
}

// ------------------------------------------------------------------ BitvectorDomain

#[derive(Serialize, Deserialize, Clone, Debug, PartialEq, Eq, PartialOrd, Ord, Hash)]
pub struct BvSpec {
    /// byte width
    pub w: u32,
    /// `None` = Top
    pub v: Option<u64>,
}
#[derive(Clone, Debug, PartialEq, Eq)]
pub enum BvG {
    All(u32),
    One(u128, u32),
}
impl Gamma for BvG {
    fn subset(&self, o: &Self) -> bool {
        match (self, o) {
            (BvG::All(w), BvG::All(v)) => w == v,
            (BvG::One(_, w), BvG::All(v)) => w == v,
            (BvG::All(_), BvG::One(..)) => false,
            (BvG::One(a, w), BvG::One(b, v)) => a == b && w == v,
        }
    }
    fn is_all(&self) -> bool {
        matches!(self, BvG::All(_))
    }
    fn is_empty(&self) -> bool {
        false
    }
}
impl Dom for BvSpec {
    type Real = BitvectorDomain;
    type G = BvG;
    fn build(&self) -> BitvectorDomain {
        match self.v {
            None => BitvectorDomain::Top(ByteSize::new(self.w as u64)),
            Some(v) => BitvectorDomain::Value(bv(v as u128, self.w)),
        }
    }
    fn gamma(&self) -> BvG {
        match self.v {
            None => BvG::All(self.w),
            Some(v) => BvG::One(v as u128 & mcx::refsem::ops::mask(self.w), self.w),
        }
    }
    fn read(real: &BitvectorDomain) -> Result<(BvG, u64), String> {
        Ok(match real {
            BitvectorDomain::Top(s) => (BvG::All(u64::from(*s) as u32), u64::from(*s)),
            BitvectorDomain::Value(b) => {
                let (v, w) = unbv(b);
                (BvG::One(v, w), w as u64)
            }
        })
    }
    fn width(&self) -> u64 {
        self.w as u64
    }
    fn top_gamma(w: u32) -> BvG {
        BvG::All(w)
    }
}

// ------------------------------------------------------------------ IntervalDomain

/// A strided interval with widening hints. Bounds are the signed values.
#[derive(Serialize, Deserialize, Clone, Debug, PartialEq, Eq, PartialOrd, Ord, Hash)]
pub struct IvSpec {
    pub w: u32,
    pub s: i64,
    pub e: i64,
    pub st: u64,
    /// widening_lower_bound
    pub lb: Option<i64>,
    /// widening_upper_bound
    pub ub: Option<i64>,
    /// widening_delay
    pub d: u64,
}
impl IvSpec {
    pub fn plain(w: u32, s: i64, e: i64, st: u64) -> IvSpec {
        IvSpec { w, s, e, st, lb: None, ub: None, d: 0 }
    }
    /// The interval invariants documented on `Interval`.
    pub fn well_formed(&self) -> bool {
        self.s <= self.e && ((self.s == self.e) == (self.st == 0)) && (self.st == 0 || ((self.e as i128 - self.s as i128) as u128) % self.st as u128 == 0)
    }
}
fn bvj(v: i64, w: u32) -> Value {
    serde_json::to_value(bv(v as i128 as u128, w)).unwrap()
}
fn sbv(b: &Bitvector) -> i64 {
    let (v, w) = unbv(b);
    mcx::refsem::ops::to_signed(v, w) as i64
}

/// γ of a strided interval: the values `s, s+st, s+2st, ... <= e` (signed, no wrap-around);
/// `st == 0` means the single value `s`; `s > e` represents nothing.
#[derive(Clone, Debug, PartialEq, Eq)]
pub struct IvG {
    pub w: u32,
    pub s: i128,
    pub e: i128,
    pub st: u128,
    /// by-members set, only for w == 1
    pub set: Option<Set256>,
    /// (widening_lower_bound, widening_upper_bound, widening_delay): bookkeeping, NOT part of γ
    /// (carried along for statistics only; `subset` never looks at it)
    pub hints: (Option<i64>, Option<i64>, u64),
}
impl IvG {
    pub fn new(w: u32, s: i128, e: i128, st: u128) -> IvG {
        let set = if w == 1 {
            let mut x = Set256::EMPTY;
            let mut v = s;
            while v <= e {
                x.insert(v as i8 as u8);
                if st == 0 {
                    break;
                }
                v += st as i128;
            }
            Some(x)
        } else {
            None
        };
        IvG { w, s, e, st, set, hints: (None, None, 0) }
    }
    fn last(&self) -> i128 {
        if self.st == 0 {
            self.s
        } else {
            self.s + ((self.e - self.s) as u128 / self.st * self.st) as i128
        }
    }
    fn has(&self, x: i128) -> bool {
        self.s <= x && x <= self.e && if self.st == 0 { x == self.s } else { ((x - self.s) as u128) % self.st == 0 }
    }
    /// Inclusion decided on the (start, end, stride) triples (exact for the generative definition).
    pub fn subset_symbolic(&self, o: &IvG) -> bool {
        if self.w != o.w {
            return false;
        }
        if self.s > self.e {
            return true;
        }
        let last = self.last();
        if !(o.has(self.s) && o.has(last)) {
            return false;
        }
        if last == self.s {
            return true;
        }
        // at least two members: consecutive members differ by self.st
        o.st != 0 && self.st % o.st == 0
    }
    fn minmax(w: u32) -> (i128, i128) {
        let bits = w * 8;
        (-(1i128 << (bits - 1)), (1i128 << (bits - 1)) - 1)
    }
}
impl Gamma for IvG {
    fn subset(&self, o: &Self) -> bool {
        match (&self.set, &o.set) {
            (Some(a), Some(b)) => a.subset(b),
            _ => self.subset_symbolic(o),
        }
    }
    fn is_all(&self) -> bool {
        let (lo, hi) = IvG::minmax(self.w);
        self.s <= lo && self.e >= hi && self.st == 1
    }
    fn is_empty(&self) -> bool {
        self.s > self.e
    }
}
impl Dom for IvSpec {
    type Real = IntervalDomain;
    type G = IvG;
    fn build(&self) -> IntervalDomain {
        let j = json!({
            "interval": {"start": bvj(self.s, self.w), "end": bvj(self.e, self.w), "stride": self.st},
            "widening_upper_bound": self.ub.map(|v| bvj(v, self.w)),
            "widening_lower_bound": self.lb.map(|v| bvj(v, self.w)),
            "widening_delay": self.d,
        });
        serde_json::from_value(j).unwrap_or_else(|e| mcx::machinery(&format!("cannot build IntervalDomain: {e}")))
    }
    fn gamma(&self) -> IvG {
        let mut g = IvG::new(self.w, self.s as i128, self.e as i128, self.st as u128);
        g.hints = (self.lb, self.ub, self.d);
        g
    }
    fn read(real: &IntervalDomain) -> Result<(IvG, u64), String> {
        let s = read_iv(real)?;
        Ok((s.gamma(), s.w as u64))
    }
    fn width(&self) -> u64 {
        self.w as u64
    }
    fn top_gamma(w: u32) -> IvG {
        let (lo, hi) = IvG::minmax(w);
        IvG::new(w, lo, hi, 1)
    }
}
/// Mirror of the private layout of `IntervalDomain` (field names as in the repository).
#[derive(Deserialize)]
struct IntervalMirror {
    start: Bitvector,
    end: Bitvector,
    stride: u64,
}
#[derive(Deserialize)]
struct IntervalDomainMirror {
    interval: IntervalMirror,
    widening_upper_bound: Option<Bitvector>,
    widening_lower_bound: Option<Bitvector>,
    widening_delay: u64,
}
/// Read every field of a real `IntervalDomain` (through serde).
pub fn read_iv(real: &IntervalDomain) -> Result<IvSpec, String> {
    let bytes = serde_json::to_vec(real).map_err(|e| e.to_string())?;
    let m: IntervalDomainMirror = serde_json::from_slice(&bytes).map_err(|e| e.to_string())?;
    let (_, w) = unbv(&m.interval.start);
    let (_, w2) = unbv(&m.interval.end);
    if w != w2 {
        return Err(format!("start and end have different widths {w} / {w2}"));
    }
    Ok(IvSpec {
        w,
        s: sbv(&m.interval.start),
        e: sbv(&m.interval.end),
        st: m.interval.stride,
        lb: m.widening_lower_bound.as_ref().map(sbv),
        ub: m.widening_upper_bound.as_ref().map(sbv),
        d: m.widening_delay,
    })
}

// ------------------------------------------------------------------ DataDomain<X>

#[derive(Serialize, Deserialize, Clone, Debug, PartialEq, Eq, PartialOrd, Ord, Hash)]
#[serde(bound = "X: Serialize + DeserializeOwned")]
pub struct DataSpec<X> {
    pub w: u32,
    pub abs: Option<X>,
    /// base register name -> offset
    pub rel: BTreeMap<String, X>,
    pub top: bool,
}
/// γ of a `DataDomain`: a set of (base, offset) pairs, base = "absolute" or an identifier;
/// the `contains_top_values` flag stands for values of unknown base and offset, i.e. everything.
#[derive(Clone, Debug)]
pub struct DataG<G> {
    pub w: u32,
    pub all: bool,
    pub abs: Option<G>,
    pub rel: BTreeMap<String, G>,
}
fn opt_subset<G: Gamma>(a: Option<&G>, b: Option<&G>) -> bool {
    match (a, b) {
        (None, _) => true,
        (Some(x), None) => x.is_empty(),
        (Some(x), Some(y)) => x.subset(y),
    }
}
impl<G: Gamma> Gamma for DataG<G> {
    fn subset(&self, o: &Self) -> bool {
        if self.w != o.w {
            return false;
        }
        if o.all {
            return true;
        }
        if self.all {
            return false;
        }
        opt_subset(self.abs.as_ref(), o.abs.as_ref()) && self.rel.iter().all(|(k, g)| opt_subset(Some(g), o.rel.get(k)))
    }
    fn is_all(&self) -> bool {
        self.all
    }
    fn is_empty(&self) -> bool {
        !self.all && self.abs.as_ref().map_or(true, |g| g.is_empty()) && self.rel.values().all(|g| g.is_empty())
    }
}
pub fn abstract_id(name: &str) -> AbstractIdentifier {
    AbstractIdentifier::new(
        Tid::new("t0"),
        AbstractLocation::Register(Variable { name: name.to_string(), size: ByteSize::new(8), is_temp: false }),
    )
}
impl<X: Dom> Dom for DataSpec<X>
where
    X::Real: RegisterDomain,
{
    type Real = DataDomain<X::Real>;
    type G = DataG<X::G>;
    fn build(&self) -> Self::Real {
        let mut d = DataDomain::<X::Real>::new_empty(ByteSize::new(self.w as u64));
        d.set_absolute_value(self.abs.as_ref().map(|x| x.build()));
        d.set_relative_values(self.rel.iter().map(|(k, x)| (abstract_id(k), x.build())).collect());
        if self.top {
            d.set_contains_top_flag();
        }
        d
    }
    fn gamma(&self) -> Self::G {
        DataG { w: self.w, all: self.top, abs: self.abs.as_ref().map(|x| x.gamma()), rel: self.rel.iter().map(|(k, x)| (k.clone(), x.gamma())).collect() }
    }
    fn read(real: &Self::Real) -> Result<(Self::G, u64), String> {
        let w = u64::from(real.bytesize());
        let abs = match real.get_absolute_value() {
            None => None,
            Some(v) => {
                let (g, vw) = X::read(v)?;
                if vw != w {
                    return Err(format!("absolute value has width {vw}, the DataDomain {w}"));
                }
                Some(g)
            }
        };
        let mut rel = BTreeMap::new();
        for (id, v) in real.get_relative_values().iter() {
            let (g, vw) = X::read(v)?;
            if vw != w {
                return Err(format!("offset has width {vw}, the DataDomain {w}"));
            }
            rel.insert(id.unwrap_register().name.clone(), g);
        }
        Ok((DataG { w: w as u32, all: real.contains_top(), abs, rel }, w))
    }
    fn width(&self) -> u64 {
        self.w as u64
    }
    fn top_gamma(w: u32) -> Self::G {
        DataG { w, all: true, abs: None, rel: BTreeMap::new() }
    }
}

// ------------------------------------------------------------------ Taint

#[derive(Serialize, Deserialize, Clone, Debug, PartialEq, Eq, PartialOrd, Ord, Hash)]
pub struct TaintSpec {
    pub w: u32,
    pub tainted: bool,
}
/// may-taint reading: `Top` = certainly untainted, `Tainted` = possibly tainted.
#[derive(Clone, Debug)]
pub struct TaintG {
    pub w: u32,
    pub may_be_tainted: bool,
}
impl Gamma for TaintG {
    fn subset(&self, o: &Self) -> bool {
        self.w == o.w && (!self.may_be_tainted || o.may_be_tainted)
    }
    fn is_all(&self) -> bool {
        self.may_be_tainted
    }
    fn is_empty(&self) -> bool {
        false
    }
}
impl Dom for TaintSpec {
    type Real = Taint;
    type G = TaintG;
    fn build(&self) -> Taint {
        if self.tainted {
            Taint::Tainted(ByteSize::new(self.w as u64))
        } else {
            Taint::Top(ByteSize::new(self.w as u64))
        }
    }
    fn gamma(&self) -> TaintG {
        TaintG { w: self.w, may_be_tainted: self.tainted }
    }
    fn read(real: &Taint) -> Result<(TaintG, u64), String> {
        Ok(match real {
            Taint::Tainted(s) => (TaintG { w: u64::from(*s) as u32, may_be_tainted: true }, u64::from(*s)),
            Taint::Top(s) => (TaintG { w: u64::from(*s) as u32, may_be_tainted: false }, u64::from(*s)),
        })
    }
    fn width(&self) -> u64 {
        self.w as u64
    }
    fn top_gamma(w: u32) -> TaintG {
        TaintG { w, may_be_tainted: false }
    }
}

// ------------------------------------------------------------------ DomainMap<u64, V, S>

#[derive(Serialize, Deserialize, Clone, Copy, Debug, PartialEq, Eq, PartialOrd, Ord, Hash)]
pub enum Strat {
    Union,
    Intersect,
    MergeTop,
}
/// What an absent key stands for under each strategy (from the strategies' doc comments).
#[derive(Clone, Debug)]
pub struct MapG<G> {
    pub absent: Ext<G>,
    pub m: BTreeMap<u64, G>,
}
impl<G: Gamma> MapG<G> {
    fn at(&self, k: u64) -> Ext<G> {
        match self.m.get(&k) {
            Some(g) => Ext::G(g.clone()),
            None => self.absent.clone(),
        }
    }
}
impl<G: Gamma> Gamma for MapG<G> {
    fn subset(&self, o: &Self) -> bool {
        let keys: BTreeSet<u64> = self.m.keys().chain(o.m.keys()).copied().collect();
        keys.iter().all(|k| self.at(*k).subset(&o.at(*k)))
    }
    fn is_all(&self) -> bool {
        false
    }
    fn is_empty(&self) -> bool {
        false
    }
}
/// Tag types selecting the real strategy.
pub trait StratTag: Clone + Send + Sync + std::fmt::Debug + 'static {
    type Real: Clone + Eq + Send + Sync;
    const STRAT: Strat;
}
#[derive(Clone, Debug, PartialEq, Eq)]
pub struct TUnion;
#[derive(Clone, Debug, PartialEq, Eq)]
pub struct TIntersect;
#[derive(Clone, Debug, PartialEq, Eq)]
pub struct TMergeTop;
impl StratTag for TUnion {
    type Real = UnionMergeStrategy;
    const STRAT: Strat = Strat::Union;
}
impl StratTag for TIntersect {
    type Real = IntersectMergeStrategy;
    const STRAT: Strat = Strat::Intersect;
}
impl StratTag for TMergeTop {
    type Real = MergeTopStrategy;
    const STRAT: Strat = Strat::MergeTop;
}
/// A map `key -> value` of 1-byte-wide... (any width `w`) values under strategy `S`.
#[derive(Serialize, Deserialize, Clone, Debug)]
#[serde(bound = "V: Serialize + DeserializeOwned")]
pub struct MapSpec<V, S> {
    /// byte width of the values (for the γ of an absent key under MergeTop)
    pub w: u32,
    pub m: BTreeMap<u64, V>,
    #[serde(skip)]
    pub s: std::marker::PhantomData<S>,
}
fn absent_gamma<V: Dom>(strat: Strat, w: u32) -> Ext<V::G> {
    match strat {
        Strat::Union => Ext::Empty,
        Strat::Intersect => Ext::All,
        Strat::MergeTop => Ext::G(V::top_gamma(w)),
    }
}
impl<V: Dom, S: StratTag> Dom for MapSpec<V, S>
where
    S::Real: MapMergeStrategy<u64, V::Real>,
{
    type Real = DomainMap<u64, V::Real, S::Real>;
    type G = MapG<V::G>;
    fn build(&self) -> Self::Real {
        self.m.iter().map(|(k, v)| (*k, v.build())).collect()
    }
    fn gamma(&self) -> Self::G {
        MapG { absent: absent_gamma::<V>(S::STRAT, self.w), m: self.m.iter().map(|(k, v)| (*k, v.gamma())).collect() }
    }
    fn read(real: &Self::Real) -> Result<(Self::G, u64), String> {
        let mut m = BTreeMap::new();
        let mut w = None;
        for (k, v) in real.iter() {
            let (g, vw) = V::read(v)?;
            w = Some(vw);
            m.insert(*k, g);
        }
        // the width of an empty map is not observable; callers compare widths only via the values
        Ok((MapG { absent: absent_gamma::<V>(S::STRAT, w.unwrap_or(1) as u32), m }, 0))
    }
    fn width(&self) -> u64 {
        0
    }
    fn top_gamma(w: u32) -> Self::G {
        MapG { absent: absent_gamma::<V>(S::STRAT, w), m: BTreeMap::new() }
    }
}

// ------------------------------------------------------------------ MemRegion<T>

/// A region given by its cells (offset -> value); the cells must not overlap.
#[derive(Serialize, Deserialize, Clone, Debug, PartialEq, Eq, PartialOrd, Ord, Hash)]
#[serde(bound = "X: Serialize + DeserializeOwned")]
pub struct MemSpec<X> {
    pub addr_bytes: u32,
    pub cells: BTreeMap<i64, X>,
}
/// γ of a region, the typed-cell reading of the `MemRegion` documentation: a read of
/// `size` bytes at `off` is constrained by a stored cell only if offset and size match
/// exactly, anything else reads as Top (= everything).
#[derive(Clone, Debug)]
pub struct MemG<G> {
    pub addr_bytes: u32,
    pub cells: BTreeMap<(i64, u64), G>,
}
impl<G: Gamma> MemG<G> {
    fn at(&self, k: &(i64, u64)) -> Ext<G> {
        match self.cells.get(k) {
            Some(g) => Ext::G(g.clone()),
            None => Ext::All,
        }
    }
}
impl<G: Gamma> Gamma for MemG<G> {
    fn subset(&self, o: &Self) -> bool {
        // probes where `o` is unconstrained are trivially fine
        self.addr_bytes == o.addr_bytes && o.cells.iter().all(|(k, g)| self.at(k).subset(&Ext::G(g.clone())))
    }
    fn is_all(&self) -> bool {
        self.cells.values().all(|g| g.is_all())
    }
    fn is_empty(&self) -> bool {
        false
    }
}
impl<X: Dom> Dom for MemSpec<X>
where
    X::Real: SizedDomain + HasTop + std::fmt::Debug,
{
    type Real = MemRegion<X::Real>;
    type G = MemG<X::G>;
    fn build(&self) -> Self::Real {
        // (serde_json cannot be used here: DataDomain has a map with non-string keys.)
        // The cells of a specification never overlap, so every insert is a plain insert;
        // `pre()` reads the region back and compares it with the specification.
        let mut r = MemRegion::<X::Real>::new(ByteSize::new(self.addr_bytes as u64));
        for (off, x) in self.cells.iter() {
            r.insert_at_byte_index(x.build(), *off);
        }
        r
    }
    fn gamma(&self) -> Self::G {
        MemG { addr_bytes: self.addr_bytes, cells: self.cells.iter().map(|(k, x)| ((*k, x.width()), x.gamma())).collect() }
    }
    fn read(real: &Self::Real) -> Result<(Self::G, u64), String> {
        let mut cells = BTreeMap::new();
        for (off, v) in real.entry_map().iter() {
            let (g, w) = X::read(v)?;
            cells.insert((*off, w), g);
        }
        let ab = u64::from(real.get_address_bytesize());
        Ok((MemG { addr_bytes: ab as u32, cells }, ab))
    }
    fn width(&self) -> u64 {
        self.addr_bytes as u64
    }
    fn top_gamma(w: u32) -> Self::G {
        MemG { addr_bytes: w, cells: BTreeMap::new() }
    }
}
/// Cells of a real region as a specification (used when the family is produced by real `add`s).
pub fn mem_cells_overlap<G>(g: &MemG<G>) -> bool {
    let mut end = i64::MIN;
    for ((off, size), _) in g.cells.iter() {
        if *off < end {
            return true;
        }
        end = *off + *size as i64;
    }
    false
}

// ------------------------------------------------------------------ self check of the oracle

/// Cross-check the two inclusion procedures for intervals (by members / symbolic) on a family
/// of 1-byte intervals; returns the number of pairs compared.
pub fn self_check_interval_gamma(fam: &[IvSpec]) -> Result<u64, String> {
    let gs: Vec<IvG> = fam.iter().filter(|s| s.w == 1).map(|s| s.gamma()).collect();
    let mut n = 0;
    for a in &gs {
        for b in &gs {
            let by_members = a.set.unwrap().subset(&b.set.unwrap());
            if by_members != a.subset_symbolic(b) {
                return Err(format!("interval inclusion oracle disagrees with itself on {a:?} vs {b:?}"));
            }
            n += 1;
        }
    }
    // golden vectors
    let g = |s, e, st| IvG::new(1, s, e, st);
    let golden = [
        (g(0, 6, 2).set.unwrap().count(), 4),
        (g(-128, 127, 1).set.unwrap().count(), 256),
        (g(5, 5, 0).set.unwrap().count(), 1),
        (g(-128, 127, 255).set.unwrap().count(), 2),
        (g(-1, 3, 4).set.unwrap().count(), 2),
    ];
    for (got, want) in golden {
        if got != want {
            return Err(format!("interval γ golden vector failed: {got} != {want}"));
        }
    }
    if !g(-1, 3, 4).set.unwrap().contains(0xff) || !g(-1, 3, 4).set.unwrap().contains(3) {
        return Err("interval γ golden member failed".into());
    }
    Ok(n)
}
