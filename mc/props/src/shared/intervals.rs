//! Shared helpers for the interval-domain checks (C02, C04):
//! * `Iv`      — replayable description of one `IntervalDomain` value (bounds, stride, hints, delay),
//! * `build`   — construct the real `IntervalDomain` through its serde shape (private fields),
//! * `View`    — the real value read back through serde, with γ (membership) and the
//!               well-formedness conditions exactly as the property statement lists them,
//! * 256-bit sets (`Bits`) for γ at 1-byte width,
//! * the interval alphabets `I1` (1 byte, exhaustive members) and `B(w)`-based ones (2/4/8 bytes),
//! * `Acc`     — per-worker counters, flushed into `Ctx` once.
//!
//! Nothing in here calls the transfer functions under test.
#![allow(dead_code)]

use mcx::refsem::ops;
use mcx::Ctx;
use props::ccl::abstract_domain::IntervalDomain;
use props::bv;
use serde::{Deserialize, Serialize};
use serde_json::json;
use std::collections::{BTreeMap, BTreeSet};

// ---------------------------------------------------------------- 256-bit sets

pub type Bits = [u64; 4];
pub const EMPTY: Bits = [0; 4];
pub const FULL: Bits = [!0; 4];

#[inline]
pub fn bset(b: &mut Bits, x: u8) {
    b[(x >> 6) as usize] |= 1u64 << (x & 63);
}
#[inline]
pub fn bget(b: &Bits, x: u8) -> bool {
    (b[(x >> 6) as usize] >> (x & 63)) & 1 == 1
}
pub fn band(a: &Bits, b: &Bits) -> Bits {
    [a[0] & b[0], a[1] & b[1], a[2] & b[2], a[3] & b[3]]
}
pub fn bandnot(a: &Bits, b: &Bits) -> Bits {
    [a[0] & !b[0], a[1] & !b[1], a[2] & !b[2], a[3] & !b[3]]
}
pub fn bempty(a: &Bits) -> bool {
    a.iter().all(|w| *w == 0)
}
pub fn bcount(a: &Bits) -> u32 {
    a.iter().map(|w| w.count_ones()).sum()
}
pub fn bfirst(a: &Bits) -> Option<u8> {
    for (i, w) in a.iter().enumerate() {
        if *w != 0 {
            return Some((i as u32 * 64 + w.trailing_zeros()) as u8);
        }
    }
    None
}
/// Members in ascending *unsigned* order.
pub fn bvec(a: &Bits) -> Vec<u8> {
    let mut v = Vec::with_capacity(bcount(a) as usize);
    for i in 0..4 {
        let mut w = a[i];
        while w != 0 {
            let t = w.trailing_zeros();
            v.push((i as u32 * 64 + t) as u8);
            w &= w - 1;
        }
    }
    v
}

// ---------------------------------------------------------------- value descriptions

/// One `IntervalDomain` value. Bounds and hints are *signed* numbers of width `w` bytes (w <= 8).
#[derive(Serialize, Deserialize, Clone, Debug, PartialEq, Eq, Hash, PartialOrd, Ord)]
pub struct Iv {
    pub w: u32,
    pub s: i64,
    pub e: i64,
    pub stride: u64,
    /// widening_lower_bound
    pub lo: Option<i64>,
    /// widening_upper_bound
    pub hi: Option<i64>,
    pub delay: u64,
}

pub fn raw(v: i64, w: u32) -> u128 {
    (v as i128 as u128) & ops::mask(w)
}
pub fn smin(w: u32) -> i64 {
    if w == 8 {
        i64::MIN
    } else {
        -(1i64 << (w * 8 - 1))
    }
}
pub fn smax(w: u32) -> i64 {
    if w == 8 {
        i64::MAX
    } else {
        (1i64 << (w * 8 - 1)) - 1
    }
}

impl Iv {
    pub fn bare(w: u32, s: i64, e: i64, stride: u64) -> Iv {
        Iv { w, s, e, stride, lo: None, hi: None, delay: 0 }
    }
    pub fn singleton(w: u32, v: i64) -> Iv {
        Iv::bare(w, v, v, 0)
    }
    pub fn top(w: u32) -> Iv {
        Iv::bare(w, smin(w), smax(w), 1)
    }
    pub fn is_singleton(&self) -> bool {
        self.s == self.e
    }
    pub fn is_top(&self) -> bool {
        self.s == smin(self.w) && self.e == smax(self.w) && self.stride == 1
    }
    /// Well-formed as the statement demands of every value (inputs are always built well-formed).
    pub fn well_formed(&self) -> bool {
        let len = (self.e as i128) - (self.s as i128);
        self.s >= smin(self.w)
            && self.e <= smax(self.w)
            && len >= 0
            && ((self.stride == 0) == (len == 0))
            && (self.stride == 0 || len % self.stride as i128 == 0)
    }
    /// Number of represented values.
    pub fn count(&self) -> u128 {
        if self.stride == 0 {
            1
        } else {
            ((self.e as i128 - self.s as i128) as u128) / self.stride as u128 + 1
        }
    }
    /// Is the signed number `x` represented?
    pub fn contains(&self, x: i128) -> bool {
        x >= self.s as i128
            && x <= self.e as i128
            && (x == self.s as i128 || (self.stride > 0 && (x - self.s as i128) % self.stride as i128 == 0))
    }
    /// γ at 1-byte width, indexed by the raw byte.
    pub fn gamma1(&self) -> Bits {
        assert!(self.w == 1 && self.well_formed());
        let mut b = EMPTY;
        let mut x = self.s;
        loop {
            bset(&mut b, x as i8 as u8);
            if self.stride == 0 || x + self.stride as i64 > self.e {
                break;
            }
            x += self.stride as i64;
        }
        b
    }
    /// All members as raw values (ascending signed order); `None` if there are more than `limit`.
    pub fn members_all(&self, limit: u128) -> Option<Vec<u128>> {
        if self.count() > limit {
            return None;
        }
        let mut v = Vec::new();
        let mut x = self.s as i128;
        loop {
            v.push((x as u128) & ops::mask(self.w));
            if self.stride == 0 || x + self.stride as i128 > self.e as i128 {
                break;
            }
            x += self.stride as i128;
        }
        Some(v)
    }
    /// Largest member <= x (signed), if any.
    pub fn member_le(&self, x: i128) -> Option<i128> {
        let (s, e) = (self.s as i128, self.e as i128);
        if x < s {
            None
        } else if x >= e {
            Some(e)
        } else if self.stride == 0 {
            Some(s)
        } else {
            Some(s + (x - s) / self.stride as i128 * self.stride as i128)
        }
    }
    /// Smallest member >= x (signed), if any.
    pub fn member_ge(&self, x: i128) -> Option<i128> {
        let (s, e) = (self.s as i128, self.e as i128);
        if x > e {
            None
        } else if x <= s {
            Some(s)
        } else if self.stride == 0 {
            None // s < x <= e is impossible for a singleton
        } else {
            let t = self.stride as i128;
            Some(s + (x - s + t - 1) / t * t)
        }
    }
    /// The member alphabet used where an interval is too large to enumerate: both end points,
    /// `start + k*stride` / `end - k*stride` for k <= 3, and for every point of interest `p`
    /// (signed numbers) the nearest members on both sides of `p`. If the interval has at most
    /// `limit` members, all of them. Raw values, ascending signed order, no duplicates.
    pub fn members_alphabet(&self, points: &[i128], limit: u128) -> Vec<u128> {
        if let Some(all) = self.members_all(limit) {
            return all;
        }
        let mut set: BTreeSet<i128> = BTreeSet::new();
        let t = self.stride as i128;
        for k in 0..=3i128 {
            for x in [self.s as i128 + k * t, self.e as i128 - k * t] {
                if self.contains(x) {
                    set.insert(x);
                }
            }
        }
        for &p in points {
            for q in [p - 1, p, p + 1] {
                if let Some(m) = self.member_le(q) {
                    set.insert(m);
                }
                if let Some(m) = self.member_ge(q) {
                    set.insert(m);
                }
            }
        }
        set.into_iter().map(|x| (x as u128) & ops::mask(self.w)).collect()
    }
    pub fn render(&self) -> String {
        let mut s = if self.stride == 0 { format!("{{{}}}", self.s) } else { format!("[{},{};{}]", self.s, self.e, self.stride) };
        s.push_str(&format!(":{}", self.w));
        if self.lo.is_some() || self.hi.is_some() || self.delay != 0 {
            s.push_str(&format!(" hints(lo={:?},hi={:?},delay={})", self.lo, self.hi, self.delay));
        }
        s
    }
}

/// Build the real value through serde (this is how the private fields are reached).
pub fn build(iv: &Iv) -> IntervalDomain {
    let b = |v: i64| serde_json::to_value(bv(raw(v, iv.w), iv.w)).unwrap();
    let j = json!({
        "interval": {"start": b(iv.s), "end": b(iv.e), "stride": iv.stride},
        "widening_upper_bound": iv.hi.map(b),
        "widening_lower_bound": iv.lo.map(b),
        "widening_delay": iv.delay,
    });
    serde_json::from_value(j).unwrap_or_else(|e| mcx::machinery(&format!("cannot build IntervalDomain through serde: {e}")))
}

/// Mirror of the serde shape of a `Bitvector` (apint): `{"width":[bits],"digits":[u64 little endian]}`.
#[derive(Deserialize)]
struct MBv {
    width: (u32,),
    digits: Vec<u64>,
}
#[derive(Deserialize)]
struct MInterval {
    start: MBv,
    end: MBv,
    stride: u64,
}
/// Mirror of the serde shape of `IntervalDomain` (all four private fields).
#[derive(Deserialize)]
#[serde(deny_unknown_fields)]
struct MDomain {
    interval: MInterval,
    widening_upper_bound: Option<MBv>,
    widening_lower_bound: Option<MBv>,
    widening_delay: u64,
}

/// A real `IntervalDomain` as read back through serde. Values are raw (unsigned) with bit widths.
#[derive(Clone, Debug, PartialEq, Eq, Hash)]
pub struct View {
    pub bits_s: u32,
    pub bits_e: u32,
    pub s: u128,
    pub e: u128,
    pub stride: u64,
    pub lo: Option<(u128, u32)>,
    pub hi: Option<(u128, u32)>,
    pub delay: u64,
}

fn unbv_bits(b: &MBv) -> (u128, u32) {
    let bits = b.width.0;
    if bits == 0 || bits > 128 || b.digits.len() != ((bits as usize) + 63) / 64 {
        mcx::machinery("unexpected bitvector shape in a serialized interval");
    }
    let mut v = b.digits[0] as u128;
    if b.digits.len() == 2 {
        v |= (b.digits[1] as u128) << 64;
    }
    (v & mask_bits(bits), bits)
}

thread_local! {
    static BUF: std::cell::RefCell<Vec<u8>> = const { std::cell::RefCell::new(Vec::new()) };
}

pub fn read_back(d: &IntervalDomain) -> View {
    BUF.with(|buf| {
        let mut buf = buf.borrow_mut();
        buf.clear();
        serde_json::to_writer(&mut *buf, d).unwrap_or_else(|e| mcx::machinery(&format!("cannot serialize IntervalDomain: {e}")));
        let m: MDomain = serde_json::from_slice(&buf).unwrap_or_else(|e| mcx::machinery(&format!("unexpected serde shape of IntervalDomain: {e}")));
        let (s, bits_s) = unbv_bits(&m.interval.start);
        let (e, bits_e) = unbv_bits(&m.interval.end);
        View {
            bits_s,
            bits_e,
            s,
            e,
            stride: m.interval.stride,
            lo: m.widening_lower_bound.as_ref().map(unbv_bits),
            hi: m.widening_upper_bound.as_ref().map(unbv_bits),
            delay: m.widening_delay,
        }
    })
}

fn mask_bits(bits: u32) -> u128 {
    if bits >= 128 {
        u128::MAX
    } else {
        (1u128 << bits) - 1
    }
}
fn signed_of(v: u128, bits: u32) -> i128 {
    if bits >= 128 {
        v as i128
    } else if (v >> (bits - 1)) & 1 == 1 {
        (v as i128) - (1i128 << bits)
    } else {
        v as i128
    }
}

impl View {
    pub fn bytes(&self) -> u32 {
        self.bits_s / 8
    }
    pub fn signed_s(&self) -> i128 {
        signed_of(self.s, self.bits_s)
    }
    pub fn signed_e(&self) -> i128 {
        signed_of(self.e, self.bits_s)
    }
    /// Distance end - start modulo 2^bits.
    pub fn len(&self) -> u128 {
        self.e.wrapping_sub(self.s) & mask_bits(self.bits_s)
    }
    /// `start <=s end`
    pub fn ordered(&self) -> bool {
        self.signed_s() <= self.signed_e()
    }
    /// γ: x is represented iff it lies between start and end and on the stride.
    /// For ill-formed values (reported separately as well-formedness violations) the most
    /// lenient reading is used: a start > end interval is read as wrapping, a stride-0 interval
    /// with start != end as {start, end}.
    pub fn member(&self, x: u128) -> bool {
        let m = mask_bits(self.bits_s);
        let d = x.wrapping_sub(self.s) & m;
        let len = self.len();
        d <= len && (d == 0 || (self.stride > 0 && d % self.stride as u128 == 0) || (self.stride == 0 && d == len))
    }
    /// Does the value represent every bitvector of its width?
    pub fn is_full(&self) -> bool {
        self.stride == 1 && self.len() == mask_bits(self.bits_s)
    }
    /// γ for an 8-bit value.
    pub fn gamma1(&self) -> Bits {
        assert_eq!(self.bits_s, 8);
        let mut b = EMPTY;
        let len = self.len() as u32;
        if self.stride == 0 {
            bset(&mut b, self.s as u8);
            bset(&mut b, self.e as u8);
            return b;
        }
        let mut d = 0u32;
        while d <= len {
            bset(&mut b, (self.s as u32 + d) as u8);
            d = match d.checked_add(self.stride.min(1 << 20) as u32) {
                Some(n) => n,
                None => break,
            };
        }
        b
    }
    /// The well-formedness conditions of the property statement. Returns (class, text) per broken one.
    /// `expected_bytes`: the width the result must have (`None`: not judged).
    pub fn well_formed(&self, expected_bytes: Option<u32>) -> Vec<(&'static str, String)> {
        let mut out = Vec::new();
        if self.bits_s != self.bits_e {
            out.push(("width", format!("start has {} bits, end has {} bits", self.bits_s, self.bits_e)));
            return out;
        }
        if let Some(w) = expected_bytes {
            if self.bits_s != w * 8 {
                out.push(("width", format!("result has {} bits, expected {} bytes", self.bits_s, w)));
            }
        }
        if !self.ordered() {
            out.push(("order", format!("start {} >s end {}", self.signed_s(), self.signed_e())));
            return out;
        }
        let len = self.len();
        if (self.stride == 0) != (len == 0) {
            out.push(("stride", format!("start {} end {} stride {} (stride must be 0 exactly for singletons)", self.signed_s(), self.signed_e(), self.stride)));
        } else if self.stride > 0 && len % self.stride as u128 != 0 {
            out.push(("stride-divides", format!("end - start = {} is not divisible by stride {}", len, self.stride)));
        }
        out
    }
    /// Statistics only (the statement does not demand these): hints outside the interval, same width.
    pub fn hint_oddities(&self) -> (bool, bool) {
        let mut inside = false;
        let mut width = false;
        if let Some((v, b)) = self.lo {
            width |= b != self.bits_s;
            inside |= b == self.bits_s && signed_of(v, b) >= self.signed_s();
        }
        if let Some((v, b)) = self.hi {
            width |= b != self.bits_s;
            inside |= b == self.bits_s && signed_of(v, b) <= self.signed_e();
        }
        (inside, width)
    }
    pub fn same_interval(&self, o: &View) -> bool {
        self.bits_s == o.bits_s && self.bits_e == o.bits_e && self.s == o.s && self.e == o.e && self.stride == o.stride
    }
    pub fn render(&self) -> serde_json::Value {
        json!({
            "bits": self.bits_s,
            "start": signed_of(self.s, self.bits_s).to_string(),
            "end": signed_of(self.e, self.bits_e).to_string(),
            "stride": self.stride,
            "widening_lower_bound": self.lo.map(|(v, b)| signed_of(v, b).to_string()),
            "widening_upper_bound": self.hi.map(|(v, b)| signed_of(v, b).to_string()),
            "widening_delay": self.delay,
        })
    }
}

// ---------------------------------------------------------------- alphabets

/// The grid `G` of DESIGN.md §C02.
pub const GRID: [i64; 22] = [-128, -127, -126, -65, -64, -63, -3, -2, -1, 0, 1, 2, 3, 4, 5, 62, 63, 64, 65, 125, 126, 127];
/// The reduced grid of the quick tier (every case split of the code still has both sides).
pub const GRID_QUICK: [i64; 12] = [-128, -127, -65, -64, -2, -1, 0, 1, 3, 63, 64, 127];
pub const STRIDES: [u64; 8] = [1, 2, 3, 4, 5, 8, 16, 64];

pub fn grid(thorough: bool) -> Vec<i64> {
    if thorough {
        GRID.to_vec()
    } else {
        GRID_QUICK.to_vec()
    }
}

/// `I1` without hints: (start, end, stride), sorted, no duplicates.
/// * every singleton of the grid,
/// * every `[s,e;t]`, s<e on the grid, t a stride of `STRIDES` dividing e-s,
/// * every interval of length k*t (k = 1..=4) starting or ending at a grid point,
/// * two-member intervals `[s,e;e-s]` with e-s > 127 (quick: those touching -128 or 127),
/// * Top.
/// Quick: reduced grid; anchored intervals only with k in {1,3} and only starting at the grid point.
pub fn i1_bare(thorough: bool) -> Vec<(i64, i64, u64)> {
    let g = grid(thorough);
    let mut set: BTreeSet<(i64, i64, u64)> = BTreeSet::new();
    for &s in &g {
        set.insert((s, s, 0));
        for &e in &g {
            if s < e {
                for t in STRIDES {
                    if (e - s) as u64 % t == 0 {
                        set.insert((s, e, t));
                    }
                }
                // two members further apart than the largest positive signed number (stride >= 2^(bits-1))
                if e - s > 127 && (thorough || s == -128 || e == 127) {
                    set.insert((s, e, (e - s) as u64));
                }
            }
        }
        for t in STRIDES {
            let ks: &[i64] = if thorough { &[1, 2, 3, 4] } else { &[1, 3] };
            for &k in ks {
                let len = k * t as i64;
                if s + len <= 127 {
                    set.insert((s, s + len, t));
                }
                if thorough && s - len >= -128 {
                    set.insert((s - len, s, t));
                }
            }
        }
    }
    set.insert((-128, 127, 1));
    set.into_iter().collect()
}

/// EVERY well-formed 1-byte interval: the 256 singletons and `[s, s+k*t; t]` for every start s,
/// stride t >= 1 and k >= 1 that fits (170 700 values), sorted.
pub fn all1_bare() -> Vec<(i64, i64, u64)> {
    let mut v = Vec::new();
    for s in -128i64..=127 {
        v.push((s, s, 0));
        for t in 1..=(127 - s) {
            let mut e = s + t;
            while e <= 127 {
                v.push((s, e, t as u64));
                e += t;
            }
        }
    }
    v.sort();
    v
}

/// One precomputed element for a bare 1-byte interval under hint configuration number `k`
/// (taken modulo the number of configurations that exist).
pub fn elem1(bare: (i64, i64, u64), idx: usize, k: usize, g: &[i64]) -> Elem {
    let cfgs = with_hints(1, bare, idx, g);
    let iv = cfgs[k % cfgs.len()].clone();
    let gamma = iv.gamma1();
    Elem { dom: build(&iv), members: bvec(&gamma), gamma, iv }
}

/// The hint configurations of one bare interval: none / lower / upper / both. Hints are grid
/// points strictly outside the interval (the only kind the code ever stores), not necessarily on
/// the stride; which grid point (nearest or second nearest) and which delay (0, 1, 5) varies with
/// `idx` so that the alphabet as a whole has every combination. Configurations that cannot exist
/// (no room below -128 / above 127) are dropped, so there are 1..=4 results.
pub fn with_hints(w: u32, bare: (i64, i64, u64), idx: usize, g: &[i64]) -> Vec<Iv> {
    let (s, e, t) = bare;
    let below: Vec<i64> = g.iter().copied().filter(|x| *x < s).rev().collect();
    let above: Vec<i64> = g.iter().copied().filter(|x| *x > e).collect();
    let pick = |v: &Vec<i64>, k: usize| -> Option<i64> {
        if v.is_empty() {
            None
        } else {
            Some(v[k % v.len().min(2)])
        }
    };
    let lo = pick(&below, idx);
    let hi = pick(&above, idx / 2);
    let delays = [0u64, 1, 5];
    let mut out = vec![Iv::bare(w, s, e, t)];
    if let Some(l) = lo {
        out.push(Iv { w, s, e, stride: t, lo: Some(l), hi: None, delay: delays[idx % 3] });
    }
    if let Some(h) = hi {
        out.push(Iv { w, s, e, stride: t, lo: None, hi: Some(h), delay: delays[(idx + 1) % 3] });
    }
    if let (Some(l), Some(h)) = (lo, hi) {
        out.push(Iv { w, s, e, stride: t, lo: Some(l), hi: Some(h), delay: delays[(idx + 2) % 3] });
    }
    out
}

/// One element of the 1-byte alphabet with everything precomputed.
pub struct Elem {
    pub iv: Iv,
    pub dom: IntervalDomain,
    pub gamma: Bits,
    pub members: Vec<u8>,
}

/// `I1` × hint configurations: for every bare interval its 1..=4 configurations (index 0 = no hints).
pub fn i1_elems(thorough: bool) -> Vec<Vec<Elem>> {
    let g = grid(thorough);
    i1_bare(thorough)
        .into_iter()
        .enumerate()
        .map(|(idx, bare)| {
            with_hints(1, bare, idx, &g)
                .into_iter()
                .map(|iv| {
                    let gamma = iv.gamma1();
                    Elem { dom: build(&iv), members: bvec(&gamma), gamma, iv }
                })
                .collect()
        })
        .collect()
}

/// End points for the wide alphabets: a subset of `B(w)` (as signed numbers, ascending).
pub fn wide_points(w: u32, thorough: bool) -> Vec<i64> {
    let bits = w * 8;
    let half = 1i64 << (bits / 2);
    let mut v: Vec<i64> = vec![smin(w), smin(w) + 1, -half - 1, -half, -2, -1, 0, 1, 2, half - 1, half, smax(w) - 1, smax(w)];
    if thorough {
        v.extend([smin(w) + 2, -3, 3, 127, 128, 255, 256, -128, -129, half + 1, smax(w) - 2, 0x5a5a_5a5a_5a5a_5a5ai64 >> (64 - bits + 1)]);
    }
    v.sort();
    v.dedup();
    v
}
pub fn wide_strides(w: u32, thorough: bool) -> Vec<u64> {
    let bits = w * 8;
    let mut v = vec![1u64, 2, 3, 8, 1u64 << (bits / 2), 1u64 << (bits - 2)];
    if thorough {
        v.extend([4, 5, 16, 64, 1u64 << (bits - 1)]);
    }
    v.sort();
    v.dedup();
    v
}
/// Wide alphabet without hints: singletons of all points, `[s, e'; t]` for all point pairs s<e and
/// strides t, where e' is e rounded down onto the stride (skipped if that collapses to s), plus
/// `[s, s+k*t; t]` for k in 1..=2, two-member intervals `[s,e;e-s]` with e-s >= 2^(bits-1), plus Top.
pub fn wide_bare(w: u32, thorough: bool) -> Vec<(i64, i64, u64)> {
    let pts = wide_points(w, thorough);
    let mut set: BTreeSet<(i64, i64, u64)> = BTreeSet::new();
    for &s in &pts {
        set.insert((s, s, 0));
        for t in wide_strides(w, thorough) {
            for &e in &pts {
                if s < e {
                    let len = (e as i128 - s as i128) as u128;
                    let e2 = (s as i128 + (len / t as u128 * t as u128) as i128) as i64;
                    if e2 != s {
                        set.insert((s, e2, t));
                    }
                }
            }
            for k in 1..=2i128 {
                let e = s as i128 + k * t as i128;
                if e <= smax(w) as i128 {
                    set.insert((s, e as i64, t));
                }
            }
        }
        // two members further apart than the largest positive signed number (stride >= 2^(bits-1))
        for &e in &pts {
            let d = e as i128 - s as i128;
            if d > smax(w) as i128 && (thorough || s == smin(w) || e == smax(w)) {
                set.insert((s, e, d as u64));
            }
        }
    }
    set.insert((smin(w), smax(w), 1));
    set.into_iter().collect()
}
/// Hints for the wide alphabet: nearest point strictly outside on each side.
pub fn wide_with_hints(w: u32, bare: (i64, i64, u64), idx: usize, thorough: bool) -> Vec<Iv> {
    with_hints(w, bare, idx, &wide_points(w, thorough))
}
/// Points of interest (signed) at width `w` around which members are picked for large intervals.
pub fn wide_interest(w: u32) -> Vec<i128> {
    let bits = w * 8;
    let half = 1i128 << (bits / 2);
    vec![smin(w) as i128, -half, -129, -128, -1, 0, 127, 128, 255, 256, half - 1, half, smax(w) as i128]
}

/// Position of a case in the enumeration: (part, index inside the part, running number inside the index).
pub type Ordinal = (u32, u64, u32);
const KEPT_PER_KEY: usize = 25;
type Kept = BTreeMap<String, (u64, BTreeMap<Ordinal, (serde_json::Value, serde_json::Value)>)>;
static COLLECTED: std::sync::Mutex<Kept> = std::sync::Mutex::new(BTreeMap::new());

fn keep(into: &mut Kept, key: String, n: u64, ord: Ordinal, case: serde_json::Value, detail: serde_json::Value) {
    let e = into.entry(key).or_insert_with(|| (0, BTreeMap::new()));
    e.0 += n;
    e.1.insert(ord, (case, detail));
    while e.1.len() > KEPT_PER_KEY {
        e.1.pop_last();
    }
}

/// Report a violation. During a sweep the violations are collected per worker and handed to
/// `Ctx` in enumeration order by `emit_violations` (so the recorded examples do not depend on
/// thread scheduling: per class the first 25 in enumeration order, plus the total count);
/// when a single case is replayed the violation is reported at once and what was observed is printed.
pub fn viol(ctx: &Ctx, acc: &mut Acc, key: String, case: serde_json::Value, detail: serde_json::Value) {
    if ctx.replay_case().is_some() {
        eprintln!("violation [{key}]\n  case:   {case}\n  detail: {detail}");
        ctx.violation(key, case, detail);
        return;
    }
    let ord = acc.ord;
    acc.ord.2 += 1;
    keep(&mut acc.viols, key, 1, ord, case, detail);
}

/// Hand the collected violations to `Ctx` (call once, before `Ctx::finish`).
pub fn emit_violations(ctx: &Ctx) {
    let all = std::mem::take(&mut *COLLECTED.lock().unwrap());
    for (key, (count, kept)) in all {
        ctx.stat(&format!("violating cases [{key}]"), count);
        for (_, (case, detail)) in kept {
            ctx.violation(key.clone(), case, detail);
        }
    }
}

// ---------------------------------------------------------------- per-worker counters

#[derive(Default)]
pub struct Acc {
    pub states: u64,
    pub transitions: u64,
    pub evaluations: u64,
    pub nontrivial: u64,
    pub outcomes: BTreeSet<u64>,
    pub stats: BTreeMap<&'static str, u64>,
    /// violations found by this worker: per class the count and the first few in enumeration order
    pub viols: Kept,
    /// where in the enumeration the worker is
    pub ord: Ordinal,
}
impl Acc {
    /// Tell the accumulator which element of the enumeration is processed next.
    pub fn at(&mut self, part: u32, idx: u64) {
        self.ord = (part, idx, 0);
    }
    pub fn stat(&mut self, k: &'static str, n: u64) {
        *self.stats.entry(k).or_insert(0) += n;
    }
    pub fn outcome<H: std::hash::Hash>(&mut self, h: &H) {
        if self.outcomes.len() < 200_000 {
            self.outcomes.insert(mcx::fixed_hash(h));
        }
    }
    pub fn flush(self, ctx: &Ctx) {
        ctx.add_states(self.states);
        ctx.add_transitions(self.transitions);
        ctx.add_evaluations(self.evaluations);
        ctx.add_nontrivial(self.nontrivial);
        for v in &self.outcomes {
            ctx.outcome(v);
        }
        for (k, n) in self.stats {
            ctx.stat(k, n);
        }
        let mut all = COLLECTED.lock().unwrap();
        for (key, (count, kept)) in self.viols {
            let mut first = true;
            for (ord, (case, detail)) in kept {
                keep(&mut all, key.clone(), if first { count } else { 0 }, ord, case, detail);
                first = false;
            }
        }
    }
}
