//! C15 oracle: explicit-state path exploration over `(block, set of variables whose value
//! depends on the source's return value)`, a transcription of the property statement.
//!
//! For one source (a call to a configured symbol with a return target) three explorations:
//!   * `Max`: no conditional ever ends a path. Used only to decide scope: if on any such path
//!     a store writes a value that depends on the source value, the value flows through memory
//!     and the program is outside the property's scope.
//!   * `P` (the statement): a path ends at a conditional jump whose condition depends on the
//!     path's own carrying set. `P = true` iff some path reaches a sink. Also yields `U(b)`,
//!     the union of the carrying sets of all such paths at the end of block b (paths are followed
//!     beyond sinks for this purpose, which only enlarges U).
//!   * `L`: as `P`, but a path ends at a conditional whose condition depends on `U(b)`: what
//!     an analysis that merges the carrying sets of all paths at joins is still guaranteed to find.
//! Sinks: load/store whose address depends on the value; library call with a declared register
//! parameter depending on it; internal / indirect call with a calling-convention parameter
//! register carrying it; `Return` with a return register carrying it when the function has a call
//! site with return target inside the program. Dependence ends when the variable is overwritten
//! with a value that does not depend on the source value (loads never depend on it: no flow
//! through memory), and at every call for all variables that are not callee-saved registers.
#![allow(dead_code)]
use crate::c14_common::{tid_str, vars_of};
use props::ccl::intermediate_representation::*;
use std::collections::{BTreeMap, BTreeSet, VecDeque};

pub struct Conv {
    pub params: Vec<String>,
    pub returns: Vec<String>,
    pub callee_saved: Vec<String>,
}

#[derive(Clone, Copy, PartialEq, Eq, Debug)]
pub enum Mode {
    Max,
    P,
    L,
}

type Set = BTreeSet<String>;

fn depends(e: &Expression, s: &Set) -> bool {
    let mut v = Vec::new();
    vars_of(e, &mut v);
    v.iter().any(|x| s.contains(&x.name))
}

#[derive(Default, Debug, Clone)]
pub struct Explored {
    pub sink: Option<(String, Vec<String>)>,
    /// kind of the first sink found (coverage statistics)
    pub sink_kind: &'static str,
    pub memory_flow: bool,
    pub union_at_block_end: BTreeMap<usize, Set>,
    pub states: u64,
}

pub struct Source<'a> {
    pub sub: &'a Term<Sub>,
    pub call: &'a Term<Jmp>,
    pub symbol: &'a ExternSymbol,
    pub return_block: usize,
}

/// All sources of the project: calls to extern symbols with a configured name that have a
/// return target inside the calling function.
pub fn sources<'a>(project: &'a Project, symbols: &[String]) -> Vec<Source<'a>> {
    let mut out = Vec::new();
    for sub in project.program.term.subs.values() {
        for b in &sub.term.blocks {
            for j in &b.term.jmps {
                if let Jmp::Call { target, return_: Some(ret) } = &j.term {
                    if let Some(sym) = project.program.term.extern_symbols.get(target) {
                        if symbols.iter().any(|n| *n == sym.name) {
                            if let Some(ri) = sub.term.blocks.iter().position(|x| x.tid == *ret) {
                                out.push(Source { sub, call: j, symbol: sym, return_block: ri });
                            }
                        }
                    }
                }
            }
        }
    }
    out
}

/// Is some `Return` reachable from the entry of `sub` along jumps and call fall-throughs?
pub fn may_return(sub: &Term<Sub>) -> bool {
    let idx: BTreeMap<String, usize> = sub.term.blocks.iter().enumerate().map(|(i, b)| (tid_str(&b.tid), i)).collect();
    if sub.term.blocks.is_empty() {
        return false;
    }
    let mut seen = BTreeSet::new();
    let mut work = vec![0usize];
    while let Some(i) = work.pop() {
        if !seen.insert(i) {
            continue;
        }
        let b = &sub.term.blocks[i];
        let mut go = |t: &Tid| {
            if let Some(k) = idx.get(&tid_str(t)) {
                work.push(*k);
            }
        };
        for j in &b.term.jmps {
            match &j.term {
                Jmp::Return(_) => return true,
                Jmp::Branch(t) | Jmp::CBranch { target: t, .. } => go(t),
                Jmp::BranchInd(_) => b.term.indirect_jmp_targets.iter().for_each(&mut go),
                Jmp::Call { return_, .. } | Jmp::CallInd { return_, .. } => {
                    if let Some(r) = return_ {
                        go(r)
                    }
                }
                Jmp::CallOther { .. } => (),
            }
        }
    }
    false
}

/// Does the function have a call site with a return target inside the program?
pub fn has_internal_caller(project: &Project, f: &Tid) -> bool {
    project.program.term.subs.values().any(|s| s.term.blocks.iter().any(|b| b.term.jmps.iter().any(|j| matches!(&j.term, Jmp::Call { target, return_: Some(_) } if target == f))))
}

fn mark_sink(out: &mut Explored, kind: &'static str, at: &Tid, nodes: &[(usize, usize)], blocks: &[Term<Blk>], node: usize) {
    if out.sink.is_none() {
        out.sink_kind = kind;
        let mut path = Vec::new();
        let mut n = node;
        loop {
            path.push(tid_str(&blocks[nodes[n].0].tid));
            if nodes[n].1 == usize::MAX {
                break;
            }
            n = nodes[n].1;
        }
        path.reverse();
        out.sink = Some((tid_str(at), path));
    }
}

pub fn explore(project: &Project, conv: &Conv, src: &Source, mode: Mode, union: Option<&BTreeMap<usize, Set>>) -> Explored {
    let sub = src.sub;
    let blocks = &sub.term.blocks;
    let idx: BTreeMap<String, usize> = blocks.iter().enumerate().map(|(i, b)| (tid_str(&b.tid), i)).collect();
    let returns_to_caller = has_internal_caller(project, &sub.tid);
    let mut init = Set::new();
    for a in &src.symbol.return_values {
        if let Arg::Register { expr, .. } = a {
            let mut v = Vec::new();
            vars_of(expr, &mut v);
            init.extend(v.iter().map(|x| x.name.clone()));
        }
    }
    let mut out = Explored::default();
    let mut nodes: Vec<(usize, usize)> = Vec::new(); // (block, parent)
    let mut visited: BTreeSet<(usize, Set)> = BTreeSet::new();
    let mut queue: VecDeque<(usize, Set)> = VecDeque::new();
    let push = |nodes: &mut Vec<(usize, usize)>, visited: &mut BTreeSet<(usize, Set)>, queue: &mut VecDeque<(usize, Set)>, parent: usize, t: &Tid, s: Set| {
        if s.is_empty() {
            return; // nothing carries the value any more
        }
        if let Some(&bi) = idx.get(&tid_str(t)) {
            if visited.insert((bi, s.clone())) {
                nodes.push((bi, parent));
                queue.push_back((nodes.len() - 1, s));
            }
        }
    };
    visited.insert((src.return_block, init.clone()));
    nodes.push((src.return_block, usize::MAX));
    queue.push_back((0, init));
    let after_call = |s: &Set| -> Set { s.iter().filter(|r| conv.callee_saved.contains(r)).cloned().collect() };
    while let Some((node, s0)) = queue.pop_front() {
        out.states += 1;
        let bi = nodes[node].0;
        let b = &blocks[bi];
        let mut s = s0;
        for d in &b.term.defs {
            match &d.term {
                Def::Assign { var, value } => {
                    if depends(value, &s) {
                        s.insert(var.name.clone());
                    } else {
                        s.remove(&var.name);
                    }
                }
                Def::Load { var, address } => {
                    if depends(address, &s) {
                        mark_sink(&mut out, "load", &d.tid, &nodes, blocks, node);
                    }
                    s.remove(&var.name);
                }
                Def::Store { address, value } => {
                    if depends(address, &s) {
                        mark_sink(&mut out, "store", &d.tid, &nodes, blocks, node);
                    }
                    if depends(value, &s) {
                        out.memory_flow = true;
                    }
                }
            }
        }
        out.union_at_block_end.entry(bi).or_default().extend(s.iter().cloned());
        if s.is_empty() {
            continue;
        }
        for j in &b.term.jmps {
            match &j.term {
                Jmp::CBranch { target, condition } => {
                    let ends = match mode {
                        Mode::Max => false,
                        Mode::P => depends(condition, &s),
                        Mode::L => depends(condition, union.and_then(|u| u.get(&bi)).unwrap_or(&s)) || depends(condition, &s),
                    };
                    if ends {
                        break; // neither successor is reached on this path
                    }
                    push(&mut nodes, &mut visited, &mut queue, node, target, s.clone());
                    continue;
                }
                Jmp::Branch(t) => push(&mut nodes, &mut visited, &mut queue, node, t, s.clone()),
                Jmp::BranchInd(_) => {
                    for h in &b.term.indirect_jmp_targets {
                        push(&mut nodes, &mut visited, &mut queue, node, h, s.clone());
                    }
                }
                Jmp::Return(_) => {
                    if returns_to_caller && conv.returns.iter().any(|r| s.contains(r)) {
                        mark_sink(&mut out, "return to caller", &j.tid, &nodes, blocks, node);
                    }
                }
                Jmp::Call { target, return_ } => {
                    let mut continues = true;
                    if let Some(sym) = project.program.term.extern_symbols.get(target) {
                        let hit = sym.parameters.iter().any(|p| matches!(p, Arg::Register { expr, .. } if depends(expr, &s)));
                        if hit {
                            mark_sink(&mut out, "library call parameter", &j.tid, &nodes, blocks, node);
                        }
                        continues = !sym.no_return;
                    } else {
                        if conv.params.iter().any(|p| s.contains(p)) {
                            mark_sink(&mut out, "internal call parameter register", &j.tid, &nodes, blocks, node);
                        }
                        if let Some(callee) = project.program.term.subs.get(target) {
                            continues = may_return(callee);
                        }
                    }
                    if continues {
                        if let Some(r) = return_ {
                            push(&mut nodes, &mut visited, &mut queue, node, r, after_call(&s));
                        }
                    }
                }
                Jmp::CallInd { return_, .. } => {
                    if conv.params.iter().any(|p| s.contains(p)) {
                        mark_sink(&mut out, "indirect call parameter register", &j.tid, &nodes, blocks, node);
                    }
                    if let Some(r) = return_ {
                        push(&mut nodes, &mut visited, &mut queue, node, r, after_call(&s));
                    }
                }
                Jmp::CallOther { .. } => (),
            }
            break;
        }
    }
    out
}

pub struct Verdict {
    pub out_of_scope: bool,
    pub p: bool,
    pub l: bool,
    pub p_witness: Option<(String, Vec<String>)>,
    pub p_sink_kind: &'static str,
    pub states: u64,
}

pub fn judge_source(project: &Project, conv: &Conv, src: &Source) -> Verdict {
    let max = explore(project, conv, src, Mode::Max, None);
    if max.memory_flow {
        return Verdict { out_of_scope: true, p: false, l: false, p_witness: None, p_sink_kind: "", states: max.states };
    }
    let p = explore(project, conv, src, Mode::P, None);
    let l = explore(project, conv, src, Mode::L, Some(&p.union_at_block_end));
    Verdict { out_of_scope: false, p: p.sink.is_some(), l: l.sink.is_some(), p_witness: p.sink.clone(), p_sink_kind: p.sink_kind, states: max.states + p.states + l.states }
}
