//! C17 — program space, IR builder and reference reachability for the
//! reachability-based checkers (CWE367 TOCTOU, CWE243 chroot).
//!
//! A *case* is a list of functions; function `f` is `FUN_<0x1000*(f+1)>`, its
//! block `k` is `blk_<0x1000*(f+1)+0x10*k>` (entry block at the function
//! address, as in the extractor's output), the terminator of block `k` sits at
//! `instr_<blk+4>_<i>`. Every block is described by one terminator [`T`] and has
//! no defs. Jump/return targets are block indices of the *own* function.
//!
//! The oracle in this file only reads the case description (never the IR, the
//! normalized IR or the real CFG).

#![allow(dead_code)]
use props::ccl::intermediate_representation::*;
use props::irb::*;
use serde::{Deserialize, Serialize};
use std::collections::BTreeSet;

#[derive(Serialize, Deserialize, Clone, Copy, Debug, PartialEq, Eq, PartialOrd, Ord, Hash)]
pub enum Callee {
    Check,
    Use,
    Chroot,
    Chdir,
    Setuid,
    Other,
    /// internal function number i
    Fun(usize),
}

pub const EXTERNS: [Callee; 6] = [Callee::Check, Callee::Use, Callee::Chroot, Callee::Chdir, Callee::Setuid, Callee::Other];

impl Callee {
    pub fn name(&self) -> &'static str {
        match self {
            Callee::Check => "check",
            Callee::Use => "use",
            Callee::Chroot => "chroot",
            Callee::Chdir => "chdir",
            Callee::Setuid => "setuid",
            Callee::Other => "other",
            Callee::Fun(_) => "<internal>",
        }
    }
    pub fn from_name(n: &str) -> Option<Callee> {
        EXTERNS.iter().copied().find(|c| c.name() == n)
    }
    fn ext_index(&self) -> usize {
        EXTERNS.iter().position(|c| c == self).unwrap()
    }
}

/// Terminator of one block.
#[derive(Serialize, Deserialize, Clone, Debug, PartialEq, Eq, PartialOrd, Ord, Hash)]
pub enum T {
    /// block without jump (dead end)
    NoJump,
    Return,
    Branch(usize),
    /// `CBranch a; Branch b`
    CBranch(usize, usize),
    /// direct call, with or without return target
    Call(Callee, Option<usize>),
}

#[derive(Serialize, Deserialize, Clone, Debug, PartialEq, Eq, Hash)]
pub struct Case {
    /// terminators per function, per block
    pub funs: Vec<Vec<T>>,
    /// whether `chdir` is in the import table (if not, no block may call it)
    pub chdir_imported: bool,
    /// false: the checks see the output of `normalize_basic`; true: of `normalize_basic` + `normalize_optimize`
    pub full_normalize: bool,
}

/// Terminator alphabet for a block of a function with `n` blocks in a program with `nf` functions.
pub fn alphabet(n: usize, nf: usize, with_chdir: bool) -> Vec<T> {
    let mut out = vec![T::NoJump, T::Return];
    for a in 0..n {
        out.push(T::Branch(a));
    }
    for a in 0..n {
        for b in 0..n {
            out.push(T::CBranch(a, b));
        }
    }
    let mut callees: Vec<Callee> = EXTERNS.iter().copied().filter(|c| with_chdir || *c != Callee::Chdir).collect();
    callees.extend((0..nf).map(Callee::Fun));
    for c in callees {
        out.push(T::Call(c, None));
        for r in 0..n {
            out.push(T::Call(c, Some(r)));
        }
    }
    out
}

/// Which of the two checks a forward (DAG) slice is aimed at: the source/sink symbols of its alphabet.
#[derive(Clone, Copy, Debug, PartialEq, Eq)]
pub enum Aim {
    Toctou,
    Chroot,
}

/// Reduced terminator alphabet for block `k` of an `n`-block function whose targets only go
/// FORWARD (`t > k`, the function is a DAG): none | return | jump t | cond-pair t,t' (every
/// ordered pair, so both orders of the two successors) | call source -> r | call sink -> r |
/// call sink without return target.
pub fn forward_alphabet(n: usize, k: usize, aim: Aim) -> Vec<T> {
    let (source, sink) = match aim {
        Aim::Toctou => (Callee::Check, Callee::Use),
        Aim::Chroot => (Callee::Chroot, Callee::Chdir),
    };
    let mut out = vec![T::NoJump, T::Return, T::Call(sink, None)];
    for a in k + 1..n {
        out.push(T::Branch(a));
        out.push(T::Call(source, Some(a)));
        out.push(T::Call(sink, Some(a)));
        for b in k + 1..n {
            out.push(T::CBranch(a, b));
        }
    }
    out
}

// ------------------------------------------------------------------ naming / building the raw IR

pub fn fun_addr(f: usize) -> u64 {
    0x1000 * (f as u64 + 1)
}
pub fn fun_tid(f: usize) -> Tid {
    let a = format!("{:08x}", fun_addr(f));
    tid_at(&format!("FUN_{a}"), &a)
}
pub fn fun_name(f: usize) -> String {
    format!("fn{f}")
}
pub fn blk_tid(f: usize, k: usize) -> Tid {
    let a = format!("{:08x}", fun_addr(f) + 0x10 * k as u64);
    tid_at(&format!("blk_{a}"), &a)
}
pub fn jmp_tid(f: usize, k: usize, i: usize) -> Tid {
    let a = format!("{:08x}", fun_addr(f) + 0x10 * k as u64 + 4);
    tid_at(&format!("instr_{a}_{i}"), &a)
}
pub fn ext_tid(c: Callee) -> Tid {
    let a = format!("{:08x}", 0xe000 + 0x10 * c.ext_index() as u64);
    tid_at(&format!("FUN_{a}"), &a)
}
const FLAGS: [&str; 6] = ["ZF", "CF", "SF", "OF", "PF", "AF"];

fn callee_tid(c: Callee) -> Tid {
    match c {
        Callee::Fun(f) => fun_tid(f),
        c => ext_tid(c),
    }
}

/// The raw (un-normalized) project of a case.
pub fn build(case: &Case) -> Project {
    let mut subs = Vec::new();
    for (f, blocks) in case.funs.iter().enumerate() {
        let mut blks = Vec::new();
        for (k, t) in blocks.iter().enumerate() {
            let jmps = match t {
                T::NoJump => vec![],
                T::Return => vec![Term { tid: jmp_tid(f, k, 0), term: Jmp::Return(reg("RAX", 8)) }],
                T::Branch(a) => vec![Term { tid: jmp_tid(f, k, 0), term: Jmp::Branch(blk_tid(f, *a)) }],
                // every block tests its own flag, so that no condition of one block decides another one
                T::CBranch(a, b) => vec![
                    Term { tid: jmp_tid(f, k, 0), term: Jmp::CBranch { target: blk_tid(f, *a), condition: reg(FLAGS[k % 6], 1) } },
                    Term { tid: jmp_tid(f, k, 1), term: Jmp::Branch(blk_tid(f, *b)) },
                ],
                T::Call(c, r) => vec![Term { tid: jmp_tid(f, k, 0), term: Jmp::Call { target: callee_tid(*c), return_: r.map(|r| blk_tid(f, r)) } }],
            };
            blks.push(Term { tid: blk_tid(f, k), term: Blk { defs: vec![], jmps, indirect_jmp_targets: vec![] } });
        }
        subs.push(Term { tid: fun_tid(f), term: Sub { name: fun_name(f), blocks: blks, calling_convention: None } });
    }
    let mut externs = Vec::new();
    for c in EXTERNS {
        if c == Callee::Chdir && !case.chdir_imported {
            continue;
        }
        let t = ext_tid(c);
        let mut e = extern_symbol("x", c.name(), vec![], vec![], false);
        e.tid = t;
        externs.push(e);
    }
    let mut project = project_x64(subs, externs);
    for f in FLAGS {
        project.register_set.insert(var(f, 1));
    }
    project
}

// ------------------------------------------------------------------ reference control-flow relation

/// Which reading of "the callee returns" is used for internal calls.
#[derive(Clone, Copy, PartialEq, Eq, Debug)]
pub enum Reading {
    /// strict: a `Return` is reachable from the callee's entry (through calls that themselves return in this reading)
    Strict,
    /// liberal: some block of the callee ends in `Return`
    Liberal,
}

pub struct Flow<'a> {
    pub case: &'a Case,
    returns_strict: Vec<bool>,
    returns_liberal: Vec<bool>,
}

impl<'a> Flow<'a> {
    pub fn new(case: &'a Case) -> Flow<'a> {
        let nf = case.funs.len();
        let returns_liberal: Vec<bool> = case.funs.iter().map(|b| b.iter().any(|t| *t == T::Return)).collect();
        // least fixpoint for the strict reading
        let mut flow = Flow { case, returns_strict: vec![false; nf], returns_liberal };
        loop {
            let mut changed = false;
            for f in 0..nf {
                if flow.returns_strict[f] || case.funs[f].is_empty() {
                    continue;
                }
                let mut seen = BTreeSet::new();
                let mut work = vec![0usize];
                seen.insert(0usize);
                let mut ret = false;
                while let Some(b) = work.pop() {
                    if case.funs[f][b] == T::Return {
                        ret = true;
                        break;
                    }
                    for s in flow.succ(f, b, Reading::Strict) {
                        if seen.insert(s) {
                            work.push(s);
                        }
                    }
                }
                if ret {
                    flow.returns_strict[f] = true;
                    changed = true;
                }
            }
            if !changed {
                break;
            }
        }
        flow
    }

    pub fn callee_returns(&self, g: usize, reading: Reading) -> bool {
        match reading {
            Reading::Strict => self.returns_strict[g],
            Reading::Liberal => self.returns_liberal[g],
        }
    }

    /// Intraprocedural successors of block `b` of function `f`.
    pub fn succ(&self, f: usize, b: usize, reading: Reading) -> Vec<usize> {
        match &self.case.funs[f][b] {
            T::NoJump | T::Return => vec![],
            T::Branch(a) => vec![*a],
            T::CBranch(a, c) => vec![*a, *c],
            T::Call(_, None) => vec![],
            T::Call(Callee::Fun(g), Some(r)) => {
                if self.callee_returns(*g, reading) {
                    vec![*r]
                } else {
                    vec![]
                }
            }
            T::Call(_, Some(r)) => vec![*r],
        }
    }

    /// Blocks of `f` that end in a call to `sink` and are reachable from `start` along
    /// intraprocedural control flow without passing a call to `stop`.
    pub fn reachable_calls(&self, f: usize, start: Option<usize>, stop: Callee, sink: Callee, reading: Reading) -> BTreeSet<usize> {
        let mut found = BTreeSet::new();
        let Some(start) = start else { return found };
        let mut seen = BTreeSet::new();
        seen.insert(start);
        let mut work = vec![start];
        while let Some(b) = work.pop() {
            if let T::Call(c, _) = &self.case.funs[f][b] {
                if *c == sink {
                    found.insert(b);
                } else if *c == stop {
                    continue; // do not pass another call to the source function
                }
            }
            for s in self.succ(f, b, reading) {
                if seen.insert(s) {
                    work.push(s);
                }
            }
        }
        found
    }

    /// Blocks that may legitimately be named as "the place the call returns to": the return
    /// target and every block reached from it through blocks that consist of one unconditional jump.
    pub fn return_chain(&self, f: usize, r: usize) -> BTreeSet<usize> {
        let mut out = BTreeSet::new();
        let mut cur = r;
        while out.insert(cur) {
            match &self.case.funs[f][cur] {
                T::Branch(a) => cur = *a,
                _ => break,
            }
        }
        out
    }

    pub fn calls_of(&self, f: usize, c: Callee) -> Vec<(usize, Option<usize>)> {
        self.case.funs[f].iter().enumerate().filter_map(|(k, t)| match t {
            T::Call(x, r) if *x == c => Some((k, *r)),
            _ => None,
        }).collect()
    }
}

/// What the TOCTOU statement says about one call to the source function.
#[derive(Debug, Clone)]
pub struct SourceCall {
    pub f: usize,
    pub block: usize,
    pub ret: Option<usize>,
    /// sink-call blocks reachable in the strict reading (non-empty => a warning is demanded)
    pub strict: BTreeSet<usize>,
    /// sink-call blocks reachable in the liberal reading (empty => a warning is forbidden)
    pub liberal: BTreeSet<usize>,
}

pub fn toctou_expectation(flow: &Flow, source: Callee, sink: Callee) -> Vec<SourceCall> {
    let mut out = Vec::new();
    for f in 0..flow.case.funs.len() {
        for (block, ret) in flow.calls_of(f, source) {
            out.push(SourceCall {
                f,
                block,
                ret,
                strict: flow.reachable_calls(f, ret, source, sink, Reading::Strict),
                liberal: flow.reachable_calls(f, ret, source, sink, Reading::Liberal),
            });
        }
    }
    out
}

#[derive(Debug, Clone, Copy, PartialEq, Eq)]
pub enum Demand {
    Warn,
    NoWarn,
    /// the statement does not decide (depends on the reading of "the callee returns")
    Open,
}

#[derive(Debug, Clone)]
pub struct ChrootCall {
    pub f: usize,
    pub block: usize,
    pub ret: Option<usize>,
    pub demand: Demand,
    /// the function calls both chdir and a configured, imported privilege-dropping function
    pub both: bool,
    /// chdir-call blocks reachable after the chroot call (strict reading)
    pub strict: BTreeSet<usize>,
}

/// `privs`: configured privilege-dropping functions that are imported.
pub fn chroot_expectation(flow: &Flow, privs: &[Callee]) -> Vec<ChrootCall> {
    let mut out = Vec::new();
    for f in 0..flow.case.funs.len() {
        let calls_chdir = !flow.calls_of(f, Callee::Chdir).is_empty();
        let calls_priv = privs.iter().any(|p| !flow.calls_of(f, *p).is_empty());
        let both = calls_chdir && calls_priv;
        for (block, ret) in flow.calls_of(f, Callee::Chroot) {
            let strict = flow.reachable_calls(f, ret, Callee::Chroot, Callee::Chdir, Reading::Strict);
            let demand = if !flow.case.chdir_imported {
                Demand::Warn
            } else {
                let liberal = flow.reachable_calls(f, ret, Callee::Chroot, Callee::Chdir, Reading::Liberal);
                if both || !strict.is_empty() {
                    Demand::NoWarn
                } else if liberal.is_empty() {
                    Demand::Warn
                } else {
                    Demand::Open
                }
            };
            out.push(ChrootCall { f, block, ret, demand, both, strict });
        }
    }
    out
}
