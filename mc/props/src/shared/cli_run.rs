//! Running the real `cwe_checker` binary for the CLI checks C21-C23:
//! build of the CLI from the current tree, a scratch `XDG_CONFIG_HOME` holding the
//! shipped configuration files, process execution with a wall-clock limit, and the
//! well-formedness oracle for the `--json --quiet` output.
//!
//! The oracle is a transcription of the property statement; the only facts taken
//! from the repository are the *definitions* the statement refers to: the table of
//! known checks with their versions (`get_modules()`), and the derived `Ord` of
//! `CweWarning` (field order: name, version, addresses, tids, symbols, other,
//! description), which is re-implemented here on the parsed JSON.

#![allow(dead_code)]

use serde_json::{json, Value};
use std::collections::BTreeMap;
use std::path::{Path, PathBuf};
use std::process::{Command, Stdio};
use std::sync::atomic::{AtomicU64, Ordering};
use std::time::{Duration, Instant};

/// The 19 checks the documentation lists (`--module-versions` must name each exactly once).
pub const KNOWN_CHECKS: [&str; 19] = [
    "CWE78", "CWE119", "CWE134", "CWE190", "CWE215", "CWE243", "CWE252", "CWE332", "CWE337", "CWE367", "CWE416", "CWE426", "CWE467", "CWE476", "CWE560", "CWE676", "CWE782", "CWE789", "Memory",
];
/// The CWE identifiers a check reports under (README / module docs: CWE-119 "and its variants
/// CWE-125 and CWE-787"; CWE-416 "and its variant CWE-415"; the Memory check "reports instances
/// of CWE-476"). Every other check reports under its own name only.
pub fn reports_as(check: &str) -> Vec<&'static str> {
    match check {
        "CWE119" => vec!["CWE119", "CWE125", "CWE787"],
        "CWE416" => vec!["CWE416", "CWE415"],
        "Memory" => vec!["CWE476"],
        other => KNOWN_CHECKS.iter().copied().filter(|k| *k == other).collect(),
    }
}
/// Checks whose warnings concern the whole binary and therefore carry no address.
pub const CHECKS_WITHOUT_ADDRESS: [&str; 2] = ["CWE215", "CWE332"];

pub fn repo_dir() -> String {
    std::env::var("VERIF_REPO_DIR").unwrap_or_else(|_| "/repo".to_string())
}
/// Development aid: restrict a run to the inputs whose label contains `$VERIF_CLI_ONLY`.
/// Such a run is marked as capped (never exhaustive).
pub fn dev_filter() -> Option<String> {
    std::env::var("VERIF_CLI_ONLY").ok().filter(|s| !s.is_empty())
}
/// Scratch root: `/verif/work`, or the mutation runner's output directory.
pub fn work_dir() -> String {
    match std::env::var("VERIF_OUT_DIR") {
        Ok(d) => d,
        Err(_) => "/verif/work".to_string(),
    }
}

pub struct Cli {
    pub bin: PathBuf,
    pub xdg: PathBuf,
    pub scratch: PathBuf,
    pub preload: Option<PathBuf>,
    pub timeout: Duration,
    /// check name -> version, from the library's module table
    pub versions: BTreeMap<String, String>,
    counter: AtomicU64,
    pub cpu_user_ms: AtomicU64,
}

pub struct RunOut {
    /// `Some(code)` for a normal exit, `None` if killed by a signal or by the time limit
    pub status: Option<i32>,
    pub timed_out: bool,
    pub stdout: Vec<u8>,
    pub stderr: String,
    pub wall_ms: u64,
}

impl Cli {
    /// Build the CLI from the current tree (no-op when unchanged), install the configs.
    /// `with_preload`: also build the hash-seed shim.
    pub fn setup(id: &str, with_preload: bool) -> Cli {
        let repo = repo_dir();
        let work = work_dir();
        let target = format!("{work}/target-cli");
        let t0 = Instant::now();
        let out = Command::new("cargo")
            .args(["build", "--release", "--offline", "--manifest-path", &format!("{repo}/Cargo.toml"), "-p", "cwe_checker"])
            .env("RUSTFLAGS", "--cfg fkie_cad_cwe_checker_verif")
            .env("CARGO_TARGET_DIR", &target)
            .env("CARGO_NET_OFFLINE", "true")
            .env_remove("CARGO_ENCODED_RUSTFLAGS")
            .stdin(Stdio::null())
            .output()
            .unwrap_or_else(|e| mcx::machinery(&format!("cannot start cargo: {e}")));
        if !out.status.success() {
            let err = String::from_utf8_lossy(&out.stderr);
            let tail: Vec<&str> = err.lines().rev().take(25).collect();
            mcx::machinery(&format!("build of the cwe_checker CLI from {repo} failed:\n{}", tail.into_iter().rev().collect::<Vec<_>>().join("\n")));
        }
        eprintln!("{id}: CLI build/check took {:.1}s", t0.elapsed().as_secs_f64());
        let bin = PathBuf::from(format!("{target}/release/cwe_checker"));
        if !bin.is_file() {
            mcx::machinery(&format!("CLI binary {} missing after build", bin.display()));
        }
        // scratch XDG_CONFIG_HOME with the shipped configuration
        // private to this process: concurrent runs of the same check must not share scratch state
        let pid = std::process::id();
        let xdg = PathBuf::from(format!("{work}/cli-scratch-{id}-{pid}/xdg"));
        let cfg = xdg.join("cwe_checker");
        std::fs::create_dir_all(&cfg).unwrap_or_else(|e| mcx::machinery(&format!("cannot create {}: {e}", cfg.display())));
        for f in ["config.json", "lkm_config.json"] {
            std::fs::copy(format!("{repo}/src/{f}"), cfg.join(f)).unwrap_or_else(|e| mcx::machinery(&format!("cannot install {f}: {e}")));
        }
        let scratch = PathBuf::from(format!("{work}/cli-scratch-{id}-{pid}/slots"));
        std::fs::create_dir_all(&scratch).unwrap_or_else(|e| mcx::machinery(&format!("cannot create {}: {e}", scratch.display())));
        let preload = if with_preload {
            let dir = format!("{work}/preload");
            std::fs::create_dir_all(&dir).ok();
            let so = format!("{dir}/getrandom-{id}-{}.so", std::process::id());
            let out = Command::new("cc")
                .args(["-O2", "-shared", "-fPIC", "-o", &so, "/verif/mc/preload/getrandom.c"])
                .output()
                .unwrap_or_else(|e| mcx::machinery(&format!("cannot start cc: {e}")));
            if !out.status.success() {
                mcx::machinery(&format!("building the hash-seed shim failed: {}", String::from_utf8_lossy(&out.stderr)));
            }
            Some(PathBuf::from(so))
        } else {
            None
        };
        // run a private snapshot of the binary: a concurrent rebuild of target-cli must not change it under us
        let private_bin = scratch.parent().unwrap().join("cwe_checker");
        std::fs::copy(&bin, &private_bin).unwrap_or_else(|e| mcx::machinery(&format!("cannot copy the CLI binary: {e}")));
        let bin = private_bin;
        let versions = props::ccl::get_modules().iter().map(|m| (m.name.to_string(), m.version.to_string())).collect();
        Cli { bin, xdg, scratch, preload, timeout: Duration::from_secs(120), versions, counter: AtomicU64::new(0), cpu_user_ms: AtomicU64::new(0) }
    }

    /// The known checks a warning can come from: those that report under its name and have its version.
    pub fn owners(&self, w: &Warning) -> Vec<String> {
        self.versions.iter().filter(|(m, ver)| **ver == w.version && reports_as(m).contains(&w.name.as_str())).map(|(m, _)| m.clone()).collect()
    }

    /// Remove this process's scratch directory (call before `Ctx::finish`, which exits).
    pub fn cleanup(&self) {
        if std::env::var_os("VERIF_CLI_KEEP").is_none() {
            if let Some(root) = self.scratch.parent() {
                let _ = std::fs::remove_dir_all(root);
            }
            if let Some(so) = &self.preload {
                let _ = std::fs::remove_file(so);
            }
        }
    }

    /// A fresh private directory for one input.
    pub fn slot(&self) -> PathBuf {
        let n = self.counter.fetch_add(1, Ordering::Relaxed);
        let d = self.scratch.join(format!("s{n}"));
        std::fs::create_dir_all(&d).unwrap_or_else(|e| mcx::machinery(&format!("cannot create {}: {e}", d.display())));
        d
    }
    pub fn write_input(&self, slot: &Path, pcode_json: &str, elf: &[u8]) -> (PathBuf, PathBuf) {
        let (e, p) = (slot.join("input.elf"), slot.join("pcode.json"));
        std::fs::write(&e, elf).unwrap_or_else(|e| mcx::machinery(&format!("cannot write input: {e}")));
        std::fs::write(&p, pcode_json).unwrap_or_else(|e| mcx::machinery(&format!("cannot write input: {e}")));
        (e, p)
    }
    pub fn drop_slot(&self, slot: &Path) {
        // development aid: VERIF_CLI_KEEP=1 leaves the generated inputs in the scratch directory
        if std::env::var_os("VERIF_CLI_KEEP").is_some() {
            return;
        }
        let _ = std::fs::remove_dir_all(slot);
    }

    /// Run the CLI with exactly `argv` (after the program name). `seed`: owned hash seed (needs the shim).
    pub fn run_raw(&self, slot: &Path, argv: &[String], seed: Option<u64>) -> RunOut {
        let n = self.counter.fetch_add(1, Ordering::Relaxed);
        let (so, se) = (slot.join(format!("out{n}")), slot.join(format!("err{n}")));
        let fo = std::fs::File::create(&so).unwrap_or_else(|e| mcx::machinery(&format!("cannot create {}: {e}", so.display())));
        let fe = std::fs::File::create(&se).unwrap_or_else(|e| mcx::machinery(&format!("cannot create {}: {e}", se.display())));
        let mut cmd = Command::new(&self.bin);
        cmd.args(argv).env_clear().env("PATH", "/usr/bin:/bin").env("HOME", work_dir()).env("XDG_CONFIG_HOME", &self.xdg).env("RUST_BACKTRACE", "0").env("RUST_LIB_BACKTRACE", "0");
        if let Some(s) = seed {
            let p = self.preload.as_ref().unwrap_or_else(|| mcx::machinery("seeded run without shim"));
            cmd.env("LD_PRELOAD", p).env("VERIF_HASH_SEED", s.to_string());
        }
        cmd.current_dir(slot).stdin(Stdio::null()).stdout(fo).stderr(fe);
        let t0 = Instant::now();
        let mut child = cmd.spawn().unwrap_or_else(|e| mcx::machinery(&format!("cannot start {}: {e}", self.bin.display())));
        let mut nap = Duration::from_micros(300);
        let mut timed_out = false;
        let status = loop {
            match child.try_wait() {
                Ok(Some(st)) => break st.code(),
                Ok(None) => {
                    if t0.elapsed() > self.timeout {
                        let _ = child.kill();
                        let _ = child.wait();
                        timed_out = true;
                        break None;
                    }
                    std::thread::sleep(nap);
                    if nap < Duration::from_millis(4) {
                        nap *= 2;
                    }
                }
                Err(e) => mcx::machinery(&format!("wait failed: {e}")),
            }
        };
        let wall_ms = t0.elapsed().as_millis() as u64;
        let stdout = std::fs::read(&so).unwrap_or_default();
        let stderr = String::from_utf8_lossy(&std::fs::read(&se).unwrap_or_default()).to_string();
        let _ = std::fs::remove_file(&so);
        let _ = std::fs::remove_file(&se);
        RunOut { status, timed_out, stdout, stderr, wall_ms }
    }

    /// `cwe_checker ELF --pcode-raw JSON --json --quiet <extra>`
    pub fn run(&self, slot: &Path, elf: &Path, pcode: &Path, extra: &[String], seed: Option<u64>) -> RunOut {
        let mut argv = vec![elf.display().to_string(), "--pcode-raw".to_string(), pcode.display().to_string(), "--json".to_string(), "--quiet".to_string()];
        argv.extend(extra.iter().cloned());
        self.run_raw(slot, &argv, seed)
    }
}

/// CPU time (user+system, ms) consumed so far by waited-for children of this process.
pub fn children_cpu_ms() -> u64 {
    // /proc/self/stat fields 16,17 = cutime, cstime in clock ticks (100/s)
    let Ok(s) = std::fs::read_to_string("/proc/self/stat") else { return 0 };
    let Some(i) = s.rfind(')') else { return 0 };
    let f: Vec<&str> = s[i + 2..].split(' ').collect();
    // after ")" the next field is field 3 (state) => cutime = index 13, cstime = index 14
    let g = |k: usize| f.get(k).and_then(|x| x.parse::<u64>().ok()).unwrap_or(0);
    (g(13) + g(14)) * 10
}

// ------------------------------------------------------------------ output parsing

#[derive(Clone, Debug, PartialEq, Eq, PartialOrd, Ord, Hash)]
pub struct Warning {
    pub name: String,
    pub version: String,
    pub addresses: Vec<String>,
    pub tids: Vec<String>,
    pub symbols: Vec<String>,
    pub other: Vec<Vec<String>>,
    pub description: String,
}

fn str_vec(v: &Value) -> Option<Vec<String>> {
    v.as_array()?.iter().map(|x| x.as_str().map(|s| s.to_string())).collect()
}

/// Parse one element of the output array; `Err(reason)` if it is not a warning object.
pub fn parse_warning(v: &Value) -> Result<Warning, String> {
    let o = v.as_object().ok_or("element is not an object")?;
    let fields = ["name", "version", "addresses", "tids", "symbols", "other", "description"];
    for k in o.keys() {
        if !fields.contains(&k.as_str()) {
            return Err(format!("unexpected field {k}"));
        }
    }
    let s = |k: &str| o.get(k).and_then(|x| x.as_str()).map(|x| x.to_string()).ok_or(format!("field {k} missing or not a string"));
    let l = |k: &str| o.get(k).and_then(str_vec).ok_or(format!("field {k} missing or not a list of strings"));
    let other = o.get("other").and_then(|x| x.as_array()).ok_or("field other missing")?.iter().map(str_vec).collect::<Option<Vec<_>>>().ok_or("field other is not a list of lists of strings")?;
    Ok(Warning { name: s("name")?, version: s("version")?, addresses: l("addresses")?, tids: l("tids")?, symbols: l("symbols")?, other, description: s("description")? })
}

/// Head of a message with everything input-specific (numbers, addresses, names with digits) blanked.
pub fn msg_head(m: &str) -> String {
    let words: Vec<String> = m.split_whitespace().take(7).map(|w| if w.chars().any(|c| c.is_ascii_digit()) { "#".to_string() } else { w.to_string() }).collect();
    words.join(" ")
}

/// If `stderr` contains a Rust panic report: ("file:line", message head).
pub fn find_panic(stderr: &str) -> Option<(String, String)> {
    let lines: Vec<&str> = stderr.lines().collect();
    for (i, l) in lines.iter().enumerate() {
        if let Some(p) = l.find("panicked at ") {
            let rest = l[p + "panicked at ".len()..].trim_end_matches(':');
            // file:line:col
            let mut parts: Vec<&str> = rest.split(':').collect();
            if parts.len() >= 3 {
                parts.pop();
            }
            let loc = parts.join(":");
            let msg = lines.get(i + 1).copied().unwrap_or("");
            return Some((loc, msg_head(msg)));
        }
    }
    None
}

/// `VERIF-RUN <name>` lines of the hook, in order; all other stderr lines separately.
pub fn split_stderr(stderr: &str) -> (Vec<String>, Vec<String>) {
    let mut ran = Vec::new();
    let mut other = Vec::new();
    for l in stderr.lines() {
        match l.strip_prefix("VERIF-RUN ") {
            Some(n) => ran.push(n.to_string()),
            None => other.push(l.to_string()),
        }
    }
    (ran, other)
}

pub struct Judged {
    /// (violation key, detail)
    pub violations: Vec<(String, Value)>,
    pub warnings: Option<Vec<Warning>>,
    pub ran: Vec<String>,
}

/// C21 oracle for one run that is expected to analyse the input: normal termination,
/// clean stderr, well-formed sorted output.
pub fn judge_wellformed(cli: &Cli, out: &RunOut) -> Judged {
    let mut v: Vec<(String, Value)> = Vec::new();
    let (ran, other_err) = split_stderr(&out.stderr);
    let err_head: String = out.stderr.lines().filter(|l| !l.starts_with("VERIF-RUN ")).take(6).collect::<Vec<_>>().join("\n");
    if out.timed_out {
        v.push(("cli timeout".into(), json!({"limit_s": cli.timeout.as_secs()})));
        return Judged { violations: v, warnings: None, ran };
    }
    if out.status != Some(0) {
        if let Some((loc, head)) = find_panic(&out.stderr) {
            v.push((format!("cli panic {loc} {head}"), json!({"exit": out.status, "stderr": err_head})));
        } else {
            let first = other_err.first().cloned().unwrap_or_default();
            v.push((format!("cli exit-status {} {}", out.status.map(|c| c.to_string()).unwrap_or("signal".into()), msg_head(&first)), json!({"exit": out.status, "stderr": err_head})));
        }
        return Judged { violations: v, warnings: None, ran };
    }
    if !other_err.is_empty() {
        match find_panic(&out.stderr) {
            Some((loc, head)) => v.push((format!("cli panic (exit 0) {loc} {head}"), json!({"stderr": err_head}))),
            None => v.push((format!("cli stderr not empty: {}", msg_head(&other_err[0])), json!({"stderr": err_head}))),
        }
    }
    let text = String::from_utf8_lossy(&out.stdout);
    let parsed: Result<Value, _> = serde_json::from_str(&text);
    let arr = match parsed {
        Ok(Value::Array(a)) => a,
        Ok(_) => {
            v.push(("output not a json array".into(), json!({"stdout_head": text.chars().take(300).collect::<String>()})));
            return Judged { violations: v, warnings: None, ran };
        }
        Err(e) => {
            v.push(("output not json".into(), json!({"error": e.to_string(), "stdout_head": text.chars().take(300).collect::<String>()})));
            return Judged { violations: v, warnings: None, ran };
        }
    };
    let mut ws = Vec::new();
    for (i, e) in arr.iter().enumerate() {
        match parse_warning(e) {
            Ok(w) => ws.push(w),
            Err(why) => {
                v.push(("output malformed warning".into(), json!({"index": i, "why": why, "element": e})));
                return Judged { violations: v, warnings: None, ran };
            }
        }
    }
    for w in &ws {
        if cli.owners(w).is_empty() {
            // which checks report under this identifier at all?
            let candidates: Vec<String> = cli.versions.iter().filter(|(m, _)| reports_as(m).contains(&w.name.as_str())).map(|(m, v)| format!("{m} {v}")).collect();
            if candidates.is_empty() {
                v.push((format!("warning names unknown check {}", msg_head(&w.name)), json!({"warning": w.description, "name": w.name})));
            } else {
                v.push((format!("warning version mismatch: {} reported with version {} (reporting checks: {})", w.name, w.version, candidates.join(", ")), json!({"warning": w.description})));
            }
        }
        let needs_addr = !CHECKS_WITHOUT_ADDRESS.contains(&w.name.as_str());
        if needs_addr && (w.addresses.is_empty() || w.addresses.iter().any(|a| a.is_empty())) {
            v.push((format!("warning without address {}", w.name), json!({"warning": w.description})));
        }
    }
    // canonical order = derived Ord of CweWarning (lexicographic over the fields in declaration order)
    for i in 1..ws.len() {
        if ws[i - 1] > ws[i] {
            v.push(("output not sorted".into(), json!({"index": i, "before": format!("{} {:?} {}", ws[i - 1].name, ws[i - 1].addresses, ws[i - 1].description), "after": format!("{} {:?} {}", ws[i].name, ws[i].addresses, ws[i].description)})));
            break;
        }
    }
    Judged { violations: v, warnings: Some(ws), ran }
}

/// All check names joined for `--partial`.
pub fn all_names() -> String {
    KNOWN_CHECKS.join(",")
}
