//! The finite space of raw P-Code blocks used by C11 and C12.
//! A *case* is one block: a list of defs and a list of jumps (over the register
//! table of `props::pcode`), enumerated layer by layer.

use props::ccl::pcode as pc;
use props::pcode::*;
use serde::{Deserialize, Serialize};

#[derive(Serialize, Deserialize, Clone, Debug)]
pub struct BlockCase {
    pub label: String,
    pub defs: Vec<pc::Def>,
    pub jmps: Vec<pc::Jmp>,
}

pub fn regs_of_size(s: u64) -> Vec<pc::Variable> {
    match s {
        8 => vec![v_reg("RAX", 8), v_reg("RBX", 8)],
        4 => vec![v_reg("EAX", 4), v_reg("EBX", 4), v_reg("RAX_HI", 4), v_reg("RAX", 4)],
        2 => vec![v_reg("AX", 2), v_reg("BX", 2), v_reg("AX_MID", 2)],
        1 => vec![v_reg("AL", 1), v_reg("AH", 1), v_reg("BL", 1), v_reg("BH", 1), v_reg("ZF", 1), v_reg("CF", 1)],
        _ => vec![],
    }
}
pub fn outs(s: u64) -> Vec<pc::Variable> {
    let mut v = regs_of_size(s);
    v.push(v_tmp(&format!("$U{s}"), s));
    v.push(v_ram(0x2000, s));
    v
}
pub fn ins(s: u64) -> Vec<pc::Variable> {
    let mut v = outs(s);
    v.push(v_ram(0x2010, s)); // a second RAM operand, so that two RAM inputs of one instruction differ
    v.push(v_const(1, s));
    v.push(v_const(mcx::refsem::ops::mask(s as u32) - 1, s));
    v
}
/// reduced input set (for the expensive op classes)
pub fn ins_small(s: u64) -> Vec<pc::Variable> {
    let mut v = regs_of_size(s);
    v.truncate(3);
    v.push(v_tmp(&format!("$U{s}"), s));
    v.push(v_const(3, s));
    v
}

fn def(lhs: Option<pc::Variable>, m: pc::ExpressionType, i0: Option<pc::Variable>, i1: Option<pc::Variable>, i2: Option<pc::Variable>) -> pc::Def {
    pc::Def { lhs, rhs: pc::Expression { mnemonic: m, input0: i0, input1: i1, input2: i2 } }
}

const SIZES: [u64; 4] = [1, 2, 4, 8];

/// Layer 1: every single instruction.
pub fn single_instructions() -> Vec<pc::Def> {
    use pc::ExpressionType::*;
    let mut out = Vec::new();
    let same_size_full = [INT_ADD, INT_SUB, INT_XOR, INT_AND, INT_OR];
    let same_size_reduced = [INT_MULT, INT_DIV, INT_REM, INT_SDIV, INT_SREM, FLOAT_ADD, FLOAT_SUB, FLOAT_MULT, FLOAT_DIV];
    let shifts = [INT_LEFT, INT_RIGHT, INT_SRIGHT];
    let cmps = [INT_EQUAL, INT_NOTEQUAL, INT_LESS, INT_SLESS, INT_LESSEQUAL, INT_SLESSEQUAL, INT_CARRY, INT_SCARRY, INT_SBORROW];
    let fcmps = [FLOAT_EQUAL, FLOAT_NOTEQUAL, FLOAT_LESS, FLOAT_LESSEQUAL];
    let bools = [BOOL_XOR, BOOL_AND, BOOL_OR];
    let unary_same = [COPY, INT_NEGATE, INT_2COMP];
    let funary = [FLOAT_NEG, FLOAT_ABS, FLOAT_SQRT, FLOAT_CEIL, FLOAT_FLOOR, FLOAT_ROUND];
    for s in SIZES {
        for o in outs(s) {
            for a in ins(s) {
                for b in ins(s) {
                    for m in same_size_full {
                        out.push(def(Some(o.clone()), m, Some(a.clone()), Some(b.clone()), None));
                    }
                }
                for m in unary_same {
                    out.push(def(Some(o.clone()), m, Some(a.clone()), None, None));
                }
            }
        }
        for o in outs(s) {
            for a in ins_small(s) {
                for b in ins_small(s) {
                    for m in same_size_reduced {
                        out.push(def(Some(o.clone()), m, Some(a.clone()), Some(b.clone()), None));
                    }
                }
                for m in funary {
                    out.push(def(Some(o.clone()), m, Some(a.clone()), None, None));
                }
                // shifts: amount of size 1 and of the operand's size
                for sb in [1u64, s] {
                    for b in [v_const(1, sb), v_const((s * 8) as u128, sb), v_reg("BL", 1)] {
                        if u64::from(b.size) != sb {
                            continue;
                        }
                        for m in shifts {
                            out.push(def(Some(o.clone()), m, Some(a.clone()), Some(b.clone()), None));
                        }
                    }
                }
            }
        }
        // comparisons: 1-byte output
        for o in outs(1) {
            for a in ins_small(s) {
                for b in ins_small(s) {
                    for m in cmps {
                        out.push(def(Some(o.clone()), m, Some(a.clone()), Some(b.clone()), None));
                    }
                    for m in fcmps {
                        out.push(def(Some(o.clone()), m, Some(a.clone()), Some(b.clone()), None));
                    }
                }
            }
            for a in ins_small(s) {
                out.push(def(Some(o.clone()), FLOAT_NAN, Some(a.clone()), None, None));
            }
        }
        // extensions and count casts: every (si -> so)
        for so in SIZES {
            for o in outs(so) {
                for a in ins_small(s) {
                    if so > s {
                        out.push(def(Some(o.clone()), INT_ZEXT, Some(a.clone()), None, None));
                        out.push(def(Some(o.clone()), INT_SEXT, Some(a.clone()), None, None));
                    }
                    out.push(def(Some(o.clone()), POPCOUNT, Some(a.clone()), None, None));
                    out.push(def(Some(o.clone()), LZCOUNT, Some(a.clone()), None, None));
                    if so >= 4 && s >= 4 {
                        out.push(def(Some(o.clone()), INT2FLOAT, Some(a.clone()), None, None));
                        out.push(def(Some(o.clone()), FLOAT2FLOAT, Some(a.clone()), None, None));
                        out.push(def(Some(o.clone()), TRUNC, Some(a.clone()), None, None));
                    }
                    // SUBPIECE
                    if so < s {
                        for low in 0..=(s - so) {
                            out.push(def(Some(o.clone()), SUBPIECE, Some(a.clone()), Some(v_const(low as u128, 4)), None));
                        }
                    }
                }
            }
        }
        // PIECE
        for s2 in SIZES {
            if s + s2 > 8 || !SIZES.contains(&(s + s2)) {
                continue;
            }
            for o in outs(s + s2) {
                for a in ins_small(s) {
                    for b in ins_small(s2) {
                        out.push(def(Some(o.clone()), PIECE, Some(a.clone()), Some(b.clone()), None));
                    }
                }
            }
        }
        // LOAD / STORE with every pointer form
        let pointers = [v_reg("RBX", 8), v_reg("RAX", 8), v_tmp("$U8", 8), v_ram(0x2008, 8), v_const(0x3000, 8)];
        for p in pointers {
            for o in outs(s) {
                out.push(def(Some(o.clone()), LOAD, Some(v_const(0x1b1, 8)), Some(p.clone()), None));
            }
            for val in ins(s) {
                out.push(def(None, STORE, Some(v_const(0x1b1, 8)), Some(p.clone()), Some(val.clone())));
            }
        }
    }
    // booleans
    for o in outs(1) {
        for a in [v_reg("ZF", 1), v_reg("CF", 1), v_tmp("$Ub", 1), v_const(0, 1), v_const(1, 1)] {
            for b in [v_reg("ZF", 1), v_reg("CF", 1), v_const(1, 1)] {
                for m in bools {
                    out.push(def(Some(o.clone()), m, Some(a.clone()), Some(b.clone()), None));
                }
            }
            out.push(def(Some(o.clone()), BOOL_NEGATE, Some(a.clone()), None, None));
        }
    }
    out
}

/// Sub-register (and same-name smaller) varnodes that are written by a "first" instruction of layer 2.
fn subregs() -> Vec<pc::Variable> {
    vec![
        v_reg("EAX", 4),
        v_reg("AX", 2),
        v_reg("AL", 1),
        v_reg("AH", 1),
        v_reg("RAX_HI", 4),
        v_reg("AX_MID", 2),
        v_reg("RAX", 4),
        v_reg("RAX", 2),
        v_reg("EBX", 4),
        v_reg("BL", 1),
    ]
}

/// Layer 2: (write to a sub-register | load into one) ; (any cast / copy reading a sub-register).
pub fn pairs() -> Vec<(pc::Def, pc::Def)> {
    use pc::ExpressionType::*;
    let mut firsts: Vec<pc::Def> = Vec::new();
    for sr in subregs() {
        let s = u64::from(sr.size);
        firsts.push(def(Some(sr.clone()), COPY, Some(v_const(0x81, s)), None, None));
        firsts.push(def(Some(sr.clone()), INT_ADD, Some(sr.clone()), Some(v_const(1, s)), None));
        firsts.push(def(Some(sr.clone()), LOAD, Some(v_const(0x1b1, 8)), Some(v_reg("RBX", 8)), None));
        firsts.push(def(Some(sr.clone()), INT_NEGATE, Some(regs_of_size(s)[1].clone()), None, None));
        if s > 1 {
            firsts.push(def(Some(sr.clone()), INT_ZEXT, Some(v_reg("BH", 1)), None, None));
        }
    }
    let mut targets: Vec<pc::Variable> = vec![v_reg("RAX", 8), v_reg("EAX", 4), v_reg("RAX", 4), v_reg("AX", 2), v_reg("RBX", 8), v_reg("EBX", 4), v_reg("RAX_HI", 4), v_tmp("$U8", 8), v_tmp("$U4", 4), v_ram(0x2000, 8)];
    targets.push(v_reg("RCX", 8));
    let mut seconds: Vec<pc::Def> = Vec::new();
    for t in &targets {
        let st = u64::from(t.size);
        for src in subregs() {
            let ss = u64::from(src.size);
            if st > ss {
                seconds.push(def(Some(t.clone()), INT_ZEXT, Some(src.clone()), None, None));
                seconds.push(def(Some(t.clone()), INT_SEXT, Some(src.clone()), None, None));
            }
            seconds.push(def(Some(t.clone()), POPCOUNT, Some(src.clone()), None, None));
            if st == ss {
                seconds.push(def(Some(t.clone()), COPY, Some(src.clone()), None, None));
                seconds.push(def(Some(t.clone()), INT_2COMP, Some(src.clone()), None, None));
            }
            if st >= 4 && ss >= 4 {
                seconds.push(def(Some(t.clone()), INT2FLOAT, Some(src.clone()), None, None));
            }
        }
    }
    let mut out = Vec::new();
    for f in &firsts {
        for s in &seconds {
            out.push((f.clone(), s.clone()));
        }
    }
    out
}

/// Reduced alphabet for layer 3 triples.
pub fn triple_alphabet() -> Vec<pc::Def> {
    use pc::ExpressionType::*;
    vec![
        def(Some(v_reg("AX", 2)), COPY, Some(v_reg("BX", 2)), None, None),
        def(Some(v_reg("EAX", 4)), INT_ADD, Some(v_reg("EAX", 4)), Some(v_reg("EBX", 4)), None),
        def(Some(v_reg("RAX", 8)), INT_ZEXT, Some(v_reg("EAX", 4)), None, None),
        def(Some(v_reg("RAX", 8)), INT_SEXT, Some(v_reg("AX", 2)), None, None),
        def(Some(v_reg("RAX", 4)), INT_ZEXT, Some(v_reg("AX", 2)), None, None),
        def(Some(v_reg("AH", 1)), COPY, Some(v_reg("BL", 1)), None, None),
        def(Some(v_reg("AL", 1)), LOAD, Some(v_const(0x1b1, 8)), Some(v_reg("RBX", 8)), None),
        def(Some(v_reg("EAX", 4)), LOAD, Some(v_const(0x1b1, 8)), Some(v_reg("RAX", 8)), None),
        def(Some(v_reg("RBX", 8)), INT_ZEXT, Some(v_reg("EAX", 4)), None, None),
        def(Some(v_tmp("$U4", 4)), COPY, Some(v_reg("EAX", 4)), None, None),
        def(Some(v_reg("EAX", 4)), COPY, Some(v_tmp("$U4", 4)), None, None),
        def(None, STORE, Some(v_const(0x1b1, 8)), Some(v_reg("RBX", 8)), Some(v_reg("AX", 2))),
        def(Some(v_reg("RAX_HI", 4)), COPY, Some(v_reg("EBX", 4)), None, None),
        def(Some(v_reg("ZF", 1)), INT_EQUAL, Some(v_reg("AX", 2)), Some(v_const(0, 2)), None),
        def(Some(v_ram(0x2000, 4)), COPY, Some(v_reg("EAX", 4)), None, None),
        def(Some(v_reg("EAX", 4)), COPY, Some(v_ram(0x2000, 4)), None, None),
    ]
}

/// Additional letters used by the thorough tier only.
pub fn triple_alphabet_extra() -> Vec<pc::Def> {
    use pc::ExpressionType::*;
    vec![
        def(Some(v_reg("AX_MID", 2)), COPY, Some(v_reg("BX", 2)), None, None),
        def(Some(v_reg("RAX", 8)), PIECE, Some(v_reg("EBX", 4)), Some(v_reg("EAX", 4)), None),
        def(Some(v_reg("AL", 1)), SUBPIECE, Some(v_reg("EBX", 4)), Some(v_const(1, 4)), None),
        def(Some(v_reg("EBX", 4)), INT_SEXT, Some(v_reg("AH", 1)), None, None),
        def(Some(v_reg("RAX", 2)), COPY, Some(v_reg("BX", 2)), None, None),
        def(Some(v_reg("RAX", 8)), INT_ZEXT, Some(v_reg("RAX", 4)), None, None),
        def(Some(v_reg("CF", 1)), INT_CARRY, Some(v_reg("AL", 1)), Some(v_reg("AH", 1)), None),
        def(Some(v_reg("AH", 1)), LOAD, Some(v_const(0x1b1, 8)), Some(v_reg("RBX", 8)), None),
        def(Some(v_reg("RAX_HI", 4)), LOAD, Some(v_const(0x1b1, 8)), Some(v_ram(0x2008, 8)), None),
        def(Some(v_tmp("$U2", 2)), INT_ADD, Some(v_reg("AX", 2)), Some(v_reg("AX_MID", 2)), None),
        def(Some(v_reg("AX", 2)), COPY, Some(v_tmp("$U2", 2)), None, None),
        def(Some(v_reg("RBX", 8)), INT_SEXT, Some(v_reg("RAX_HI", 4)), None, None),
    ]
}

/// RAM-focused alphabet: every triple is enumerated in both tiers (read / write / re-read of the same
/// constant address inside one block, through ordinary ops with RAM inputs and outputs).
pub fn ram_alphabet() -> Vec<pc::Def> {
    use pc::ExpressionType::*;
    let r = || v_ram(0x2000, 4);
    vec![
        def(Some(v_reg("EAX", 4)), COPY, Some(r()), None, None),
        def(Some(r()), COPY, Some(v_reg("EAX", 4)), None, None),
        def(Some(r()), INT_ADD, Some(r()), Some(v_const(1, 4)), None),
        def(Some(v_reg("ZF", 1)), INT_EQUAL, Some(r()), Some(v_const(0, 4)), None),
        def(Some(v_reg("EBX", 4)), INT_SUB, Some(v_const(0, 4)), Some(r()), None),
        def(Some(r()), COPY, Some(v_reg("EBX", 4)), None, None),
        def(Some(v_reg("EAX", 4)), INT_ADD, Some(v_reg("EAX", 4)), Some(v_reg("EBX", 4)), None),
        def(Some(v_ram(0x2010, 4)), INT_XOR, Some(r()), Some(v_ram(0x2010, 4)), None),
        def(None, STORE, Some(v_const(0x1b1, 8)), Some(v_const(0x2000, 8)), Some(v_reg("EBX", 4))),
    ]
}

fn jmp(m: pc::JmpType, goto: Option<pc::Label>, call: Option<pc::Call>, cond: Option<pc::Variable>) -> pc::Jmp {
    pc::Jmp { mnemonic: m, goto, call, condition: cond, target_hints: None }
}
fn direct(addr: &str) -> pc::Label {
    pc::Label::Direct(blk_tid(addr))
}

/// Jump layer: every jump kind with sub-register / flag / temporary / RAM operands,
/// each preceded by no def or by one def that defines the operand in the same block.
pub fn jump_cases(include_ram_cond_and_return: bool) -> Vec<BlockCase> {
    use pc::ExpressionType::*;
    use pc::JmpType::*;
    let mut out = Vec::new();
    let pre: Vec<Option<pc::Def>> = vec![
        None,
        Some(def(Some(v_reg("AH", 1)), COPY, Some(v_const(1, 1)), None, None)),
        Some(def(Some(v_tmp("$U8", 8)), INT_ADD, Some(v_reg("RBX", 8)), Some(v_const(8, 8)), None)),
        Some(def(Some(v_reg("EAX", 4)), COPY, Some(v_reg("EBX", 4)), None, None)),
        Some(def(Some(v_tmp("$U1", 1)), INT_LESS, Some(v_reg("AX", 2)), Some(v_reg("BX", 2)), None)),
    ];
    let mut conds = vec![v_reg("ZF", 1), v_reg("CF", 1), v_reg("AH", 1), v_reg("AL", 1), v_tmp("$U1", 1)];
    let mut targets = vec![v_reg("RAX", 8), v_reg("RBX", 8), v_tmp("$U8", 8), v_reg("EAX", 4), v_ram(0x2008, 8)];
    let mut ret_targets = vec![v_reg("RAX", 8), v_tmp("$U8", 8), v_reg("EAX", 4)];
    if include_ram_cond_and_return {
        conds.push(v_ram(0x2000, 1));
        ret_targets.push(v_ram(0x2008, 8));
    }
    let _ = &mut targets;
    for p in &pre {
        let defs: Vec<pc::Def> = p.iter().cloned().collect();
        let pl = p.as_ref().map(|d| format!("{:?}", d.rhs.mnemonic)).unwrap_or_else(|| "-".into());
        out.push(BlockCase { label: format!("jump BRANCH pre={pl}"), defs: defs.clone(), jmps: vec![jmp(BRANCH, Some(direct("00002000")), None, None)] });
        for c in &conds {
            out.push(BlockCase {
                label: format!("jump CBRANCH cond={c:?} pre={pl}"),
                defs: defs.clone(),
                jmps: vec![jmp(CBRANCH, Some(direct("00002000")), None, Some(c.clone())), jmp(BRANCH, Some(direct("00003000")), None, None)],
            });
        }
        for t in &targets {
            out.push(BlockCase { label: format!("jump BRANCHIND pre={pl}"), defs: defs.clone(), jmps: vec![jmp(BRANCHIND, Some(pc::Label::Indirect(t.clone())), None, None)] });
            for ret in [Some(direct("00002000")), None] {
                out.push(BlockCase {
                    label: format!("jump CALLIND pre={pl}"),
                    defs: defs.clone(),
                    jmps: vec![jmp(CALLIND, None, Some(pc::Call { target: Some(pc::Label::Indirect(t.clone())), return_: ret, call_string: None }), None)],
                });
            }
        }
        for t in &ret_targets {
            out.push(BlockCase { label: format!("jump RETURN pre={pl}"), defs: defs.clone(), jmps: vec![jmp(RETURN, Some(pc::Label::Indirect(t.clone())), None, None)] });
        }
        for ret in [Some(direct("00002000")), None] {
            out.push(BlockCase {
                label: format!("jump CALL pre={pl}"),
                defs: defs.clone(),
                jmps: vec![jmp(CALL, None, Some(pc::Call { target: Some(pc::Label::Direct(props::irb::tid_at("FUN_00005000", "00005000"))), return_: ret.clone(), call_string: None }), None)],
            });
            out.push(BlockCase {
                label: format!("jump CALLOTHER pre={pl}"),
                defs: defs.clone(),
                jmps: vec![jmp(CALLOTHER, None, Some(pc::Call { target: None, return_: ret, call_string: Some("syscall".into()) }), None)],
            });
        }
        out.push(BlockCase { label: format!("jump none pre={pl}"), defs: defs.clone(), jmps: vec![] });
    }
    out
}

/// All block cases of the given tier, in a fixed order.
pub fn all_cases(thorough: bool) -> Vec<BlockCase> {
    let mut cases = Vec::new();
    for (i, d) in single_instructions().into_iter().enumerate() {
        cases.push(BlockCase { label: format!("single #{i} {:?}", d.rhs.mnemonic), defs: vec![d], jmps: vec![] });
    }
    for (i, (a, b)) in pairs().into_iter().enumerate() {
        cases.push(BlockCase { label: format!("pair #{i} {:?};{:?}", a.rhs.mnemonic, b.rhs.mnemonic), defs: vec![a, b], jmps: vec![] });
    }
    cases.extend(jump_cases(true));
    let mut alpha = triple_alphabet();
    let quick_k = alpha.len();
    if thorough {
        alpha.extend(triple_alphabet_extra());
    }
    let k = alpha.len();
    let n = if thorough { k * k * k } else { 0 };
    for i in 0..n {
        let (a, b, c) = (i / (k * k), (i / k) % k, i % k);
        cases.push(BlockCase { label: format!("triple {a},{b},{c}"), defs: vec![alpha[a].clone(), alpha[b].clone(), alpha[c].clone()], jmps: vec![] });
    }
    {
        let ram = ram_alphabet();
        let q = ram.len();
        for i in 0..q * q * q {
            let idx = [i / (q * q), (i / q) % q, i % q];
            cases.push(BlockCase { label: format!("ram-triple {idx:?}"), defs: idx.iter().map(|x| ram[*x].clone()).collect(), jmps: vec![] });
        }
    }
    if thorough {
        // sequences of four over the full alphabet
        let q = k; // the full (extended) alphabet
        for i in 0..q * q * q * q {
            let idx = [i / (q * q * q), (i / (q * q)) % q, (i / q) % q, i % q];
            cases.push(BlockCase { label: format!("quad {idx:?}"), defs: idx.iter().map(|x| alpha[*x].clone()).collect(), jmps: vec![] });
        }
        // sequences of five over the 16-letter base alphabet
        let core: Vec<pc::Def> = (0..quick_k).map(|i| alpha[i].clone()).collect();
        let c = core.len();
        for i in 0..c.pow(5) {
            let idx = [i / c.pow(4), (i / c.pow(3)) % c, (i / c.pow(2)) % c, (i / c) % c, i % c];
            cases.push(BlockCase { label: format!("quint {idx:?}"), defs: idx.iter().map(|x| core[*x].clone()).collect(), jmps: vec![] });
        }
        // every single instruction followed by every jump case that has no def of its own
        let singles = single_instructions();
        let jumps: Vec<BlockCase> = jump_cases(true).into_iter().filter(|j| j.defs.is_empty() && !j.jmps.is_empty()).collect();
        for (i, d) in singles.iter().enumerate().step_by(7) {
            for (k, j) in jumps.iter().enumerate() {
                cases.push(BlockCase { label: format!("single+jump #{i},{k}"), defs: vec![d.clone()], jmps: j.jmps.clone() });
            }
        }
    }
    if !thorough {
        // quick: pairs from the triple alphabet
        for i in 0..k * k {
            cases.push(BlockCase { label: format!("alpha-pair {},{}", i / k, i % k), defs: vec![alpha[i / k].clone(), alpha[i % k].clone()], jmps: vec![] });
        }
    }
    cases
}

/// Build one pcode project containing the given block cases as blocks of one function
/// (block `i` at address `0x10000 + 0x10*i`), plus the jump-target blocks and a callee.
pub fn project_for(cases: &[BlockCase]) -> (pc::Project, Vec<String>) {
    let mut blocks = Vec::new();
    let mut addrs = Vec::new();
    for (i, c) in cases.iter().enumerate() {
        let addr = format!("{:08x}", 0x10000 + 0x10 * i as u64);
        let defs = c.defs.iter().enumerate().map(|(k, d)| props::ccl::intermediate_representation::Term { tid: props::irb::tid_at(&format!("instr_{addr}_{k}"), &addr), term: d.clone() }).collect();
        let jmps = c.jmps.iter().enumerate().map(|(k, j)| props::ccl::intermediate_representation::Term { tid: props::irb::tid_at(&format!("instr_{addr}_{}", k + 100), &addr), term: j.clone() }).collect();
        blocks.push(p_blk(&addr, defs, jmps));
        addrs.push(addr);
    }
    let ret = |t: &str, a: &str| p_jmp(t, a, pc::JmpType::RETURN, Some(pc::Label::Indirect(v_reg("RAX", 8))), None, None, None);
    blocks.push(p_blk("00002000", vec![], vec![ret("instr_00002000_0", "00002000")]));
    blocks.push(p_blk("00003000", vec![], vec![ret("instr_00003000_0", "00003000")]));
    let mut f = p_sub("00010000", "f", blocks);
    f.tid = props::irb::tid_at("FUN_00010000", "00010000");
    let callee = p_sub("00005000", "g", vec![p_blk("00005000", vec![], vec![ret("instr_00005000_0", "00005000")])]);
    (p_project(vec![f, callee], vec![]), addrs)
}
