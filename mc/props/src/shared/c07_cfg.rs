//! C07 helper: a finite generator of tiny, well-formed IR programs (only the
//! control-flow skeleton matters) used to obtain *real* interprocedural CFGs.
#![allow(dead_code)]

use props::ccl::intermediate_representation::*;
use serde::{Deserialize, Serialize};
use std::collections::{BTreeMap, BTreeSet};

/// How a block ends. Block indices are local to the containing function.
#[derive(Serialize, Deserialize, Clone, Debug, PartialEq, Eq, Hash)]
pub enum TermSpec {
    NoJump,
    Branch(usize),
    /// `CBranch t; Branch e`
    CBranch(usize, usize),
    /// `BranchInd` with target hints
    BranchInd(Vec<usize>),
    /// call of function `f` (may be the containing one), optional return block
    CallSub { f: usize, ret: Option<usize> },
    /// call of the extern symbol
    CallExt { ret: Option<usize> },
    CallInd { ret: Option<usize> },
    CallOther,
    Return,
    /// `CBranch t; Return`
    CBranchReturn(usize),
    /// `Branch` to a block of *another* function (block shared between functions)
    BranchForeign { sub: usize, blk: usize },
}

#[derive(Serialize, Deserialize, Clone, Debug, PartialEq, Eq, Hash)]
pub struct ProgSpec {
    /// `subs[i][j]` = terminator of block j of function i
    pub subs: Vec<Vec<TermSpec>>,
}

/// The terminator alphabet for a block of function `f` in a program whose functions have `sizes` blocks.
pub fn terminators(sizes: &[usize], f: usize) -> Vec<TermSpec> {
    let k = sizes[f];
    let mut v = vec![TermSpec::NoJump];
    for t in 0..k {
        v.push(TermSpec::Branch(t));
    }
    for t in 0..k {
        for e in 0..k {
            v.push(TermSpec::CBranch(t, e));
        }
    }
    v.push(TermSpec::BranchInd(vec![]));
    for a in 0..k {
        v.push(TermSpec::BranchInd(vec![a]));
    }
    for a in 0..k {
        for b in (a + 1)..k {
            v.push(TermSpec::BranchInd(vec![a, b]));
        }
    }
    let rets: Vec<Option<usize>> = std::iter::once(None).chain((0..k).map(Some)).collect();
    for g in 0..sizes.len() {
        for r in &rets {
            v.push(TermSpec::CallSub { f: g, ret: *r });
        }
    }
    for r in &rets {
        v.push(TermSpec::CallExt { ret: *r });
    }
    for r in &rets {
        v.push(TermSpec::CallInd { ret: *r });
    }
    v.push(TermSpec::CallOther);
    v.push(TermSpec::Return);
    for t in 0..k {
        v.push(TermSpec::CBranchReturn(t));
    }
    for (g, kg) in sizes.iter().enumerate() {
        if g != f {
            for b in 0..*kg {
                v.push(TermSpec::BranchForeign { sub: g, blk: b });
            }
        }
    }
    v
}

pub fn sub_tid(i: usize) -> Tid {
    Tid::new(format!("FUN_{i}"))
}
pub fn blk_tid(i: usize, j: usize) -> Tid {
    Tid::new(format!("blk_{i}_{j}"))
}
fn jmp(i: usize, j: usize, k: usize, term: Jmp) -> Term<Jmp> {
    Term { tid: Tid::new(format!("instr_{i}_{j}_{k}")), term }
}
fn var() -> Expression {
    Expression::Var(Variable { name: "RAX".into(), size: ByteSize::new(8), is_temp: false })
}
fn cond() -> Expression {
    Expression::Var(Variable { name: "ZF".into(), size: ByteSize::new(1), is_temp: false })
}
pub fn ext_tid() -> Tid {
    Tid::new("EXT_0")
}

pub fn build_program(spec: &ProgSpec) -> Term<Program> {
    let mut subs = BTreeMap::new();
    for (i, blocks) in spec.subs.iter().enumerate() {
        let mut blks = Vec::new();
        for (j, t) in blocks.iter().enumerate() {
            let mut hints = Vec::new();
            let jmps = match t {
                TermSpec::NoJump => vec![],
                TermSpec::Branch(t) => vec![jmp(i, j, 0, Jmp::Branch(blk_tid(i, *t)))],
                TermSpec::CBranch(t, e) => vec![
                    jmp(i, j, 0, Jmp::CBranch { target: blk_tid(i, *t), condition: cond() }),
                    jmp(i, j, 1, Jmp::Branch(blk_tid(i, *e))),
                ],
                TermSpec::BranchInd(h) => {
                    hints = h.iter().map(|b| blk_tid(i, *b)).collect();
                    vec![jmp(i, j, 0, Jmp::BranchInd(var()))]
                }
                TermSpec::CallSub { f, ret } => {
                    vec![jmp(i, j, 0, Jmp::Call { target: sub_tid(*f), return_: ret.map(|r| blk_tid(i, r)) })]
                }
                TermSpec::CallExt { ret } => {
                    vec![jmp(i, j, 0, Jmp::Call { target: ext_tid(), return_: ret.map(|r| blk_tid(i, r)) })]
                }
                TermSpec::CallInd { ret } => {
                    vec![jmp(i, j, 0, Jmp::CallInd { target: var(), return_: ret.map(|r| blk_tid(i, r)) })]
                }
                TermSpec::CallOther => vec![jmp(i, j, 0, Jmp::CallOther { description: "other".into(), return_: None })],
                TermSpec::Return => vec![jmp(i, j, 0, Jmp::Return(var()))],
                TermSpec::CBranchReturn(t) => vec![
                    jmp(i, j, 0, Jmp::CBranch { target: blk_tid(i, *t), condition: cond() }),
                    jmp(i, j, 1, Jmp::Return(var())),
                ],
                TermSpec::BranchForeign { sub, blk } => vec![jmp(i, j, 0, Jmp::Branch(blk_tid(*sub, *blk)))],
            };
            blks.push(Term { tid: blk_tid(i, j), term: Blk { defs: vec![], jmps, indirect_jmp_targets: hints } });
        }
        subs.insert(sub_tid(i), Term { tid: sub_tid(i), term: Sub { name: format!("f{i}"), blocks: blks, calling_convention: None } });
    }
    let mut extern_symbols = BTreeMap::new();
    extern_symbols.insert(
        ext_tid(),
        ExternSymbol {
            tid: ext_tid(),
            addresses: vec![],
            name: "ext".into(),
            calling_convention: None,
            parameters: vec![],
            return_values: vec![],
            no_return: false,
            has_var_args: false,
        },
    );
    Term {
        tid: Tid::new("prog"),
        term: Program { subs, extern_symbols, entry_points: BTreeSet::from([sub_tid(0)]), address_base_offset: 0 },
    }
}
