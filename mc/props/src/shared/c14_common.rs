//! Helpers shared by the C14 and C15 checks: program-building pieces (x86 call /
//! return sequences, address assignment) and an own expression traversal, so that the
//! oracles do not lean on helper methods of the code under test.
#![allow(dead_code)]
use props::ccl::intermediate_representation::*;
use props::irb::*;
use std::collections::BTreeMap;

/// All variables occurring in an expression (own traversal, duplicates kept).
pub fn vars_of<'a>(e: &'a Expression, out: &mut Vec<&'a Variable>) {
    match e {
        Expression::Var(v) => out.push(v),
        Expression::Const(_) | Expression::Unknown { .. } => (),
        Expression::BinOp { lhs, rhs, .. } => {
            vars_of(lhs, out);
            vars_of(rhs, out);
        }
        Expression::UnOp { arg, .. } | Expression::Cast { arg, .. } | Expression::Subpiece { arg, .. } => vars_of(arg, out),
    }
}
pub fn var_names(e: &Expression) -> Vec<String> {
    let mut v = Vec::new();
    vars_of(e, &mut v);
    let mut n: Vec<String> = v.into_iter().map(|x| x.name.clone()).collect();
    n.sort();
    n.dedup();
    n
}

pub fn tid_str(t: &Tid) -> String {
    format!("{t}")
}

pub fn r8(n: &str) -> Variable {
    var(n, 8)
}
pub fn e8(n: &str) -> Expression {
    reg(n, 8)
}
pub fn sp_off(off: i128) -> Expression {
    if off == 0 {
        e8("RSP")
    } else {
        add(e8("RSP"), csti(off, 8))
    }
}

/// What an x86 CALL does before control is transferred: push the return address.
pub fn push_retaddr(prefix: &str) -> Vec<Term<Def>> {
    vec![assign(&format!("{prefix}_p0"), r8("RSP"), sub_(e8("RSP"), cst(8, 8))), store(&format!("{prefix}_p1"), e8("RSP"), cst(0x40_1000, 8))]
}
/// What an x86 RET does: pop the return address and jump to it.
pub fn ret_seq(prefix: &str) -> (Vec<Term<Def>>, Term<Jmp>) {
    let t = tmp("$Uret", 8);
    (
        vec![load(&format!("{prefix}_r0"), t.clone(), e8("RSP")), assign(&format!("{prefix}_r1"), r8("RSP"), add(e8("RSP"), cst(8, 8)))],
        j_ret(&format!("{prefix}_ret"), ev(&t)),
    )
}

fn retarget(t: &mut Tid, map: &BTreeMap<String, String>) {
    if let Some(a) = map.get(&tid_str(t)) {
        t.address = a.clone();
    }
}

/// Give every term of the functions a distinct address (as the extractor does) and make
/// all references (jump / call / return targets, indirect jump hints) carry the same address.
pub fn with_addresses(mut subs: Vec<Term<Sub>>) -> Vec<Term<Sub>> {
    let mut map: BTreeMap<String, String> = BTreeMap::new();
    let mut next = 0x0040_0000u64;
    for s in subs.iter_mut() {
        next = (next + 0xfff) & !0xfff;
        let sub_addr = format!("{next:08x}");
        s.tid.address = sub_addr.clone();
        map.insert(tid_str(&s.tid), sub_addr);
        for b in s.term.blocks.iter_mut() {
            let a = format!("{next:08x}");
            b.tid.address = a.clone();
            map.insert(tid_str(&b.tid), a);
            for d in b.term.defs.iter_mut() {
                d.tid.address = format!("{next:08x}");
                next += 4;
            }
            for j in b.term.jmps.iter_mut() {
                j.tid.address = format!("{next:08x}");
                next += 4;
            }
            next += 4;
        }
    }
    for s in subs.iter_mut() {
        for b in s.term.blocks.iter_mut() {
            for h in b.term.indirect_jmp_targets.iter_mut() {
                retarget(h, &map);
            }
            for j in b.term.jmps.iter_mut() {
                match &mut j.term {
                    Jmp::Branch(t) => retarget(t, &map),
                    Jmp::CBranch { target, .. } => retarget(target, &map),
                    Jmp::Call { target, return_ } => {
                        retarget(target, &map);
                        if let Some(r) = return_ {
                            retarget(r, &map);
                        }
                    }
                    Jmp::CallInd { return_, .. } | Jmp::CallOther { return_, .. } => {
                        if let Some(r) = return_ {
                            retarget(r, &map);
                        }
                    }
                    Jmp::BranchInd(_) | Jmp::Return(_) => (),
                }
            }
        }
    }
    subs
}

/// Register names of a variable list.
pub fn names(vs: &[Variable]) -> Vec<String> {
    vs.iter().map(|v| v.name.clone()).collect()
}
