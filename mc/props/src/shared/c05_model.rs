//! C05 model: the REAL `MemRegion<T>` paired with a reference cell store
//! `BTreeMap<offset, (size, tag)>`, explored as a stateright `Model` and through `mcx::bfs`.
//!
//! The reference side is a transcription of the property statement and of the method
//! documentation of `mem_region.rs`; it never calls `MemRegion` code. Values are abstract
//! *tags*; each instantiation `T` maps tags to real values and states, independently of the
//! implementation, what merging two tags / a tag with Top gives.

use mcx::catch;
use props::bv;
use props::ccl::abstract_domain::*;
use props::ccl::analysis::taint::Taint;
use props::ccl::intermediate_representation::*;
use serde::{Deserialize, Serialize};
use stateright::{Model, Property};
use std::collections::BTreeMap;
use std::fmt::Debug;
use std::hash::Hash;
use std::marker::PhantomData;

pub const ADDR_BYTES: u64 = 8;

/// Reference cell store: offset -> (size in bytes, value tag). Never contains the Top tag.
pub type RefStore = BTreeMap<i64, (u8, u8)>;

/// One instantiation of the value domain.
pub trait Dom: AbstractDomain + SizedDomain + HasTop + Debug + Clone + Eq + Hash + Send + Sync + 'static {
    const NAME: &'static str;
    /// The tag standing for the unknown value (never stored).
    const TOP: u8;
    /// Tags a write action may carry (besides Top).
    fn write_tags() -> &'static [u8];
    /// The real value for a tag at a size.
    fn to_real(tag: u8, size: u8) -> Self;
    /// Read a real value back as (size, tag); `None` if it is none of the model's values.
    fn from_real(v: &Self) -> Option<(u8, u8)>;
    /// Reference: merge of two non-Top values (result may be `TOP`).
    fn ref_merge(a: u8, b: u8) -> u8;
    /// Reference: merge of a non-Top value with Top (result may be `TOP`).
    fn ref_merge_top(a: u8) -> u8;
}

// ---- BitvectorDomain: Top is maximal. Tags 1, 2 = two different constants.
impl Dom for BitvectorDomain {
    const NAME: &'static str = "BitvectorDomain";
    const TOP: u8 = 0;
    fn write_tags() -> &'static [u8] {
        &[1, 2]
    }
    fn to_real(tag: u8, size: u8) -> Self {
        match tag {
            0 => BitvectorDomain::Top(ByteSize::new(size as u64)),
            t => BitvectorDomain::Value(bv(t as u128, size as u32)),
        }
    }
    fn from_real(v: &Self) -> Option<(u8, u8)> {
        let size = u64::from(v.bytesize()) as u8;
        match v {
            BitvectorDomain::Top(_) => Some((size, 0)),
            BitvectorDomain::Value(b) => {
                let (val, _) = props::unbv(b);
                if val == 1 || val == 2 {
                    Some((size, val as u8))
                } else {
                    None
                }
            }
        }
    }
    fn ref_merge(a: u8, b: u8) -> u8 {
        if a == b {
            a
        } else {
            0
        }
    }
    fn ref_merge_top(_a: u8) -> u8 {
        0
    }
}

// ---- Taint: Top (= untainted) is not maximal; one non-Top value.
impl Dom for Taint {
    const NAME: &'static str = "Taint";
    const TOP: u8 = 0;
    fn write_tags() -> &'static [u8] {
        &[1]
    }
    fn to_real(tag: u8, size: u8) -> Self {
        match tag {
            0 => Taint::Top(ByteSize::new(size as u64)),
            _ => Taint::Tainted(ByteSize::new(size as u64)),
        }
    }
    fn from_real(v: &Self) -> Option<(u8, u8)> {
        match v {
            Taint::Top(s) => Some((u64::from(*s) as u8, 0)),
            Taint::Tainted(s) => Some((u64::from(*s) as u8, 1)),
        }
    }
    fn ref_merge(_a: u8, _b: u8) -> u8 {
        1 // tainted if at least one input is tainted
    }
    fn ref_merge_top(_a: u8) -> u8 {
        1
    }
}

// ---- DataDomain<BitvectorDomain>: Top is not maximal. A tag is a bit set:
//      bit 0 = may be the absolute value 1, bit 1 = may be a pointer (id X, offset 0),
//      bit 2 = may be a value of unknown origin. Tag 4 alone is Top. Merge is the union.
pub type Data = DataDomain<BitvectorDomain>;

fn data_id() -> AbstractIdentifier {
    static ID: std::sync::OnceLock<AbstractIdentifier> = std::sync::OnceLock::new();
    ID.get_or_init(|| {
        AbstractIdentifier::new(
            Tid::new("c05"),
            AbstractLocation::Register(Variable { name: "RAX".to_string(), size: ByteSize::new(8), is_temp: false }),
        )
    })
    .clone()
}

fn is_const(v: &BitvectorDomain, want: u128, size: u8) -> bool {
    match v {
        BitvectorDomain::Value(b) => props::unbv(b) == (want, size as u32),
        BitvectorDomain::Top(_) => false,
    }
}

impl Dom for Data {
    const NAME: &'static str = "DataDomain<BitvectorDomain>";
    const TOP: u8 = 4;
    fn write_tags() -> &'static [u8] {
        &[1, 2]
    }
    fn to_real(tag: u8, size: u8) -> Self {
        let bytes = ByteSize::new(size as u64);
        let mut d = Data::new_empty(bytes);
        if tag & 1 != 0 {
            d.set_absolute_value(Some(BitvectorDomain::Value(bv(1, size as u32))));
        }
        if tag & 2 != 0 {
            d.set_relative_values(BTreeMap::from([(data_id(), BitvectorDomain::Value(bv(0, size as u32)))]));
        }
        if tag & 4 != 0 {
            d.set_contains_top_flag();
        }
        d
    }
    fn from_real(v: &Self) -> Option<(u8, u8)> {
        let size = u64::from(v.bytesize()) as u8;
        let mut tag = 0u8;
        if let Some(a) = v.get_absolute_value() {
            if !is_const(a, 1, size) {
                return None;
            }
            tag |= 1;
        }
        let rel = v.get_relative_values();
        if !rel.is_empty() {
            if rel.len() != 1 {
                return None;
            }
            let (id, off) = rel.iter().next().unwrap();
            if *id != data_id() || !is_const(off, 0, size) {
                return None;
            }
            tag |= 2;
        }
        if v.contains_top() {
            tag |= 4;
        }
        if tag != 0 {
            Some((size, tag))
        } else {
            None
        }
    }
    fn ref_merge(a: u8, b: u8) -> u8 {
        a | b
    }
    fn ref_merge_top(a: u8) -> u8 {
        a | 4
    }
}

// ---------------------------------------------------------------- actions

#[derive(Clone, Debug, PartialEq, Eq, Hash, PartialOrd, Ord, Serialize, Deserialize)]
pub enum Act {
    /// `MemRegion::add(value, position as Bitvector)`
    Add { off: i64, size: u8, tag: u8 },
    /// `MemRegion::insert_at_byte_index(value, position)`
    Insert { off: i64, size: u8, tag: u8 },
    /// `MemRegion::remove(position, len)`
    Remove { off: i64, len: u8 },
    /// `MemRegion::merge_write_top(position, size)`
    MergeWriteTop { off: i64, size: u8 },
    /// `MemRegion::mark_interval_values_as_top(lo, hi, size)`
    MarkInterval { lo: i64, hi: i64, size: u8 },
    /// `MemRegion::mark_all_values_as_top()`
    MarkAll,
    /// `MemRegion::add_offset_to_all_indices(by)`
    Shift { by: i64 },
}

/// Alphabet description (everything is enumerated in a fixed order).
#[derive(Clone, Debug, Serialize, Deserialize)]
pub struct Cfg {
    pub lo: i64,
    pub hi: i64,
    pub sizes: Vec<u8>,
    /// also use `insert_at_byte_index` for every write (otherwise only `add`, plus `insert_at_byte_index` for the first tag and Top)
    pub insert_all_tags: bool,
    /// interval spans `hi - lo` used by MarkInterval
    pub spans: Vec<i64>,
    pub interval_sizes: Vec<u8>,
    pub shifts: Vec<i64>,
    pub max_depth: u8,
}

pub fn alphabet<T: Dom>(cfg: &Cfg) -> Vec<Act> {
    let mut out = Vec::new();
    let mut tags: Vec<u8> = T::write_tags().to_vec();
    tags.push(T::TOP);
    for off in cfg.lo..=cfg.hi {
        for &size in &cfg.sizes {
            for &tag in &tags {
                out.push(Act::Add { off, size, tag });
                if cfg.insert_all_tags || tag == tags[0] || tag == T::TOP {
                    out.push(Act::Insert { off, size, tag });
                }
            }
            out.push(Act::Remove { off, len: size });
            out.push(Act::MergeWriteTop { off, size });
        }
        // a removal length that is not a cell size
        out.push(Act::Remove { off, len: 3 });
        for &span in &cfg.spans {
            for &size in &cfg.interval_sizes {
                out.push(Act::MarkInterval { lo: off, hi: off + span, size });
            }
        }
    }
    out.push(Act::MarkAll);
    for &by in &cfg.shifts {
        out.push(Act::Shift { by });
    }
    out
}

fn pos(off: i64) -> Bitvector {
    Bitvector::from_i64(off)
}

/// Apply the action to the real region (may panic; callers wrap it in `catch`).
pub fn apply_real<T: Dom>(r: &mut MemRegion<T>, a: &Act) {
    match a {
        Act::Add { off, size, tag } => r.add(T::to_real(*tag, *size), pos(*off)),
        Act::Insert { off, size, tag } => r.insert_at_byte_index(T::to_real(*tag, *size), *off),
        Act::Remove { off, len } => r.remove(pos(*off), Bitvector::from_i64(*len as i64)),
        Act::MergeWriteTop { off, size } => r.merge_write_top(pos(*off), ByteSize::new(*size as u64)),
        Act::MarkInterval { lo, hi, size } => r.mark_interval_values_as_top(*lo, *hi, ByteSize::new(*size as u64)),
        Act::MarkAll => r.mark_all_values_as_top(),
        Act::Shift { by } => r.add_offset_to_all_indices(*by),
    }
}

fn overlaps(o: i64, s: i64, p: i64, n: i64) -> bool {
    o < p + n && p < o + s
}

fn ref_clear(store: &mut RefStore, p: i64, n: i64) {
    store.retain(|o, (s, _)| !overlaps(*o, *s as i64, p, n));
}

fn ref_top_range<T: Dom>(store: &mut RefStore, p: i64, n: i64) {
    let mut next = RefStore::new();
    for (o, (s, t)) in store.iter() {
        if overlaps(*o, *s as i64, p, n) {
            let m = T::ref_merge_top(*t);
            if m != T::TOP {
                next.insert(*o, (*s, m));
            }
        } else {
            next.insert(*o, (*s, *t));
        }
    }
    *store = next;
}

/// What the statement / the method documentation say the action does to the cell store.
pub fn apply_ref<T: Dom>(store: &RefStore, a: &Act) -> RefStore {
    let mut st = store.clone();
    match a {
        // a write touches [off, off+size): every cell overlapping it is gone; the written value is
        // stored unless it is the unknown value
        Act::Add { off, size, tag } | Act::Insert { off, size, tag } => {
            ref_clear(&mut st, *off, *size as i64);
            if *tag != T::TOP {
                st.insert(*off, (*size, *tag));
            }
        }
        // "Remove all elements intersecting the provided interval."
        Act::Remove { off, len } => ref_clear(&mut st, *off, *len as i64),
        // "If the MemRegion contains an element at the given position and with the given size then
        //  merge it with a Top element. Else clear all values intersecting the range"
        Act::MergeWriteTop { off, size } => match st.get(off).copied() {
            Some((s, t)) if s == *size => {
                let m = T::ref_merge_top(t);
                if m == T::TOP {
                    st.remove(off);
                } else {
                    st.insert(*off, (s, m));
                }
            }
            _ => ref_clear(&mut st, *off, *size as i64),
        },
        // a write of `size` bytes to an unknown offset in lo..=hi may touch [lo, hi+size):
        // "merging all values in the range with Top"
        Act::MarkInterval { lo, hi, size } => ref_top_range::<T>(&mut st, *lo, *hi + *size as i64 - *lo),
        // "merging all values with Top"
        Act::MarkAll => {
            let all: Vec<i64> = st.keys().copied().collect();
            for o in all {
                let (s, t) = st[&o];
                let m = T::ref_merge_top(t);
                if m == T::TOP {
                    st.remove(&o);
                } else {
                    st.insert(o, (s, m));
                }
            }
        }
        // "Add the given offset to the indices of all values"
        Act::Shift { by } => {
            st = st.into_iter().map(|(o, c)| (o + by, c)).collect();
        }
    }
    st
}

/// The merge the statement allows: same offset and size in both -> merged value unless Top;
/// a cell of one input overlapping nothing in the other -> merged with Top unless that is Top; nothing else.
pub fn ref_merge_stores<T: Dom>(a: &RefStore, b: &RefStore) -> RefStore {
    let mut out = RefStore::new();
    let alone = |o: i64, s: u8, other: &RefStore| !other.iter().any(|(o2, (s2, _))| overlaps(o, s as i64, *o2, *s2 as i64));
    for (o, (s, t)) in a {
        match b.get(o) {
            Some((s2, t2)) if s2 == s => {
                let m = T::ref_merge(*t, *t2);
                if m != T::TOP {
                    out.insert(*o, (*s, m));
                }
            }
            _ => {
                if alone(*o, *s, b) {
                    let m = T::ref_merge_top(*t);
                    if m != T::TOP {
                        out.insert(*o, (*s, m));
                    }
                }
            }
        }
    }
    for (o, (s, t)) in b {
        let same = matches!(a.get(o), Some((s2, _)) if s2 == s);
        if !same && alone(*o, *s, a) {
            let m = T::ref_merge_top(*t);
            if m != T::TOP {
                out.insert(*o, (*s, m));
            }
        }
    }
    out
}

// ---------------------------------------------------------------- state + invariants

#[derive(Clone, Debug, PartialEq, Eq, Hash)]
pub struct St<T: Dom> {
    pub region: MemRegion<T>,
    pub refstore: RefStore,
    pub depth: u8,
    /// site of a panic of the real code in the step that led here
    pub panic: Option<String>,
}

impl<T: Dom> St<T> {
    pub fn empty() -> St<T> {
        St { region: MemRegion::new(ByteSize::new(ADDR_BYTES)), refstore: RefStore::new(), depth: 0, panic: None }
    }
}

/// Cells of the real region as (offset, size, tag); tag 255 = a value outside the model.
pub fn real_cells<T: Dom>(r: &MemRegion<T>) -> Vec<(i64, u8, u8)> {
    r.iter()
        .map(|(o, v)| match T::from_real(v) {
            Some((s, t)) => (*o, s, t),
            None => (*o, u64::from(v.bytesize()) as u8, 255),
        })
        .collect()
}

pub fn ref_cells(s: &RefStore) -> Vec<(i64, u8, u8)> {
    s.iter().map(|(o, (s, t))| (*o, *s, *t)).collect()
}

pub type Key = (Vec<(i64, u8, u8)>, Vec<(i64, u8, u8)>, u8, Option<String>);

pub fn state_key<T: Dom>(s: &St<T>) -> Key {
    (real_cells(&s.region), ref_cells(&s.refstore), s.depth, s.panic.clone())
}

pub const INVARIANTS: [&str; 6] = [
    "real code panicked",
    "two stored cells overlap",
    "a stored cell is the unknown value",
    "iter()/entry_map() differs from the reference cell store",
    "get(offset,size) differs from the reference",
    "get_unsized(offset) differs from the reference",
];

pub fn inv_no_panic<T: Dom>(s: &St<T>) -> Option<String> {
    s.panic.clone()
}

pub fn inv_no_overlap<T: Dom>(r: &MemRegion<T>) -> Option<String> {
    let mut prev: Option<(i64, i64)> = None;
    for (o, v) in r.iter() {
        let size = u64::from(v.bytesize()) as i64;
        if let Some((po, ps)) = prev {
            if po + ps > *o {
                return Some(format!("cell at {po} (size {ps}) overlaps cell at {o} (size {size})"));
            }
        }
        prev = Some((*o, size));
    }
    None
}

pub fn inv_no_top<T: Dom>(r: &MemRegion<T>) -> Option<String> {
    for (o, v) in r.iter() {
        if v.is_top() {
            return Some(format!("cell at {o} is Top: {v:?}"));
        }
    }
    None
}

pub fn inv_iter_equals_ref<T: Dom>(r: &MemRegion<T>, refstore: &RefStore) -> Option<String> {
    let real = real_cells(r);
    let via_map: Vec<(i64, u8, u8)> = r
        .entry_map()
        .iter()
        .map(|(o, v)| match T::from_real(v) {
            Some((s, t)) => (*o, s, t),
            None => (*o, u64::from(v.bytesize()) as u8, 255),
        })
        .collect();
    let want = ref_cells(refstore);
    if real != want || via_map != want {
        return Some(format!("real cells (offset,size,tag) {real:?}, reference {want:?}"));
    }
    None
}

fn window<T: Dom>(r: &MemRegion<T>, refstore: &RefStore, cfg_lo: i64, cfg_hi: i64) -> (i64, i64) {
    let mut lo = cfg_lo;
    let mut hi = cfg_hi;
    for o in r.iter().map(|(o, _)| *o).chain(refstore.keys().copied()) {
        lo = lo.min(o);
        hi = hi.max(o);
    }
    (lo - 2, hi + 9)
}

pub fn inv_get<T: Dom>(r: &MemRegion<T>, refstore: &RefStore, lo: i64, hi: i64) -> Option<String> {
    let (lo, hi) = window(r, refstore, lo, hi);
    for off in lo..=hi {
        for size in [1u8, 2, 4, 8] {
            let want = match refstore.get(&off) {
                Some((s, t)) if *s == size => T::to_real(*t, size),
                _ => T::new_top(ByteSize::new(size as u64)),
            };
            match catch(|| r.get(pos(off), ByteSize::new(size as u64))) {
                Ok(got) if got == want => {}
                Ok(got) => return Some(format!("get({off},{size}) = {got:?}, expected {want:?}")),
                Err(p) => return Some(format!("get({off},{size}) panicked: {p}")),
            }
        }
    }
    None
}

pub fn inv_get_unsized<T: Dom>(r: &MemRegion<T>, refstore: &RefStore, lo: i64, hi: i64) -> Option<String> {
    let (lo, hi) = window(r, refstore, lo, hi);
    for off in lo..=hi {
        let want = refstore.get(&off).map(|(s, t)| T::to_real(*t, *s));
        match catch(|| r.get_unsized(pos(off))) {
            Ok(got) if got == want => {}
            Ok(got) => return Some(format!("get_unsized({off}) = {got:?}, expected {want:?}")),
            Err(p) => return Some(format!("get_unsized({off}) panicked: {p}")),
        }
    }
    None
}

/// All invariants on one (region, reference) pair; returns (invariant name, detail) of every failing one.
pub fn check_all<T: Dom>(s: &St<T>, lo: i64, hi: i64) -> Vec<(&'static str, String)> {
    let mut out = Vec::new();
    let checks: [Option<String>; 6] = [
        inv_no_panic(s),
        inv_no_overlap(&s.region),
        inv_no_top(&s.region),
        inv_iter_equals_ref(&s.region, &s.refstore),
        inv_get(&s.region, &s.refstore, lo, hi),
        inv_get_unsized(&s.region, &s.refstore, lo, hi),
    ];
    for (i, c) in checks.into_iter().enumerate() {
        if let Some(d) = c {
            out.push((INVARIANTS[i], d));
        }
    }
    out
}

/// One transition: the real method on a copy of the real region, the reference rule on the store.
pub fn step<T: Dom>(s: &St<T>, a: &Act) -> St<T> {
    let mut region = s.region.clone();
    let res = catch(|| apply_real(&mut region, a));
    St {
        region,
        refstore: apply_ref::<T>(&s.refstore, a),
        depth: s.depth + 1,
        panic: res.err().map(|p| mcx::panic_site(&p)),
    }
}

// ---------------------------------------------------------------- stateright model

pub struct C05Model<T: Dom> {
    pub cfg: Cfg,
    pub acts: Vec<Act>,
    pub init: Vec<St<T>>,
    pub _p: PhantomData<T>,
}

impl<T: Dom> C05Model<T> {
    pub fn new(cfg: Cfg, init: Vec<St<T>>) -> Self {
        let acts = alphabet::<T>(&cfg);
        C05Model { cfg, acts, init, _p: PhantomData }
    }
}

impl<T: Dom> Model for C05Model<T> {
    type State = St<T>;
    type Action = Act;

    fn init_states(&self) -> Vec<St<T>> {
        self.init.clone()
    }
    fn actions(&self, state: &St<T>, actions: &mut Vec<Act>) {
        // no successors beyond the depth bound (they would be computed only to be discarded by
        // `within_boundary`) and none after a panic of the real code
        if state.panic.is_none() && state.depth < self.cfg.max_depth {
            actions.extend(self.acts.iter().cloned());
        }
    }
    fn next_state(&self, last: &St<T>, action: Act) -> Option<St<T>> {
        Some(step(last, &action))
    }
    fn within_boundary(&self, state: &St<T>) -> bool {
        state.depth <= self.cfg.max_depth
    }
    fn properties(&self) -> Vec<Property<Self>> {
        vec![
            Property::always(INVARIANTS[0], |_, s: &St<T>| inv_no_panic(s).is_none()),
            Property::always(INVARIANTS[1], |_, s: &St<T>| inv_no_overlap(&s.region).is_none()),
            Property::always(INVARIANTS[2], |_, s: &St<T>| inv_no_top(&s.region).is_none()),
            Property::always(INVARIANTS[3], |_, s: &St<T>| inv_iter_equals_ref(&s.region, &s.refstore).is_none()),
            Property::always(INVARIANTS[4], |m: &Self, s: &St<T>| inv_get(&s.region, &s.refstore, m.cfg.lo, m.cfg.hi).is_none()),
            Property::always(INVARIANTS[5], |m: &Self, s: &St<T>| inv_get_unsized(&s.region, &s.refstore, m.cfg.lo, m.cfg.hi).is_none()),
        ]
    }
}
