//! Generators for the CLI checks C21-C23: a finite family of raw P-Code
//! projects (what the Ghidra extractor would write, serialised from the real
//! `pcode::Project` structs) and matching ELF images.
//!
//! Everything here is *input construction*; no code of the repository is run.
//!
//! Address plan (all offsets relative to the image base `IB` = 0x100000 that the
//! "extractor" reports; the ELF maps the same offsets at its own base):
//!   0x000..0x140   ELF header + program headers
//!   0x140..0x200   PLT: one 8-byte thunk per extern symbol (TID `sub_<addr>`)
//!   0x200+0x100*k  function k; block j at +0x20*j; instruction n of a block at +n
//!   text_end       = 0x200 + 0x100*max(nfun,3)
//!   text_end       rodata A (0x40 bytes, format strings; its first byte directly follows the text segment)
//!   text_end+0x40  rodata B (0x40 bytes; directly follows rodata A; a string spans the boundary)
//!   text_end+0x100 data (0x40 bytes in the file, 0x80 in memory = .bss tail), writeable

#![allow(dead_code)]

use props::ccl::intermediate_representation::{ByteSize, DatatypeProperties, Term, Tid};
use props::ccl::pcode as pc;
use props::irb::tid_at;
use props::pcode::{v_const, v_ram, v_reg, v_tmp};
use std::cell::RefCell;
use std::collections::BTreeSet;

pub const IB: u64 = 0x10_0000;

// ------------------------------------------------------------------ architectures

#[derive(Clone, Debug)]
pub struct Arch {
    pub id: &'static str,
    pub cpu: &'static str,
    pub ptr: u64,
    pub sp: &'static str,
    pub fp: &'static str,
    pub lr: Option<&'static str>,
    pub pc: &'static str,
    pub params: [&'static str; 4],
    pub ret: &'static str,
    pub sav: [&'static str; 2],
    pub zf: &'static str,
    pub cf: &'static str,
    /// sub-register family of one base register, ascending by size: (name, size)
    pub subs: &'static [(&'static str, u64)],
    /// a second small register that overlaps the first one at a non-zero offset
    pub sub_hi: (&'static str, u64),
    pub elf64: bool,
    pub machine: u16,
    /// (register, base register, lsb, size)
    pub regs: &'static [(&'static str, &'static str, u64, u64)],
}

const X64_REGS: &[(&str, &str, u64, u64)] = &[
    ("RAX", "RAX", 0, 8), ("EAX", "RAX", 0, 4), ("AX", "RAX", 0, 2), ("AL", "RAX", 0, 1), ("AH", "RAX", 1, 1),
    ("RBX", "RBX", 0, 8), ("EBX", "RBX", 0, 4), ("BX", "RBX", 0, 2), ("BL", "RBX", 0, 1), ("BH", "RBX", 1, 1),
    ("RCX", "RCX", 0, 8), ("ECX", "RCX", 0, 4), ("CX", "RCX", 0, 2), ("CL", "RCX", 0, 1),
    ("RDX", "RDX", 0, 8), ("EDX", "RDX", 0, 4), ("DX", "RDX", 0, 2), ("DL", "RDX", 0, 1),
    ("RSI", "RSI", 0, 8), ("ESI", "RSI", 0, 4), ("RDI", "RDI", 0, 8), ("EDI", "RDI", 0, 4),
    ("RBP", "RBP", 0, 8), ("EBP", "RBP", 0, 4), ("RSP", "RSP", 0, 8), ("ESP", "RSP", 0, 4),
    ("R8", "R8", 0, 8), ("R8D", "R8", 0, 4), ("R9", "R9", 0, 8), ("R9D", "R9", 0, 4),
    ("R10", "R10", 0, 8), ("R11", "R11", 0, 8), ("R12", "R12", 0, 8), ("R13", "R13", 0, 8), ("R14", "R14", 0, 8), ("R15", "R15", 0, 8),
    ("RIP", "RIP", 0, 8), ("FS_OFFSET", "FS_OFFSET", 0, 8),
    ("ZF", "ZF", 0, 1), ("CF", "CF", 0, 1), ("SF", "SF", 0, 1), ("OF", "OF", 0, 1), ("PF", "PF", 0, 1), ("DF", "DF", 0, 1),
    ("XMM0", "XMM0", 0, 16), ("XMM0_Qa", "XMM0", 0, 8), ("XMM0_Qb", "XMM0", 8, 8), ("XMM0_Da", "XMM0", 0, 4),
    ("XMM1", "XMM1", 0, 16), ("XMM1_Qa", "XMM1", 0, 8),
];

const ARM_REGS: &[(&str, &str, u64, u64)] = &[
    ("r0", "r0", 0, 4), ("r1", "r1", 0, 4), ("r2", "r2", 0, 4), ("r3", "r3", 0, 4), ("r4", "r4", 0, 4), ("r5", "r5", 0, 4),
    ("r6", "r6", 0, 4), ("r7", "r7", 0, 4), ("r8", "r8", 0, 4), ("r9", "r9", 0, 4), ("r10", "r10", 0, 4), ("r11", "r11", 0, 4),
    ("r12", "r12", 0, 4), ("sp", "sp", 0, 4), ("lr", "lr", 0, 4), ("pc", "pc", 0, 4),
    ("NG", "NG", 0, 1), ("ZR", "ZR", 0, 1), ("CY", "CY", 0, 1), ("OV", "OV", 0, 1),
    ("q0", "q0", 0, 16), ("d0", "q0", 0, 8), ("d1", "q0", 8, 8), ("s0", "q0", 0, 4), ("s1", "q0", 4, 4), ("s2", "q0", 8, 4), ("s3", "q0", 12, 4),
    ("q1", "q1", 0, 16), ("d2", "q1", 0, 8), ("d3", "q1", 8, 8),
];

pub fn x64() -> Arch {
    Arch {
        id: "x64", cpu: "x86_64", ptr: 8, sp: "RSP", fp: "RBP", lr: None, pc: "RIP",
        params: ["RDI", "RSI", "RDX", "RCX"], ret: "RAX", sav: ["RBX", "R12"], zf: "ZF", cf: "CF",
        subs: &[("AL", 1), ("AX", 2), ("EAX", 4), ("RAX", 8)], sub_hi: ("AH", 1),
        elf64: true, machine: 62, regs: X64_REGS,
    }
}
pub fn arm() -> Arch {
    Arch {
        id: "arm", cpu: "ARM_32", ptr: 4, sp: "sp", fp: "r11", lr: Some("lr"), pc: "pc",
        params: ["r0", "r1", "r2", "r3"], ret: "r0", sav: ["r4", "r5"], zf: "ZR", cf: "CY",
        subs: &[("s0", 4), ("d0", 8), ("q0", 16)], sub_hi: ("s1", 4),
        elf64: false, machine: 40, regs: ARM_REGS,
    }
}
pub fn arch_by_id(id: &str) -> Arch {
    match id {
        "x64" => x64(),
        "arm" => arm(),
        _ => mcx::machinery(&format!("unknown arch {id}")),
    }
}

// ------------------------------------------------------------------ layout

#[derive(Clone, Copy, Debug)]
pub struct Layout {
    pub nfun: usize,
    pub text_end: u64,
}
impl Layout {
    pub fn new(nfun: usize) -> Layout {
        Layout { nfun, text_end: 0x200 + 0x100 * (nfun.max(3) as u64) }
    }
    pub fn fun(&self, k: usize) -> u64 {
        IB + 0x200 + 0x100 * k as u64
    }
    pub fn plt(&self, k: usize) -> u64 {
        IB + 0x140 + 8 * k as u64
    }
    pub fn rod_a(&self) -> u64 {
        self.text_end
    }
    pub fn rod_b(&self) -> u64 {
        self.text_end + 0x40
    }
    pub fn data(&self) -> u64 {
        self.text_end + 0x100
    }
    pub fn image_end_file(&self) -> u64 {
        self.data() + 0x40
    }
    // ---- addresses the templates use (absolute, i.e. as the extractor reports them)
    /// "%s:%d\n" at the very first byte of rodata A (directly after the text segment)
    pub fn s_fmt1(&self) -> u64 {
        IB + self.rod_a()
    }
    /// "id -u"
    pub fn s_cmd(&self) -> u64 {
        IB + self.rod_a() + 0x08
    }
    /// "/tmp/jail"
    pub fn s_path(&self) -> u64 {
        IB + self.rod_a() + 0x10
    }
    /// "%d %s 100%% %x"
    pub fn s_fmt2(&self) -> u64 {
        IB + self.rod_a() + 0x20
    }
    /// "tail-%s" spanning the A/B boundary (no NUL inside A)
    pub fn s_span(&self) -> u64 {
        IB + self.rod_a() + 0x3b
    }
    /// "%s-%x" at the very first byte of rodata B
    pub fn s_fmt3(&self) -> u64 {
        IB + self.rod_b()
    }
    pub fn d_ptr(&self) -> u64 {
        IB + self.data()
    }
    pub fn d_cnt(&self) -> u64 {
        IB + self.data() + 0x10
    }
    pub fn d_bss(&self) -> u64 {
        IB + self.data() + 0x48
    }
    /// The bytes of [0, image_end_file) before the ELF headers are written over the start.
    pub fn image(&self) -> Vec<u8> {
        let mut img = vec![0u8; self.image_end_file() as usize];
        // "code": a recognisable filler (never interpreted)
        for (i, b) in img.iter_mut().enumerate().take(self.text_end as usize).skip(0x140) {
            *b = if i % 16 == 15 { 0xc3 } else { 0x90 };
        }
        let a = self.rod_a() as usize;
        let put = |img: &mut Vec<u8>, off: usize, s: &[u8]| img[off..off + s.len()].copy_from_slice(s);
        put(&mut img, a, b"%s:%d\n\0");
        put(&mut img, a + 0x08, b"id -u\0");
        put(&mut img, a + 0x10, b"/tmp/jail\0");
        put(&mut img, a + 0x20, b"%d %s 100%% %x\0");
        put(&mut img, a + 0x3b, b"tail-");
        let b = self.rod_b() as usize;
        put(&mut img, b, b"%s-%x\0");
        put(&mut img, b + 0x08, b"%s%s%s%n\0");
        let d = self.data() as usize;
        // data: a pointer to function 0, a counter
        put(&mut img, d, &(self.fun(0)).to_le_bytes());
        put(&mut img, d + 0x10, &7u32.to_le_bytes());
        img
    }
}

// ------------------------------------------------------------------ extern symbols

#[derive(Clone, Copy, Debug, PartialEq, Eq, serde::Serialize, serde::Deserialize)]
pub enum ExtVariant {
    /// exactly the symbols the functions call
    Used,
    /// every symbol of the role table, plus companions that change checker decisions (chdir, srand, setuid, ...)
    Full,
    /// the called symbols under Linux-kernel names (`__kmalloc`, `kfree`, `printk`, ...)
    Kernel,
    /// no extern symbols at all: calls to them are calls to unknown TIDs
    None,
}
pub const EXT_VARIANTS: [ExtVariant; 4] = [ExtVariant::Used, ExtVariant::Full, ExtVariant::Kernel, ExtVariant::None];

/// (role, userland name, kernel name, #params, no_return, has_var_args)
const ROLES: &[(&str, &str, &str, usize, bool, bool)] = &[
    ("alloc", "malloc", "__kmalloc", 1, false, false),
    ("free", "free", "kfree", 1, false, false),
    ("strcpy", "strcpy", "strcpy", 2, false, false),
    ("memcpy", "memcpy", "memcpy", 3, false, false),
    ("strlen", "strlen", "strlen", 1, false, false),
    ("printf", "printf", "printk", 1, false, true),
    ("sprintf", "sprintf", "sprintf", 2, false, true),
    ("system", "system", "system", 1, false, false),
    ("ioctl", "ioctl", "ioctl", 2, false, true),
    ("umask", "umask", "umask", 1, false, false),
    ("chroot", "chroot", "chroot", 1, false, false),
    ("chdir", "chdir", "chdir", 1, false, false),
    ("setuid", "setuid", "setuid", 1, false, false),
    ("access", "access", "access", 2, false, false),
    ("open", "open", "open", 2, false, true),
    ("time", "time", "time", 1, false, false),
    ("srand", "srand", "srand", 1, false, false),
    ("rand", "rand", "rand", 0, false, false),
    ("exit", "exit", "panic", 1, true, false),
    ("scanf", "scanf", "scanf", 1, false, true),
    ("sscanf", "sscanf", "sscanf", 2, false, true),
];

pub fn role_index(role: &str) -> usize {
    ROLES.iter().position(|r| r.0 == role).unwrap_or_else(|| mcx::machinery(&format!("unknown role {role}")))
}

/// Records which roles the bodies reference, hands out the symbol TIDs.
pub struct Ext {
    layout: Layout,
    used: RefCell<BTreeSet<usize>>,
}
impl Ext {
    pub fn new(layout: Layout) -> Ext {
        Ext { layout, used: RefCell::new(BTreeSet::new()) }
    }
    pub fn tid(&self, role: &str) -> Tid {
        let i = role_index(role);
        self.used.borrow_mut().insert(i);
        let addr = format!("{:08x}", self.layout.plt(i));
        tid_at(&format!("sub_{addr}"), &addr)
    }
    pub fn table(&self, a: &Arch, variant: ExtVariant, skip_roles: &[&str]) -> Vec<pc::ExternSymbol> {
        let used = self.used.borrow();
        let mut out = Vec::new();
        for (i, (role, uname, kname, nparams, no_return, var_args)) in ROLES.iter().enumerate() {
            let include = match variant {
                ExtVariant::Used | ExtVariant::Kernel => used.contains(&i),
                ExtVariant::Full => true,
                ExtVariant::None => false,
            };
            if !include || skip_roles.contains(role) {
                continue;
            }
            let name = if variant == ExtVariant::Kernel { kname } else { uname };
            let addr = format!("{:08x}", self.layout.plt(i));
            let mut arguments: Vec<pc::Arg> = Vec::new();
            // In the Full table scanf/sscanf come without parameters (Ghidra often does not know them):
            // the tool then synthesises the format string parameters itself.
            let declared = if variant == ExtVariant::Full && (*role == "scanf" || *role == "sscanf") { 0 } else { *nparams };
            for p in 0..declared {
                arguments.push(pc::Arg { var: Some(v_reg(a.params[p], a.ptr)), location: None, intent: pc::ArgIntent::INPUT });
            }
            if *role != "exit" && *role != "free" && *role != "srand" {
                arguments.push(pc::Arg { var: Some(v_reg(a.ret, a.ptr)), location: None, intent: pc::ArgIntent::OUTPUT });
            }
            let mut addresses = vec![addr.clone()];
            if variant == ExtVariant::Full && i % 4 == 0 {
                // a second thunk address for the same symbol
                addresses.push(format!("{:08x}", self.layout.plt(i) + 4));
            }
            out.push(pc::ExternSymbol {
                tid: tid_at(&format!("sub_{addr}"), &addr),
                addresses,
                name: name.to_string(),
                calling_convention: Some("__stdcall".to_string()),
                arguments,
                no_return: *no_return,
                has_var_args: *var_args,
            });
        }
        out
    }
}

// ------------------------------------------------------------------ function bodies

pub const TEMPLATES: [&str; 24] = [
    "straight", "loop", "diamond", "heap", "heap_checked", "fmt", "sys", "tail_extern", "noret", "internal", "indirect", "dangling",
    "entry_not_first", "entry_missing", "empty", "ram", "subreg", "null", "callother", "stack", "prng", "toctou", "unchecked", "scanf",
];

use pc::ExpressionType as E;
use pc::JmpType as J;

/// Function-body builder: keeps track of addresses and TIDs the way the extractor names them.
struct Fb<'a> {
    a: &'a Arch,
    l: Layout,
    base: u64,
    blocks: Vec<Term<pc::Blk>>,
    cur_addr: u64,
    cur_defs: Vec<Term<pc::Def>>,
    n: u64,
}

impl<'a> Fb<'a> {
    fn new(a: &'a Arch, l: Layout, base: u64) -> Fb<'a> {
        Fb { a, l, base, blocks: Vec::new(), cur_addr: base, cur_defs: Vec::new(), n: 0 }
    }
    fn baddr(&self, j: usize) -> u64 {
        self.base + 0x20 * j as u64
    }
    fn btid(&self, j: usize) -> Tid {
        let addr = format!("{:08x}", self.baddr(j));
        tid_at(&format!("blk_{addr}"), &addr)
    }
    fn begin(&mut self, j: usize) {
        self.cur_addr = self.baddr(j);
        self.cur_defs = Vec::new();
        self.n = 0;
    }
    fn itid(&mut self) -> Tid {
        let addr = format!("{:08x}", self.cur_addr + self.n);
        self.n += 1;
        tid_at(&format!("instr_{addr}_0"), &addr)
    }
    fn def(&mut self, lhs: Option<pc::Variable>, m: E, i0: Option<pc::Variable>, i1: Option<pc::Variable>, i2: Option<pc::Variable>) {
        let tid = self.itid();
        self.cur_defs.push(Term { tid, term: pc::Def { lhs, rhs: pc::Expression { mnemonic: m, input0: i0, input1: i1, input2: i2 } } });
    }
    // ---- varnodes
    fn r(&self, name: &str) -> pc::Variable {
        v_reg(name, self.a.ptr)
    }
    fn c(&self, v: u64) -> pc::Variable {
        v_const(v as u128, self.a.ptr)
    }
    fn p(&self, i: usize) -> pc::Variable {
        self.r(self.a.params[i])
    }
    fn ret_reg(&self) -> pc::Variable {
        self.r(self.a.ret)
    }
    fn s(&self, i: usize) -> pc::Variable {
        self.r(self.a.sav[i])
    }
    fn sp(&self) -> pc::Variable {
        self.r(self.a.sp)
    }
    fn fp(&self) -> pc::Variable {
        self.r(self.a.fp)
    }
    fn zf(&self) -> pc::Variable {
        v_reg(self.a.zf, 1)
    }
    fn cf(&self) -> pc::Variable {
        v_reg(self.a.cf, 1)
    }
    fn t(&self, name: &str) -> pc::Variable {
        v_tmp(name, self.a.ptr)
    }
    // ---- instructions
    fn mov(&mut self, d: pc::Variable, s: pc::Variable) {
        self.def(Some(d), E::COPY, Some(s), None, None);
    }
    fn op(&mut self, d: pc::Variable, m: E, x: pc::Variable, y: pc::Variable) {
        self.def(Some(d), m, Some(x), Some(y), None);
    }
    fn load(&mut self, d: pc::Variable, ptr: pc::Variable) {
        self.def(Some(d), E::LOAD, Some(v_const(0x1b1, 8)), Some(ptr), None);
    }
    fn store(&mut self, ptr: pc::Variable, val: pc::Variable) {
        self.def(None, E::STORE, Some(v_const(0x1b1, 8)), Some(ptr), Some(val));
    }
    /// store to / load from `sp + off` through a temporary
    fn store_sp(&mut self, off: u64, val: pc::Variable) {
        let t = self.t("$U2f00");
        let (sp, c) = (self.sp(), self.c(off));
        self.op(t.clone(), E::INT_ADD, sp, c);
        self.store(t, val);
    }
    fn load_sp(&mut self, d: pc::Variable, off: u64) {
        let t = self.t("$U2f80");
        let (sp, c) = (self.sp(), self.c(off));
        self.op(t.clone(), E::INT_ADD, sp, c);
        self.load(d, t);
    }
    fn lea_sp(&mut self, d: pc::Variable, off: u64) {
        let (sp, c) = (self.sp(), self.c(off));
        self.op(d, E::INT_ADD, sp, c);
    }
    fn prologue(&mut self) {
        let w = self.a.ptr;
        let (sp, fp) = (self.sp(), self.fp());
        if let Some(lr) = self.a.lr {
            let lr = self.r(lr);
            self.op(sp.clone(), E::INT_SUB, sp.clone(), self.c(2 * w));
            self.store(sp.clone(), fp.clone());
            self.store_sp(w, lr);
        } else {
            self.op(sp.clone(), E::INT_SUB, sp.clone(), self.c(w));
            self.store(sp.clone(), fp.clone());
        }
        self.mov(fp, sp.clone());
        self.op(sp.clone(), E::INT_SUB, sp, self.c(0x20));
    }
    fn epilogue(&mut self) {
        let w = self.a.ptr;
        let (sp, fp) = (self.sp(), self.fp());
        self.mov(sp.clone(), fp.clone());
        self.load(fp, sp.clone());
        if let Some(lr) = self.a.lr {
            let lr = self.r(lr);
            self.load_sp(lr, w);
            self.op(sp.clone(), E::INT_ADD, sp, self.c(2 * w));
        } else {
            self.op(sp.clone(), E::INT_ADD, sp, self.c(w));
        }
    }
    // ---- block terminators
    fn end(&mut self, jmps: Vec<pc::Jmp>) {
        let mut terms = Vec::new();
        let addr = format!("{:08x}", self.cur_addr + self.n);
        for (k, j) in jmps.into_iter().enumerate() {
            terms.push(Term { tid: tid_at(&format!("instr_{addr}_{k}"), &addr), term: j });
        }
        let baddr = format!("{:08x}", self.cur_addr);
        let defs = std::mem::take(&mut self.cur_defs);
        self.blocks.push(Term { tid: tid_at(&format!("blk_{baddr}"), &baddr), term: pc::Blk { defs, jmps: terms } });
    }
    fn j_branch(&self, j: usize) -> pc::Jmp {
        pc::Jmp { mnemonic: J::BRANCH, goto: Some(pc::Label::Direct(self.btid(j))), call: None, condition: None, target_hints: None }
    }
    fn j_branch_tid(&self, t: Tid) -> pc::Jmp {
        pc::Jmp { mnemonic: J::BRANCH, goto: Some(pc::Label::Direct(t)), call: None, condition: None, target_hints: None }
    }
    fn j_cbranch(&self, j: usize, cond: pc::Variable) -> pc::Jmp {
        pc::Jmp { mnemonic: J::CBRANCH, goto: Some(pc::Label::Direct(self.btid(j))), call: None, condition: Some(cond), target_hints: None }
    }
    fn j_call(&self, target: Tid, ret: Option<Tid>) -> pc::Jmp {
        pc::Jmp { mnemonic: J::CALL, goto: None, call: Some(pc::Call { target: Some(pc::Label::Direct(target)), return_: ret.map(pc::Label::Direct), call_string: None }), condition: None, target_hints: None }
    }
    fn j_callind(&self, v: pc::Variable, ret: Option<Tid>) -> pc::Jmp {
        pc::Jmp { mnemonic: J::CALLIND, goto: None, call: Some(pc::Call { target: Some(pc::Label::Indirect(v)), return_: ret.map(pc::Label::Direct), call_string: None }), condition: None, target_hints: None }
    }
    fn j_callother(&self, desc: &str, ret: Option<Tid>) -> pc::Jmp {
        pc::Jmp { mnemonic: J::CALLOTHER, goto: None, call: Some(pc::Call { target: None, return_: ret.map(pc::Label::Direct), call_string: Some(desc.to_string()) }), condition: None, target_hints: None }
    }
    fn j_return(&self, v: pc::Variable) -> pc::Jmp {
        pc::Jmp { mnemonic: J::RETURN, goto: Some(pc::Label::Indirect(v)), call: None, condition: None, target_hints: None }
    }
    /// the P-Code of a call instruction: push the return address (x86) / set lr (arm), then CALL
    fn call(&mut self, target: Tid, ret_blk: Option<usize>) {
        let ret_addr = self.c(ret_blk.map(|j| self.baddr(j)).unwrap_or(self.cur_addr + 0x1f));
        if let Some(lr) = self.a.lr {
            let lr = self.r(lr);
            self.mov(lr, ret_addr);
        } else {
            let sp = self.sp();
            self.op(sp.clone(), E::INT_SUB, sp.clone(), self.c(self.a.ptr));
            self.store(sp, ret_addr);
        }
        let j = self.j_call(target, ret_blk.map(|j| self.btid(j)));
        self.end(vec![j]);
    }
    /// tail call: plain jump to a function, no return address
    fn tail_call(&mut self, target: Tid) {
        let j = self.j_call(target, None);
        self.end(vec![j]);
    }
    fn ret(&mut self) {
        if let Some(lr) = self.a.lr {
            let j = self.j_return(self.r(lr));
            self.end(vec![j]);
        } else {
            let pcv = self.r(self.a.pc);
            let sp = self.sp();
            self.load(pcv.clone(), sp.clone());
            self.op(sp.clone(), E::INT_ADD, sp, self.c(self.a.ptr));
            let j = self.j_return(pcv);
            self.end(vec![j]);
        }
    }
    fn cond(&mut self, taken: usize, cond: pc::Variable, fall: usize) {
        let (a, b) = (self.j_cbranch(taken, cond), self.j_branch(fall));
        self.end(vec![a, b]);
    }
    fn goto(&mut self, j: usize) {
        let b = self.j_branch(j);
        self.end(vec![b]);
    }
}

/// Build the blocks of function `fi` (of `l.nfun`) from template `t`.
pub fn body(t: &str, a: &Arch, l: Layout, fi: usize, ext: &Ext) -> Vec<Term<pc::Blk>> {
    let base = l.fun(fi);
    let next = (fi + 1) % l.nfun;
    let next_addr = format!("{:08x}", l.fun(next));
    let next_tid = tid_at(&format!("sub_{next_addr}"), &next_addr);
    let last_addr = format!("{:08x}", l.fun(l.nfun - 1));
    let last_tid = tid_at(&format!("sub_{last_addr}"), &last_addr);
    let mut f = Fb::new(a, l, base);
    let w = a.ptr;
    match t {
        // ---- scenario templates: several callers of the LAST function of the project, differing in what they pass
        "pass_stack" => {
            f.begin(0);
            f.prologue();
            f.lea_sp(f.p(0), 8); // address of a local buffer (0x18 bytes below the saved frame pointer)
            f.call(last_tid.clone(), Some(1));
            f.begin(1);
            f.epilogue();
            f.ret();
        }
        "pass_unknown" => {
            f.begin(0);
            f.prologue();
            f.op(f.p(0), E::INT_MULT, f.p(1), f.p(2)); // a computed value the analysis knows nothing about
            f.call(last_tid.clone(), Some(1));
            f.begin(1);
            f.epilogue();
            f.ret();
        }
        "pass_global" => {
            f.begin(0);
            f.prologue();
            f.mov(f.p(0), v_ram(l.d_ptr(), w)); // a pointer read from a writeable global
            f.call(last_tid.clone(), Some(1));
            f.begin(1);
            f.epilogue();
            f.ret();
        }
        "pass_ret" => {
            f.begin(0);
            f.prologue();
            f.call(ext.tid("rand"), Some(1));
            f.begin(1);
            f.mov(f.p(0), f.ret_reg()); // the result of an extern function without parameters
            f.call(last_tid.clone(), Some(2));
            f.begin(2);
            f.epilogue();
            f.ret();
        }
        "pass_const" => {
            f.begin(0);
            f.prologue();
            f.mov(f.p(0), f.c(16));
            f.call(last_tid.clone(), Some(1));
            f.begin(1);
            f.epilogue();
            f.ret();
        }
        "pass_heap" => {
            f.begin(0);
            f.prologue();
            f.mov(f.p(0), f.c(16));
            f.call(ext.tid("alloc"), Some(1));
            f.begin(1);
            f.mov(f.p(0), f.ret_reg());
            f.call(last_tid.clone(), Some(2));
            f.begin(2);
            f.epilogue();
            f.ret();
        }
        "unchecked_two_returns" => {
            // the result of a must-check function is parked in a callee-saved register, the return register
            // is overwritten, and the function returns at two different places (meant for a function without callers)
            f.begin(0);
            f.mov(f.p(0), f.c(l.s_path()));
            f.call(ext.tid("chdir"), Some(1));
            f.begin(1);
            f.mov(f.s(0), f.ret_reg());
            f.mov(f.ret_reg(), f.c(0));
            f.op(f.zf(), E::INT_EQUAL, f.s(1), f.c(0));
            f.cond(2, f.zf(), 3);
            f.begin(2);
            f.ret();
            f.begin(3);
            f.ret();
        }
        "sink_write" => {
            // accesses relative to the pointer parameter: whether they are in bounds depends on the callers' objects
            f.begin(0);
            f.op(f.t("$U4100"), E::INT_ADD, f.p(0), f.c(0x30));
            f.store(f.t("$U4100"), f.c(0));
            f.op(f.t("$U4180"), E::INT_ADD, f.p(0), f.c(0x38));
            f.load(f.ret_reg(), f.t("$U4180"));
            f.ret();
        }
        "straight" => {
            f.begin(0);
            f.prologue();
            f.mov(f.s(0), f.p(0));
            f.op(f.ret_reg(), E::INT_ADD, f.p(0), f.p(1));
            f.op(f.ret_reg(), E::INT_MULT, f.ret_reg(), f.c(4));
            f.store_sp(8, f.ret_reg());
            f.op(f.ret_reg(), E::INT_XOR, f.ret_reg(), f.ret_reg());
            f.load_sp(f.ret_reg(), 8);
            f.op(f.ret_reg(), E::INT_SUB, f.ret_reg(), f.s(0));
            f.epilogue();
            f.ret();
        }
        "loop" => {
            f.begin(0);
            f.prologue();
            f.mov(f.s(0), f.p(0));
            f.mov(f.s(1), f.c(0));
            f.goto(1);
            f.begin(1);
            f.op(f.cf(), E::INT_LESS, f.s(1), f.c(0x10));
            f.cond(2, f.cf(), 3);
            f.begin(2);
            f.op(f.t("$U3100"), E::INT_ADD, f.s(0), f.s(1));
            f.store(f.t("$U3100"), v_const(0, 1));
            f.op(f.s(1), E::INT_ADD, f.s(1), f.c(1));
            f.goto(1);
            f.begin(3);
            f.mov(f.ret_reg(), f.s(1));
            f.epilogue();
            f.ret();
        }
        "diamond" => {
            f.begin(0);
            f.op(f.zf(), E::INT_EQUAL, f.p(0), f.c(0));
            f.cond(1, f.zf(), 2);
            f.begin(1);
            f.mov(f.ret_reg(), f.c(1));
            f.goto(3);
            f.begin(2);
            f.load(f.ret_reg(), f.p(0));
            f.goto(3);
            f.begin(3);
            f.ret();
        }
        "heap" => {
            f.begin(0);
            f.prologue();
            f.mov(f.p(0), f.c(w)); // malloc(sizeof(void*))
            f.call(ext.tid("alloc"), Some(1));
            f.begin(1);
            f.mov(f.s(0), f.ret_reg());
            f.store(f.ret_reg(), v_const(0x41, 1)); // unchecked use of the result
            f.mov(f.p(0), f.s(0));
            f.mov(f.p(1), f.c(l.s_path()));
            f.call(ext.tid("strcpy"), Some(2));
            f.begin(2);
            f.mov(f.p(0), f.s(0));
            f.call(ext.tid("free"), Some(3));
            f.begin(3);
            f.load(f.ret_reg(), f.s(0)); // use after free
            f.mov(f.p(0), f.s(0));
            f.call(ext.tid("free"), Some(4)); // double free
            f.begin(4);
            f.epilogue();
            f.ret();
        }
        "heap_checked" => {
            f.begin(0);
            f.prologue();
            f.mov(f.s(1), f.p(1));
            f.op(f.p(0), E::INT_MULT, f.p(0), f.c(4)); // possible overflow before the allocation
            f.call(ext.tid("alloc"), Some(1));
            f.begin(1);
            f.mov(f.s(0), f.ret_reg());
            f.op(f.zf(), E::INT_EQUAL, f.ret_reg(), f.c(0));
            f.cond(4, f.zf(), 2);
            f.begin(2);
            f.mov(f.p(0), f.s(0));
            f.mov(f.p(1), f.s(1));
            f.mov(f.p(2), f.c(0x40));
            f.call(ext.tid("memcpy"), Some(3));
            f.begin(3);
            f.mov(f.p(0), f.s(0));
            f.call(ext.tid("free"), Some(4));
            f.begin(4);
            f.epilogue();
            f.ret();
        }
        "fmt" => {
            f.begin(0);
            f.prologue();
            f.mov(f.s(0), f.p(0));
            f.mov(f.p(0), f.c(l.s_fmt1())); // constant format string, first byte of a segment that follows another one
            f.mov(f.p(1), f.c(l.s_path()));
            f.mov(f.p(2), f.c(5));
            f.call(ext.tid("printf"), Some(1));
            f.begin(1);
            f.mov(f.p(0), f.s(0)); // format string from a parameter
            f.call(ext.tid("printf"), Some(2));
            f.begin(2);
            f.lea_sp(f.p(0), 8);
            f.mov(f.p(1), f.c(l.s_span())); // format string that runs across a segment boundary
            f.mov(f.p(2), f.s(0));
            f.call(ext.tid("sprintf"), Some(3));
            f.begin(3);
            f.mov(f.p(0), f.c(l.s_cmd()));
            f.call(ext.tid("system"), Some(4));
            f.begin(4);
            f.lea_sp(f.p(0), 8);
            f.call(ext.tid("system"), Some(5));
            f.begin(5);
            f.mov(f.p(0), f.c(l.s_fmt3()));
            f.mov(f.p(1), f.s(0));
            f.call(ext.tid("printf"), Some(6));
            f.begin(6);
            f.epilogue();
            f.ret();
        }
        "sys" => {
            f.begin(0);
            f.prologue();
            f.mov(f.p(0), f.c(0o666));
            f.call(ext.tid("umask"), Some(1));
            f.begin(1);
            f.mov(f.p(0), f.c(l.s_path()));
            f.call(ext.tid("chroot"), Some(2));
            f.begin(2);
            f.mov(f.p(0), f.c(0));
            f.call(ext.tid("setuid"), Some(3));
            f.begin(3);
            f.mov(f.p(0), f.c(l.s_cmd()));
            f.call(ext.tid("system"), Some(4));
            f.begin(4);
            f.mov(f.p(0), f.c(3));
            f.mov(f.p(1), f.c(0x5401));
            f.lea_sp(f.p(2), 8);
            f.call(ext.tid("ioctl"), Some(5));
            f.begin(5);
            f.epilogue();
            f.ret();
        }
        "tail_extern" => {
            // `return chroot(path);` compiled to a jump: a call without return target
            f.begin(0);
            f.mov(f.p(0), f.c(l.s_path()));
            f.tail_call(ext.tid("chroot"));
        }
        "noret" => {
            f.begin(0);
            f.prologue();
            f.op(f.zf(), E::INT_EQUAL, f.p(0), f.c(0));
            f.cond(1, f.zf(), 2);
            f.begin(1);
            f.mov(f.p(0), f.c(1));
            f.call(ext.tid("exit"), None); // call to a non-returning symbol
            f.begin(2);
            f.epilogue();
            f.tail_call(next_tid.clone()); // tail call of an internal function
        }
        "internal" => {
            f.begin(0);
            f.prologue();
            f.mov(f.p(0), f.c(7));
            f.call(next_tid.clone(), Some(1));
            f.begin(1);
            f.mov(f.s(0), f.ret_reg());
            f.mov(f.p(0), f.s(0));
            f.call(next_tid.clone(), Some(2));
            f.begin(2);
            f.op(f.ret_reg(), E::INT_ADD, f.ret_reg(), f.s(0));
            f.epilogue();
            f.ret();
        }
        "indirect" => {
            f.begin(0);
            f.prologue();
            f.mov(f.s(0), f.p(0));
            let j = f.j_callind(f.s(0), Some(f.btid(1)));
            f.end(vec![j]);
            f.begin(1);
            let j = f.j_callind(v_ram(l.d_ptr(), w), Some(f.btid(2))); // call through a global pointer
            f.end(vec![j]);
            f.begin(2);
            f.op(f.ret_reg(), E::INT_AND, f.p(1), f.c(1));
            f.op(f.ret_reg(), E::INT_MULT, f.ret_reg(), f.c(0x20));
            f.op(f.ret_reg(), E::INT_ADD, f.ret_reg(), f.c(f.baddr(3)));
            let mut j = pc::Jmp { mnemonic: J::BRANCHIND, goto: Some(pc::Label::Indirect(f.ret_reg())), call: None, condition: None, target_hints: None };
            j.target_hints = Some(vec![format!("{:08x}", f.baddr(3)), format!("{:08x}", f.baddr(4))]);
            f.end(vec![j]);
            f.begin(3);
            f.mov(f.ret_reg(), f.c(0));
            f.goto(4);
            f.begin(4);
            f.epilogue();
            f.ret();
        }
        "dangling" => {
            f.begin(0);
            f.op(f.zf(), E::INT_EQUAL, f.p(0), f.c(0));
            f.cond(6, f.zf(), 1); // block 6 does not exist
            f.begin(1);
            let ghost_addr = format!("{:08x}", IB + 0x1f0);
            f.call(tid_at(&format!("sub_{ghost_addr}"), &ghost_addr), Some(2)); // function that does not exist
            f.begin(2);
            f.call(next_tid.clone(), Some(7)); // return block that does not exist
            f.begin(3);
            // jump into another function (shared code)
            let nb = tid_at(&format!("blk_{next_addr}"), &next_addr);
            let j = f.j_branch_tid(nb);
            f.end(vec![j]);
        }
        "entry_not_first" => {
            f.begin(1);
            f.mov(f.ret_reg(), f.c(1));
            f.goto(2);
            f.begin(0);
            f.mov(f.s(0), f.p(0));
            f.goto(1);
            f.begin(2);
            f.ret();
        }
        "entry_missing" => {
            // Ghidra found a function start inside another function's block: no block starts at the function address
            f.begin(1);
            f.mov(f.ret_reg(), f.p(0));
            f.goto(2);
            f.begin(2);
            f.ret();
        }
        "empty" => {}
        "ram" => {
            f.begin(0);
            f.mov(f.ret_reg(), v_ram(l.d_ptr(), w)); // implicit load from a writeable global
            f.op(v_ram(l.d_cnt(), 4), E::INT_ADD, v_ram(l.d_cnt(), 4), v_const(1, 4)); // read-modify-write of a global
            f.mov(f.s(0), v_ram(l.s_fmt1(), w)); // implicit load from read-only data
            f.cond(1, v_ram(l.d_bss(), 1), 2); // condition held in memory
            f.begin(1);
            f.load(f.ret_reg(), v_ram(l.d_ptr(), w)); // pointer operand in memory
            f.load(v_ram(l.d_bss() + 8, w), f.p(0)); // LOAD whose output is a memory location
            let j = f.j_return(v_ram(l.d_ptr(), w)); // return target held in memory
            f.end(vec![j]);
            f.begin(2);
            f.store(f.c(l.d_cnt()), v_const(0, 4));
            f.ret();
        }
        "subreg" => {
            f.begin(0);
            let subs = a.subs;
            let (lo, lo_s) = subs[0];
            let (hi, hi_s) = a.sub_hi;
            f.mov(v_reg(lo, lo_s), v_const(0x41, lo_s));
            f.mov(v_reg(hi, hi_s), v_const(1, hi_s));
            for k in 1..subs.len() {
                let (prev, prev_s) = subs[k - 1];
                let (cur, cur_s) = subs[k];
                f.def(Some(v_reg(cur, cur_s)), E::INT_ZEXT, Some(v_reg(prev, prev_s)), None, None);
                if cur_s <= 8 {
                    f.op(v_reg(cur, cur_s), E::INT_ADD, v_reg(cur, cur_s), v_const(1, cur_s));
                }
            }
            let (base, base_s) = subs[subs.len() - 1];
            if base_s == w {
                f.mov(f.p(0), v_reg(base, base_s));
            } else {
                f.def(Some(f.p(0)), E::SUBPIECE, Some(v_reg(base, base_s)), Some(v_const(0, 4)), None);
            }
            f.op(f.zf(), E::INT_EQUAL, v_reg(lo, lo_s), v_const(0, lo_s));
            f.cond(2, f.zf(), 1);
            f.begin(1);
            f.call(ext.tid("strlen"), Some(2));
            f.begin(2);
            f.def(Some(v_reg(lo, lo_s)), E::SUBPIECE, Some(f.ret_reg()), Some(v_const(0, 4)), None);
            f.ret();
        }
        "null" => {
            f.begin(0);
            f.mov(f.ret_reg(), f.c(0));
            f.store(f.ret_reg(), v_const(1, 4)); // store through a null pointer
            f.load(f.s(0), f.c(0x10)); // load from a small constant address
            f.mov(f.s(1), v_ram(0x20, w));
            f.ret();
        }
        "callother" => {
            f.begin(0);
            f.mov(f.s(0), f.p(0));
            let j = f.j_callother("syscall", Some(f.btid(1)));
            f.end(vec![j]);
            f.begin(1);
            f.op(f.zf(), E::INT_EQUAL, f.ret_reg(), f.c(0));
            f.cond(2, f.zf(), 3);
            f.begin(2);
            let j = f.j_callother("hlt", None);
            f.end(vec![j]);
            f.begin(3);
            f.mov(f.ret_reg(), f.s(0));
            f.end(vec![]); // block without any jump
        }
        "stack" => {
            f.begin(0);
            f.prologue();
            f.mov(f.s(0), f.p(0));
            f.store_sp(0x48, f.c(0)); // above the own frame
            f.lea_sp(f.p(0), 8);
            f.mov(f.p(1), f.s(0));
            f.mov(f.p(2), f.c(0x100)); // copy more than the frame holds
            f.call(ext.tid("memcpy"), Some(1));
            f.begin(1);
            f.mov(f.p(0), f.c(0x7fff_ffff)); // huge heap allocation
            f.call(ext.tid("alloc"), Some(2));
            f.begin(2);
            let sp = f.sp();
            f.op(sp.clone(), E::INT_SUB, sp.clone(), f.c(0x10000)); // huge stack allocation
            f.store(sp, f.c(0));
            f.epilogue();
            f.ret();
        }
        "prng" => {
            f.begin(0);
            f.prologue();
            f.mov(f.p(0), f.c(0));
            f.call(ext.tid("time"), Some(1));
            f.begin(1);
            f.mov(f.p(0), f.ret_reg());
            f.call(ext.tid("srand"), Some(2));
            f.begin(2);
            f.epilogue();
            f.ret();
        }
        "toctou" => {
            f.begin(0);
            f.prologue();
            f.mov(f.p(0), f.c(l.s_path()));
            f.mov(f.p(1), f.c(4));
            f.call(ext.tid("access"), Some(1));
            f.begin(1);
            f.op(f.zf(), E::INT_EQUAL, f.ret_reg(), f.c(0));
            f.cond(2, f.zf(), 4);
            f.begin(2);
            f.mov(f.p(0), f.c(l.s_path()));
            f.mov(f.p(1), f.c(2));
            f.call(ext.tid("open"), Some(3));
            f.begin(3);
            f.call(ext.tid("rand"), Some(4));
            f.begin(4);
            f.epilogue();
            f.ret();
        }
        "unchecked" => {
            f.begin(0);
            f.prologue();
            f.mov(f.p(0), f.c(l.s_path()));
            f.call(ext.tid("chdir"), Some(1));
            f.begin(1);
            f.mov(f.ret_reg(), f.c(0)); // result overwritten without a check
            f.mov(f.p(0), f.c(1000));
            f.call(ext.tid("setuid"), Some(2));
            f.begin(2);
            f.epilogue();
            f.ret(); // result returned unchecked
        }
        "scanf" => {
            f.begin(0);
            f.prologue();
            f.mov(f.s(0), f.p(0));
            f.mov(f.p(0), f.c(l.s_fmt2()));
            f.lea_sp(f.p(1), 8);
            f.lea_sp(f.p(2), 0x10);
            f.call(ext.tid("scanf"), Some(1));
            f.begin(1);
            f.mov(f.p(0), f.s(0));
            f.mov(f.p(1), f.c(l.s_fmt3()));
            f.lea_sp(f.p(2), 8);
            f.call(ext.tid("sscanf"), Some(2));
            f.begin(2);
            f.epilogue();
            f.ret();
        }
        other => mcx::machinery(&format!("unknown template {other}")),
    }
    f.blocks
}

// ------------------------------------------------------------------ projects

fn cconvs(a: &Arch) -> Vec<pc::CallingConvention> {
    let v = if a.id == "x64" {
        serde_json::json!([
            {"calling_convention": "__stdcall", "integer_parameter_register": ["RDI", "RSI", "RDX", "RCX", "R8", "R9"],
             "float_parameter_register": ["XMM0_Qa", "XMM1_Qa"], "return_register": ["RAX"], "float_return_register": ["XMM0_Qa"],
             "unaffected_register": ["RBX", "RBP", "RSP", "R12", "R13", "R14", "R15"],
             "killed_by_call_register": ["RAX", "RCX", "RDX", "RSI", "RDI", "R8", "R9", "R10", "R11"]},
            {"calling_convention": "syscall", "integer_parameter_register": ["RDI", "RSI", "RDX", "R10", "R8", "R9"],
             "float_parameter_register": [], "return_register": ["RAX"], "float_return_register": [],
             "unaffected_register": ["RBX", "RBP", "RSP", "R12", "R13", "R14", "R15"],
             "killed_by_call_register": ["RAX", "RCX", "R11"]}
        ])
    } else {
        serde_json::json!([
            {"calling_convention": "__stdcall", "integer_parameter_register": ["r0", "r1", "r2", "r3"],
             "float_parameter_register": ["d0", "d1"], "return_register": ["r0"], "float_return_register": ["d0"],
             "unaffected_register": ["r4", "r5", "r6", "r7", "r8", "r9", "r10", "r11", "sp"],
             "killed_by_call_register": ["r0", "r1", "r2", "r3", "r12", "lr"]},
            {"calling_convention": "syscall", "integer_parameter_register": ["r0", "r1", "r2", "r3"],
             "float_parameter_register": [], "return_register": ["r0"], "float_return_register": [],
             "unaffected_register": ["r4", "r5", "r6", "r7", "r8", "r9", "r10", "r11", "sp"],
             "killed_by_call_register": ["r0", "lr"]}
        ])
    };
    serde_json::from_value(v).expect("calling conventions")
}

/// The whole P-Code project for the given function templates, as JSON text.
/// `skip_roles`: roles left out of the extern table even if they would be in it
/// (lets a caller pick e.g. "no srand although rand is used").
pub fn project_json(a: &Arch, templates: &[&str], variant: ExtVariant, skip_roles: &[&str]) -> String {
    let l = Layout::new(templates.len());
    let ext = Ext::new(l);
    let mut subs = Vec::new();
    for (fi, t) in templates.iter().enumerate() {
        let blocks = body(t, a, l, fi, &ext);
        let addr = format!("{:08x}", l.fun(fi));
        let calling_convention = match fi % 3 {
            0 => Some("__stdcall".to_string()),
            1 => None,
            _ => Some("syscall".to_string()),
        };
        subs.push(Term { tid: tid_at(&format!("sub_{addr}"), &addr), term: pc::Sub { name: format!("f{fi}_{t}"), blocks, calling_convention } });
    }
    let externs = ext.table(a, variant, skip_roles);
    let entry = subs.first().map(|s| s.tid.clone());
    let ib = format!("{IB:08x}");
    let p = pc::Project {
        program: Term {
            tid: tid_at(&format!("prog_{ib}"), &ib),
            term: pc::Program { subs, extern_symbols: externs, entry_points: entry.into_iter().collect(), image_base: format!("{IB:x}") },
        },
        cpu_architecture: a.cpu.to_string(),
        stack_pointer_register: v_reg(a.sp, a.ptr),
        register_properties: a
            .regs
            .iter()
            .map(|(r, b, lsb, size)| pc::RegisterProperties { register: r.to_string(), base_register: b.to_string(), lsb: ByteSize::new(*lsb), size: ByteSize::new(*size) })
            .collect(),
        register_calling_convention: cconvs(a),
        datatype_properties: DatatypeProperties {
            char_size: ByteSize::new(1),
            double_size: ByteSize::new(8),
            float_size: ByteSize::new(4),
            integer_size: ByteSize::new(4),
            long_double_size: ByteSize::new(if a.ptr == 8 { 16 } else { 8 }),
            long_long_size: ByteSize::new(8),
            long_size: ByteSize::new(a.ptr),
            pointer_size: ByteSize::new(a.ptr),
            short_size: ByteSize::new(2),
        },
    };
    serde_json::to_string(&p).expect("pcode project serialises")
}

// ------------------------------------------------------------------ ELF images

#[derive(Clone, Copy, Debug, PartialEq, Eq, serde::Serialize, serde::Deserialize)]
pub enum ElfKind {
    /// ET_DYN, header + program headers only (no section table), base address 0
    DynMin,
    /// ET_DYN with a section table including `.debug_info`
    DynSections,
    /// ET_EXEC mapped at the image base itself, no sections
    ExecMin,
    /// ET_REL with `.modinfo` and `.gnu.linkonce.this_module` (a Linux kernel module)
    RelLkm,
    /// ET_REL without the kernel-module marker sections
    RelPlain,
}
pub const ELF_KINDS: [ElfKind; 5] = [ElfKind::DynMin, ElfKind::DynSections, ElfKind::ExecMin, ElfKind::RelLkm, ElfKind::RelPlain];

struct W {
    b: Vec<u8>,
    c64: bool,
}
impl W {
    fn u16(&mut self, v: u16) {
        self.b.extend_from_slice(&v.to_le_bytes());
    }
    fn u32(&mut self, v: u32) {
        self.b.extend_from_slice(&v.to_le_bytes());
    }
    fn u64(&mut self, v: u64) {
        self.b.extend_from_slice(&v.to_le_bytes());
    }
    /// address-sized field
    fn addr(&mut self, v: u64) {
        if self.c64 {
            self.u64(v)
        } else {
            self.u32(v as u32)
        }
    }
}

struct Sec {
    name: &'static str,
    sh_type: u32,
    flags: u64,
    addr: u64,
    off: u64,
    size: u64,
    align: u64,
}

const SHT_PROGBITS: u32 = 1;
const SHT_STRTAB: u32 = 3;
const SHT_NOBITS: u32 = 8;
const SHF_WRITE: u64 = 1;
const SHF_ALLOC: u64 = 2;
const SHF_EXEC: u64 = 4;

pub fn elf_bytes(a: &Arch, l: Layout, kind: ElfKind) -> Vec<u8> {
    let c64 = a.elf64;
    let (ehsize, phentsize, shentsize) = if c64 { (64u64, 56u64, 64u64) } else { (52, 32, 40) };
    let image = l.image();
    let is_rel = matches!(kind, ElfKind::RelLkm | ElfKind::RelPlain);
    let with_sections = is_rel || kind == ElfKind::DynSections;
    let vbase: u64 = if kind == ElfKind::ExecMin { IB } else { 0 };
    // file offset of image offset 0
    let img_off: u64 = if is_rel { 0x80 } else { 0 };
    let mut file = vec![0u8; img_off as usize];
    file.extend_from_slice(&image);

    // ---- segments (image offset, filesz, memsz, flags)
    let segs: Vec<(u64, u64, u64, u32)> = if is_rel {
        vec![]
    } else {
        vec![(0, l.text_end, l.text_end, 5), (l.rod_a(), 0x40, 0x40, 4), (l.rod_b(), 0x40, 0x40, 4), (l.data(), 0x40, 0x80, 6)]
    };

    // ---- sections
    let mut secs: Vec<Sec> = Vec::new();
    let mut extra: Vec<(usize, Vec<u8>)> = Vec::new(); // (section index, content appended to the file)
    if with_sections {
        secs.push(Sec { name: "", sh_type: 0, flags: 0, addr: 0, off: 0, size: 0, align: 0 });
        let sa = |o: u64| if is_rel { 0 } else { vbase + o };
        if is_rel {
            // In a relocatable file the section contents are all there is: .text covers offsets 0..text_end
            secs.push(Sec { name: ".text", sh_type: SHT_PROGBITS, flags: SHF_ALLOC | SHF_EXEC, addr: 0, off: img_off, size: l.text_end, align: 16 });
        } else {
            secs.push(Sec { name: ".text", sh_type: SHT_PROGBITS, flags: SHF_ALLOC | SHF_EXEC, addr: sa(0x140), off: img_off + 0x140, size: l.text_end - 0x140, align: 16 });
        }
        secs.push(Sec { name: ".rodata", sh_type: SHT_PROGBITS, flags: SHF_ALLOC, addr: sa(l.rod_a()), off: img_off + l.rod_a(), size: 0x40, align: 1 });
        secs.push(Sec { name: ".rodata.str1.1", sh_type: SHT_PROGBITS, flags: SHF_ALLOC, addr: sa(l.rod_b()), off: img_off + l.rod_b(), size: 0x40, align: 1 });
        secs.push(Sec { name: ".data", sh_type: SHT_PROGBITS, flags: SHF_ALLOC | SHF_WRITE, addr: sa(l.data()), off: img_off + l.data(), size: 0x40, align: 0x100 });
        secs.push(Sec { name: ".bss", sh_type: SHT_NOBITS, flags: SHF_ALLOC | SHF_WRITE, addr: sa(l.data() + 0x40), off: img_off + l.data() + 0x40, size: 0x40, align: 0x40 });
        if kind == ElfKind::RelLkm {
            let i = secs.len();
            secs.push(Sec { name: ".modinfo", sh_type: SHT_PROGBITS, flags: SHF_ALLOC, addr: 0, off: 0, size: 0, align: 1 });
            extra.push((i, b"license=GPL\0name=verif_lkm\0vermagic=6.1.0 SMP mod_unload \0".to_vec()));
            let i = secs.len();
            secs.push(Sec { name: ".gnu.linkonce.this_module", sh_type: SHT_PROGBITS, flags: SHF_ALLOC | SHF_WRITE, addr: 0, off: 0, size: 0, align: 0x40 });
            extra.push((i, vec![0u8; 0x40]));
        }
        if kind == ElfKind::DynSections {
            let i = secs.len();
            secs.push(Sec { name: ".debug_info", sh_type: SHT_PROGBITS, flags: 0, addr: 0, off: 0, size: 0, align: 1 });
            extra.push((i, vec![0x2au8; 0x18]));
            let i = secs.len();
            secs.push(Sec { name: ".comment", sh_type: SHT_PROGBITS, flags: 0x30, addr: 0, off: 0, size: 0, align: 1 });
            extra.push((i, b"GCC: (verif) 0.0\0".to_vec()));
        }
        let i = secs.len();
        secs.push(Sec { name: ".shstrtab", sh_type: SHT_STRTAB, flags: 0, addr: 0, off: 0, size: 0, align: 1 });
        let mut strtab = vec![0u8];
        let mut name_off = Vec::new();
        for s in &secs {
            if s.name.is_empty() {
                name_off.push(0u32);
            } else {
                name_off.push(strtab.len() as u32);
                strtab.extend_from_slice(s.name.as_bytes());
                strtab.push(0);
            }
        }
        extra.push((i, strtab));
        for (i, content) in extra {
            while file.len() % 0x10 != 0 {
                file.push(0);
            }
            secs[i].off = file.len() as u64;
            secs[i].size = content.len() as u64;
            file.extend_from_slice(&content);
        }
        while file.len() % 0x10 != 0 {
            file.push(0);
        }
        let shoff = file.len() as u64;
        let mut w = W { b: Vec::new(), c64 };
        for (s, no) in secs.iter().zip(name_off.iter()) {
            w.u32(*no);
            w.u32(s.sh_type);
            w.addr(s.flags);
            w.addr(s.addr);
            w.addr(s.off);
            w.addr(s.size);
            w.u32(0);
            w.u32(0);
            w.addr(s.align);
            w.addr(0);
        }
        file.extend_from_slice(&w.b);
        // ---- header (needs shoff)
        let hdr = elf_header(a, kind, vbase, ehsize, phentsize, segs.len() as u16, shentsize, shoff, secs.len() as u16, (secs.len() - 1) as u16, l);
        file[..hdr.len()].copy_from_slice(&hdr);
    } else {
        let hdr = elf_header(a, kind, vbase, ehsize, phentsize, segs.len() as u16, 0, 0, 0, 0, l);
        file[..hdr.len()].copy_from_slice(&hdr);
    }
    // ---- program headers directly after the ELF header
    if !segs.is_empty() {
        let mut w = W { b: Vec::new(), c64 };
        for (o, fsz, msz, fl) in &segs {
            if c64 {
                w.u32(1);
                w.u32(*fl);
                w.u64(*o);
                w.u64(vbase + *o);
                w.u64(vbase + *o);
                w.u64(*fsz);
                w.u64(*msz);
                w.u64(1);
            } else {
                w.u32(1);
                w.u32(*o as u32);
                w.u32((vbase + *o) as u32);
                w.u32((vbase + *o) as u32);
                w.u32(*fsz as u32);
                w.u32(*msz as u32);
                w.u32(*fl);
                w.u32(1);
            }
        }
        let start = ehsize as usize;
        assert!(start + w.b.len() <= 0x140, "program headers must fit below the PLT");
        file[start..start + w.b.len()].copy_from_slice(&w.b);
    }
    file
}

#[allow(clippy::too_many_arguments)]
fn elf_header(a: &Arch, kind: ElfKind, vbase: u64, ehsize: u64, phentsize: u64, phnum: u16, shentsize: u64, shoff: u64, shnum: u16, shstrndx: u16, l: Layout) -> Vec<u8> {
    let c64 = a.elf64;
    let mut w = W { b: Vec::new(), c64 };
    w.b.extend_from_slice(&[0x7f, b'E', b'L', b'F', if c64 { 2 } else { 1 }, 1, 1, 0, 0, 0, 0, 0, 0, 0, 0, 0]);
    let e_type: u16 = match kind {
        ElfKind::DynMin | ElfKind::DynSections => 3,
        ElfKind::ExecMin => 2,
        ElfKind::RelLkm | ElfKind::RelPlain => 1,
    };
    w.u16(e_type);
    w.u16(a.machine);
    w.u32(1);
    w.addr(if e_type == 1 { 0 } else { vbase + (l.fun(0) - IB) }); // e_entry
    w.addr(if phnum > 0 { ehsize } else { 0 }); // e_phoff
    w.addr(shoff);
    w.u32(if a.id == "arm" { 0x0500_0200 } else { 0 }); // e_flags
    w.u16(ehsize as u16);
    w.u16(if phnum > 0 { phentsize as u16 } else { 0 });
    w.u16(phnum);
    w.u16(if shnum > 0 { shentsize as u16 } else { 0 });
    w.u16(shnum);
    w.u16(shstrndx);
    assert_eq!(w.b.len() as u64, ehsize);
    w.b
}

pub fn hex_encode(b: &[u8]) -> String {
    let mut s = String::with_capacity(b.len() * 2);
    for x in b {
        s.push_str(&format!("{x:02x}"));
    }
    s
}
pub fn hex_decode(s: &str) -> Vec<u8> {
    (0..s.len() / 2).map(|i| u8::from_str_radix(&s[2 * i..2 * i + 2], 16).unwrap_or_else(|_| mcx::machinery("bad hex in case"))).collect()
}

// ------------------------------------------------------------------ the input family

/// One analyser input: P-Code JSON + ELF image (both stored in the case for replay).
#[derive(serde::Serialize, serde::Deserialize, Clone, Debug)]
pub struct CliInput {
    pub label: String,
    pub pcode_json: String,
    pub elf_hex: String,
}

#[derive(Clone, Debug)]
pub struct InputSpec {
    pub arch: &'static str,
    pub templates: Vec<&'static str>,
    pub ext: ExtVariant,
    pub elf: ElfKind,
    /// C21: run this input under every selection (default, all, each single check) instead of default + all only
    pub all_selections: bool,
}

impl InputSpec {
    pub fn label(&self) -> String {
        format!("{} [{}] ext={:?} elf={:?}", self.arch, self.templates.join(","), self.ext, self.elf)
    }
    pub fn build(&self) -> CliInput {
        let a = arch_by_id(self.arch);
        let l = Layout::new(self.templates.len());
        CliInput { label: self.label(), pcode_json: project_json(&a, &self.templates, self.ext, &[]), elf_hex: hex_encode(&elf_bytes(&a, l, self.elf)) }
    }
    pub fn is_lkm(&self) -> bool {
        self.elf == ElfKind::RelLkm
    }
}

/// Hand-composed multi-function projects (both tiers of C21 and C23): several callers of one
/// callee that differ in what they pass (stack buffer / unknown value / constant / heap object),
/// so that interprocedural merges over the callsites matter; and one project in which most checks fire.
pub const SCENARIOS: [&[&str]; 10] = [
    &["unchecked_two_returns"],
    &["unchecked_two_returns", "straight"],
    &["pass_stack", "pass_unknown", "sink_write"],
    &["pass_unknown", "pass_stack", "sink_write"],
    &["pass_stack", "pass_ret", "sink_write"],
    &["pass_stack", "pass_unknown", "pass_const", "sink_write"],
    &["pass_heap", "pass_unknown", "sink_write"],
    &["pass_ret", "pass_heap", "pass_global", "sink_write"],
    &["pass_unknown", "pass_heap", "pass_const", "pass_stack", "pass_ret", "sink_write"],
    &["heap", "heap_checked", "fmt", "sys", "toctou", "unchecked", "null", "stack", "subreg"],
];
pub fn scenario_family() -> Vec<InputSpec> {
    let mut out = Vec::new();
    for sc in SCENARIOS {
        out.push(InputSpec { arch: "x64", templates: sc.to_vec(), ext: ExtVariant::Full, elf: ElfKind::DynSections, all_selections: false });
        out.push(InputSpec { arch: "x64", templates: sc.to_vec(), ext: ExtVariant::Kernel, elf: ElfKind::RelLkm, all_selections: false });
        out.push(InputSpec { arch: "arm", templates: sc.to_vec(), ext: ExtVariant::Full, elf: ElfKind::DynMin, all_selections: false });
    }
    out
}

/// The C21 input family of a tier, in a fixed order.
///
/// quick (about 4 000 CLI runs): every single template x 4 extern tables x 4 x86_64 ELF kinds + ARM-style
/// ET_DYN, of which four (extern table, ELF kind) combinations get all 21 selections and the rest
/// default + all checks; every ordered template pair (x86_64, Full table, ET_DYN with sections) with default + all.
/// thorough (about 128 000 runs): all 21 selections for every single template x 4 tables x 8 (register table, ELF kind)
/// combinations and for every ordered pair x 7 combinations; default + all for every ordered triple.
pub fn input_family(thorough: bool) -> Vec<InputSpec> {
    let mut out = Vec::new();
    let t = TEMPLATES;
    let x_elfs: &[ElfKind] = if thorough { &ELF_KINDS } else { &[ElfKind::DynMin, ElfKind::DynSections, ElfKind::RelLkm, ElfKind::RelPlain] };
    let a_elfs: &[ElfKind] = if thorough { &[ElfKind::DynMin, ElfKind::ExecMin, ElfKind::RelLkm] } else { &[ElfKind::DynMin] };
    let quick_full = |ext: ExtVariant, elf: ElfKind| {
        matches!((ext, elf), (ExtVariant::Full, ElfKind::DynSections) | (ExtVariant::Full, ElfKind::RelLkm) | (ExtVariant::Used, ElfKind::DynSections) | (ExtVariant::Kernel, ElfKind::RelLkm))
    };
    for &t1 in t.iter() {
        for ext in EXT_VARIANTS {
            for &elf in x_elfs {
                out.push(InputSpec { arch: "x64", templates: vec![t1], ext, elf, all_selections: thorough || quick_full(ext, elf) });
            }
            for &elf in a_elfs {
                out.push(InputSpec { arch: "arm", templates: vec![t1], ext, elf, all_selections: thorough });
            }
        }
    }
    // every ordered pair of templates
    for &t1 in t.iter() {
        for &t2 in t.iter() {
            if thorough {
                for ext in [ExtVariant::Used, ExtVariant::Full, ExtVariant::Kernel] {
                    for elf in [ElfKind::DynSections, ElfKind::RelLkm] {
                        out.push(InputSpec { arch: "x64", templates: vec![t1, t2], ext, elf, all_selections: true });
                    }
                }
                out.push(InputSpec { arch: "arm", templates: vec![t1, t2], ext: ExtVariant::Full, elf: ElfKind::DynMin, all_selections: true });
            } else {
                out.push(InputSpec { arch: "x64", templates: vec![t1, t2], ext: ExtVariant::Full, elf: ElfKind::DynSections, all_selections: false });
            }
        }
    }
    // every ordered triple (thorough only)
    if thorough {
        for &t1 in t.iter() {
            for &t2 in t.iter() {
                for &t3 in t.iter() {
                    out.push(InputSpec { arch: "x64", templates: vec![t1, t2, t3], ext: ExtVariant::Full, elf: ElfKind::DynMin, all_selections: false });
                }
            }
        }
    }
    out.extend(scenario_family());
    out
}

/// The C23 input family: (input, selections to run [0 = default, 1 = all checks], divisor of the seed count).
///
/// quick: every single template (x86_64: Full table + ET_DYN with sections, Kernel table + kernel module;
/// ARM-style: Full table + ET_DYN) with both selections and all K seeds; every ordered template pair
/// (x86_64, Full table, ET_DYN with sections) with the all-checks selection and K/2 seeds.
/// thorough: every single-template input of the thorough C21 family with both selections and all K seeds;
/// every ordered pair with both selections and K/4 seeds.
pub fn seed_family(thorough: bool) -> Vec<(InputSpec, Vec<usize>, u64)> {
    let mut out = Vec::new();
    if thorough {
        for s in input_family(true).into_iter().filter(|s| s.templates.len() == 1) {
            out.push((s, vec![0, 1], 1));
        }
        for s in input_family(false).into_iter().filter(|s| s.templates.len() == 2) {
            out.push((s, vec![0, 1], 4));
        }
    } else {
        for &t1 in TEMPLATES.iter() {
            out.push((InputSpec { arch: "x64", templates: vec![t1], ext: ExtVariant::Full, elf: ElfKind::DynSections, all_selections: false }, vec![0, 1], 1));
            out.push((InputSpec { arch: "x64", templates: vec![t1], ext: ExtVariant::Kernel, elf: ElfKind::RelLkm, all_selections: false }, vec![0, 1], 1));
            out.push((InputSpec { arch: "arm", templates: vec![t1], ext: ExtVariant::Full, elf: ElfKind::DynMin, all_selections: false }, vec![0, 1], 1));
        }
        for s in input_family(false).into_iter().filter(|s| s.templates.len() == 2) {
            out.push((s, vec![1], 2));
        }
    }
    for s in scenario_family() {
        out.push((s, vec![0, 1], 1));
    }
    out
}
