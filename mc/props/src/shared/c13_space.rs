//! C13 helper: the finite program space.
//!
//! A program is one function `FUN_f` = CFG skeleton x one *slot form* (a sequence of at
//! most two defs of the def alphabet) per slot block x one *condition form* per
//! conditional jump. Everything is described by small serde-free enums so that the
//! enumeration is a pure function of an index.
#![allow(dead_code)]

use props::ccl::intermediate_representation::*;
use props::irb::*;

pub const A: &str = "RAX"; // not a parameter register: unknown at entry
pub const D: &str = "RDI"; // first parameter register
pub const S: &str = "RSI"; // second parameter register
pub const SP: &str = "RSP";
pub const ZF: &str = "ZF";

#[derive(Clone, Copy, Debug, PartialEq, Eq)]
pub enum Opd {
    R(&'static str),
    C(i64),
}

#[derive(Clone, Copy, Debug, PartialEq, Eq)]
pub enum DefForm {
    /// r = c
    Const(&'static str, i64),
    /// r = r' + c   (c may be negative; rendered as a subtraction of |c| then, as a compiler would emit it)
    AddC(&'static str, &'static str, i64),
    /// r = r' & c
    AndC(&'static str, &'static str, i64),
    /// r = r' * c
    MulC(&'static str, &'static str, i64),
    /// ZF = l cmp r
    Cmp(BinOpType, Opd, Opd),
    /// Store [RSP + off] = r
    StoreSp(i64, &'static str),
    /// r = Load [RSP + off]
    LoadSp(&'static str, i64),
    /// r = Load [r']
    Deref(&'static str, &'static str),
}

#[derive(Clone, Copy, Debug, PartialEq, Eq)]
pub enum CondForm {
    /// cbranch ZF           (ZF as left by earlier code / the entry state)
    Flag,
    /// cbranch !ZF
    NotFlag,
    /// ZF = l cmp r; cbranch ZF
    FlagOf(BinOpType, Opd, Opd),
    /// ZF = l cmp r; cbranch !ZF
    NotFlagOf(BinOpType, Opd, Opd),
    /// cbranch (l cmp r)
    Direct(BinOpType, Opd, Opd),
}

pub const CMPS: [BinOpType; 6] =
    [BinOpType::IntEqual, BinOpType::IntNotEqual, BinOpType::IntLess, BinOpType::IntLessEqual, BinOpType::IntSLess, BinOpType::IntSLessEqual];

fn opd(o: Opd) -> Expression {
    match o {
        Opd::R(r) => reg(r, 8),
        Opd::C(c) => csti(c as i128, 8),
    }
}
fn opd_s(o: Opd) -> String {
    match o {
        Opd::R(r) => r.to_string(),
        Opd::C(c) => format!("{c}"),
    }
}
fn cmp_s(op: BinOpType) -> &'static str {
    match op {
        BinOpType::IntEqual => "==",
        BinOpType::IntNotEqual => "!=",
        BinOpType::IntLess => "<u",
        BinOpType::IntLessEqual => "<=u",
        BinOpType::IntSLess => "<s",
        BinOpType::IntSLessEqual => "<=s",
        _ => "?",
    }
}
/// `RSP + off` as an addition of a (possibly negative) constant, the way Ghidra renders `[RSP + -0x8]`.
fn sp_plus(off: i64) -> Expression {
    add(reg(SP, 8), csti(off as i128, 8))
}

impl DefForm {
    pub fn build(&self, t: &str) -> Term<Def> {
        match *self {
            DefForm::Const(r, c) => assign(t, var(r, 8), csti(c as i128, 8)),
            DefForm::AddC(r, s, c) => {
                if c < 0 {
                    assign(t, var(r, 8), sub_(reg(s, 8), cst((-c) as u128, 8)))
                } else {
                    assign(t, var(r, 8), add(reg(s, 8), cst(c as u128, 8)))
                }
            }
            DefForm::AndC(r, s, c) => assign(t, var(r, 8), and(reg(s, 8), csti(c as i128, 8))),
            DefForm::MulC(r, s, c) => assign(t, var(r, 8), bin(BinOpType::IntMult, reg(s, 8), csti(c as i128, 8))),
            DefForm::Cmp(op, l, r) => assign(t, var(ZF, 1), bin(op, opd(l), opd(r))),
            DefForm::StoreSp(off, r) => store(t, sp_plus(off), reg(r, 8)),
            DefForm::LoadSp(r, off) => load(t, var(r, 8), sp_plus(off)),
            DefForm::Deref(r, s) => load(t, var(r, 8), reg(s, 8)),
        }
    }
    pub fn label(&self) -> String {
        match *self {
            DefForm::Const(r, c) => format!("{r}={c}"),
            DefForm::AddC(r, s, c) => format!("{r}={s}{c:+}"),
            DefForm::AndC(r, s, c) => format!("{r}={s}&{c}"),
            DefForm::MulC(r, s, c) => format!("{r}={s}*{c}"),
            DefForm::Cmp(op, l, r) => format!("ZF={}{}{}", opd_s(l), cmp_s(op), opd_s(r)),
            DefForm::StoreSp(off, r) => format!("[SP{off:+}]={r}"),
            DefForm::LoadSp(r, off) => format!("{r}=[SP{off:+}]"),
            DefForm::Deref(r, s) => format!("{r}=[{s}]"),
        }
    }
}

impl CondForm {
    /// (def to append to the block, condition expression)
    pub fn build(&self, t: &str) -> (Option<Term<Def>>, Expression) {
        let zf = reg(ZF, 1);
        match *self {
            CondForm::Flag => (None, zf),
            CondForm::NotFlag => (None, un(UnOpType::BoolNegate, zf)),
            CondForm::FlagOf(op, l, r) => (Some(DefForm::Cmp(op, l, r).build(t)), zf),
            CondForm::NotFlagOf(op, l, r) => (Some(DefForm::Cmp(op, l, r).build(t)), un(UnOpType::BoolNegate, zf)),
            CondForm::Direct(op, l, r) => (None, bin(op, opd(l), opd(r))),
        }
    }
    pub fn label(&self) -> String {
        match *self {
            CondForm::Flag => "ZF".into(),
            CondForm::NotFlag => "!ZF".into(),
            CondForm::FlagOf(op, l, r) => format!("ZF:={}{}{}", opd_s(l), cmp_s(op), opd_s(r)),
            CondForm::NotFlagOf(op, l, r) => format!("!ZF:={}{}{}", opd_s(l), cmp_s(op), opd_s(r)),
            CondForm::Direct(op, l, r) => format!("{}{}{}", opd_s(l), cmp_s(op), opd_s(r)),
        }
    }
}

// ---------------------------------------------------------------- alphabets
//
// All alphabets are *ordered by priority*; a skeleton uses a prefix of each (sizes in
// `skeleton_sizes`), so that the expensive skeletons (four free blocks, two conditions)
// stay enumerable. The full lists are used by the cheap skeletons.

/// Slot forms (sequences of <= 2 defs) of the "active" blocks.
pub fn slot_alphabet() -> Vec<Vec<DefForm>> {
    use DefForm::*;
    let slt5 = Cmp(BinOpType::IntSLess, Opd::R(A), Opd::C(5));
    let mut v: Vec<Vec<DefForm>> = vec![
        vec![],
        vec![Const(A, 0)],
        vec![AddC(A, A, 1)],
        vec![AddC(A, D, 8)],
        vec![StoreSp(-8, A)],
        vec![LoadSp(A, -8)],
        vec![Deref(A, A)],
        vec![AndC(A, A, 0xff)],
        // 8
        vec![Const(A, -1024)],
        vec![MulC(A, A, 4)],
        vec![Const(A, 5)],
        vec![AddC(A, A, -1)],
        vec![Deref(A, D)],
        // 12
        vec![AddC(D, D, 1)],
        vec![slt5],
        vec![Const(A, -1)],
        vec![AddC(A, A, 1), StoreSp(-8, A)],
        // 16
        vec![AddC(A, SP, -16)],
        vec![StoreSp(-8, D)],
        vec![MulC(A, A, 2)],
        vec![AndC(A, A, -16)],
        vec![Deref(D, D)],
        vec![slt5, AddC(A, A, 1)],
        vec![AddC(A, A, 8)],
        vec![Const(A, 2000)],
        vec![Const(D, 0)],
        vec![MulC(A, D, 8)],
        vec![Deref(A, S)],
        vec![StoreSp(8, A)],
        vec![LoadSp(A, 8)],
        vec![LoadSp(A, -8), AddC(A, A, 1)],
        // 30
        vec![AddC(A, D, 0)],
        vec![AddC(D, D, -8)],
        vec![MulC(A, A, -1)],
        vec![AndC(A, D, 7)],
        vec![Cmp(BinOpType::IntEqual, Opd::R(A), Opd::C(5))],
        vec![Cmp(BinOpType::IntLess, Opd::R(A), Opd::R(D))],
        vec![Cmp(BinOpType::IntSLessEqual, Opd::R(D), Opd::C(0))],
        vec![Cmp(BinOpType::IntNotEqual, Opd::R(D), Opd::R(S))],
        vec![StoreSp(-16, A)],
        vec![StoreSp(-12, A)],
        vec![LoadSp(D, -8)],
        vec![LoadSp(A, -16)],
        vec![LoadSp(A, -12)],
        vec![AddC(A, A, 4)],
        vec![Const(A, 1024)],
        vec![Const(A, 1023)],
        vec![AddC(SP, SP, -16)],
        vec![AddC(SP, SP, 16)],
        vec![AddC(SP, SP, -16), StoreSp(8, A)],
        vec![Const(A, -2000)],
    ];
    // every ordered pair of the first eight non-empty forms, then a curated list of further pairs
    let core: Vec<DefForm> = v[1..=8].iter().map(|f| f[0]).collect();
    for a in &core {
        for b in &core {
            let p = vec![*a, *b];
            if !v.contains(&p) {
                v.push(p);
            }
        }
    }
    let more: Vec<[DefForm; 2]> = vec![
        [StoreSp(-8, D), LoadSp(A, -8)],
        [StoreSp(-8, A), LoadSp(A, -12)],
        [StoreSp(-12, A), LoadSp(A, -8)],
        [StoreSp(8, A), LoadSp(A, 8)],
        [Const(A, -1), MulC(A, A, 2)],
        [AndC(A, A, -16), AddC(A, A, 8)],
        [Cmp(BinOpType::IntLess, Opd::R(A), Opd::R(D)), AddC(D, D, 1)],
        [AddC(A, SP, -16), Deref(A, A)],
        [Const(A, 2000), Deref(A, A)],
        [AddC(D, D, -8), Deref(A, D)],
        [Const(A, 5), Deref(A, A)],
        [Const(A, 1024), Deref(A, A)],
        [Deref(A, D), Deref(A, A)],
        [AddC(A, D, 8), Deref(A, A)],
    ];
    for p in more {
        let p = p.to_vec();
        if !v.contains(&p) {
            v.push(p);
        }
    }
    v
}

/// Slot forms of the "consumer" blocks (join block of an if, block after a loop).
pub fn use_alphabet() -> Vec<Vec<DefForm>> {
    use DefForm::*;
    vec![vec![], vec![LoadSp(A, -8)], vec![Deref(A, A)], vec![MulC(A, A, 4)], vec![AddC(A, A, 1)], vec![Deref(A, D)], vec![StoreSp(-8, A)], vec![AndC(A, A, 0xff)]]
}

/// Condition forms of the first conditional jump.
pub fn cond_alphabet() -> Vec<CondForm> {
    use CondForm::*;
    let a5 = (Opd::R(A), Opd::C(5));
    let ad = (Opd::R(A), Opd::R(D));
    let mut v = Vec::new();
    for op in CMPS {
        v.push(Direct(op, a5.0, a5.1));
    }
    for op in CMPS {
        v.push(NotFlagOf(op, a5.0, a5.1));
    }
    for op in [BinOpType::IntEqual, BinOpType::IntNotEqual, BinOpType::IntLess, BinOpType::IntSLess] {
        v.push(Direct(op, ad.0, ad.1));
    }
    v.push(Flag);
    // 17: comparisons with the boundary constants (signed max, signed min), constant in both operand positions
    const SMAX: i64 = i64::MAX;
    const SMIN: i64 = i64::MIN;
    for (l, r) in [(Opd::C(SMAX), Opd::R(A)), (Opd::R(A), Opd::C(SMAX)), (Opd::C(SMIN), Opd::R(A)), (Opd::R(A), Opd::C(SMIN))] {
        for op in CMPS {
            v.push(Direct(op, l, r));
        }
    }
    // 41
    for op in CMPS {
        v.push(FlagOf(op, a5.0, a5.1));
    }
    v.push(Direct(BinOpType::IntLessEqual, ad.0, ad.1));
    v.push(Direct(BinOpType::IntSLessEqual, ad.0, ad.1));
    v.push(NotFlag);
    // 50
    for (l, r) in [(Opd::R(A), Opd::C(1)), (Opd::C(1), Opd::R(A)), (Opd::C(-1), Opd::R(A)), (Opd::R(D), Opd::C(0)), (Opd::R(A), Opd::C(1023)), (Opd::R(D), Opd::R(S)), (Opd::R(A), Opd::C(-1)), (Opd::C(5), Opd::R(A)), (Opd::R(A), Opd::C(0))] {
        for op in CMPS {
            v.push(Direct(op, l, r));
        }
    }
    for op in CMPS {
        v.push(NotFlagOf(op, ad.0, ad.1));
    }
    for op in CMPS {
        v.push(FlagOf(op, ad.0, ad.1));
    }
    for op in CMPS {
        v.push(NotFlagOf(op, Opd::R(D), Opd::C(0)));
    }
    v
}

/// Condition forms of the second conditional jump (skeletons with two).
pub fn cond2_alphabet() -> Vec<CondForm> {
    use CondForm::*;
    vec![
        Direct(BinOpType::IntSLess, Opd::R(A), Opd::C(5)),
        Direct(BinOpType::IntNotEqual, Opd::R(A), Opd::R(D)),
        NotFlagOf(BinOpType::IntLessEqual, Opd::R(A), Opd::C(5)),
        Direct(BinOpType::IntEqual, Opd::R(A), Opd::C(5)),
        Flag,
        Direct(BinOpType::IntLess, Opd::R(A), Opd::R(D)),
        Direct(BinOpType::IntSLessEqual, Opd::R(D), Opd::C(0)),
        NotFlagOf(BinOpType::IntNotEqual, Opd::R(A), Opd::C(5)),
    ]
}

/// Prefix sizes (active slot forms, consumer slot forms, first conditions, second conditions)
/// used by skeleton `s` in tier `level` (0 quick, 1 thorough); `usize::MAX` = the full list.
pub fn skeleton_sizes(level: u32, s: usize) -> (usize, usize, usize, usize) {
    const ALL: usize = usize::MAX;
    if level == 0 {
        match s {
            0 => (50, 0, 0, 0),
            1 => (9, 3, 41, 0),
            2 => (16, 3, 41, 0),
            3 => (9, 3, 17, 0),
            4 => (9, 0, 17, 3),
            _ => (8, 3, 17, 3),
        }
    } else {
        match s {
            0 => (ALL, 0, 0, 0),
            1 => (16, 6, 72, 0),
            2 => (30, 6, 72, 0),
            3 => (16, 6, 72, 0),
            4 => (16, 0, 41, 8),
            _ => (12, 5, 29, 6),
        }
    }
}

// ---------------------------------------------------------------- skeletons

pub const N_SKELETONS: usize = 6;
pub const SKELETON_NAMES: [&str; N_SKELETONS] = ["line", "if-else", "do-while", "while", "loop-two-exits", "nested-if"];
/// Roles of the slots of skeleton `s` (true = active block, false = consumer block) and its number of conditions.
pub fn skeleton_shape(s: usize) -> (&'static [bool], usize) {
    match s {
        0 => (&[true, true], 0),
        1 => (&[true, true, true, false], 1),
        2 => (&[true, true, false], 1),
        3 => (&[true, true, true, false], 1),
        4 => (&[true, true, true], 2),
        _ => (&[true, true, true, false], 2),
    }
}

fn block(name: &str, slot: &[DefForm], cond: Option<(&CondForm, &str)>, fallthrough: &str) -> Term<Blk> {
    let mut defs: Vec<Term<Def>> = slot.iter().enumerate().map(|(i, d)| d.build(&format!("instr_{name}_{i}"))).collect();
    let mut jmps = Vec::new();
    if let Some((c, target)) = cond {
        let (extra, e) = c.build(&format!("instr_{name}_c"));
        if let Some(d) = extra {
            defs.push(d);
        }
        jmps.push(j_cbranch(&format!("instr_{name}_j0"), &format!("blk_{target}"), e));
    }
    jmps.push(j_branch(&format!("instr_{name}_j1"), &format!("blk_{fallthrough}")));
    blk(&format!("blk_{name}"), defs, jmps)
}

/// Build the program for (skeleton, slot forms, condition forms).
pub fn build_program(s: usize, slots: &[Vec<DefForm>], conds: &[CondForm]) -> Project {
    let exit = blk("blk_z", vec![], vec![j_ret("instr_z_ret", cst(0, 8))]);
    let sl = |i: usize| -> &[DefForm] { &slots[i] };
    let blocks = match s {
        // a -> b -> z
        0 => vec![block("a", sl(0), None, "b"), block("b", sl(1), None, "z"), exit],
        // a ?-> t : e ; t,e -> j -> z
        1 => vec![
            block("a", sl(0), Some((&conds[0], "t")), "e"),
            block("t", sl(1), None, "j"),
            block("e", sl(2), None, "j"),
            block("j", sl(3), None, "z"),
            exit,
        ],
        // a -> h ; h ?-> h : x ; x -> z
        2 => vec![block("a", sl(0), None, "h"), block("h", sl(1), Some((&conds[0], "h")), "x"), block("x", sl(2), None, "z"), exit],
        // a -> h ; h ?-> x : b ; b -> h ; x -> z
        3 => vec![
            block("a", sl(0), None, "h"),
            block("h", sl(1), Some((&conds[0], "x")), "b"),
            block("b", sl(2), None, "h"),
            block("x", sl(3), None, "z"),
            exit,
        ],
        // a -> h ; h ?-> x : b ; b ?-> y : h ; x -> z ; y -> z
        4 => vec![
            block("a", sl(0), None, "h"),
            block("h", sl(1), Some((&conds[0], "x")), "b"),
            block("b", sl(2), Some((&conds[1], "y")), "h"),
            block("x", &[], None, "z"),
            block("y", &[], None, "z"),
            exit,
        ],
        // a ?-> t : j ; t ?-> u : j ; u -> j ; j -> z
        _ => vec![
            block("a", sl(0), Some((&conds[0], "t")), "j"),
            block("t", sl(1), Some((&conds[1], "u")), "j"),
            block("u", sl(2), None, "j"),
            block("j", sl(3), None, "z"),
            exit,
        ],
    };
    project_x64(vec![sub("FUN_f", "f", blocks)], vec![])
}

pub fn label(s: usize, slots: &[Vec<DefForm>], conds: &[CondForm]) -> String {
    let sl: Vec<String> = slots.iter().map(|f| format!("[{}]", f.iter().map(|d| d.label()).collect::<Vec<_>>().join("; "))).collect();
    let cs: Vec<String> = conds.iter().map(|c| c.label()).collect();
    format!("{} slots={} conds=[{}]", SKELETON_NAMES[s], sl.join(""), cs.join(", "))
}
