//! C13 helper: the finite program space.
//!
//! A program is one function `FUN_f` = CFG skeleton x one *slot form* (a sequence of at
//! most two defs of the def alphabet) per slot block x one *condition form* per
//! conditional jump. Everything is described by small serde-free enums so that the
//! enumeration is a pure function of an index.
#![allow(dead_code)]

use props::ccl::intermediate_representation::*;
use props::irb::*;

pub const A: &str = "RAX"; // not a parameter register: unknown at entry
pub const D: &str = "RDI"; // first parameter register
pub const S: &str = "RSI"; // second parameter register
pub const SP: &str = "RSP";
pub const ZF: &str = "ZF";

#[derive(Clone, Copy, Debug, PartialEq, Eq)]
pub enum Opd {
    R(&'static str),
    C(i64),
}

#[derive(Clone, Copy, Debug, PartialEq, Eq)]
pub enum DefForm {
    /// r = c
    Const(&'static str, i64),
    /// r = r' + c   (c may be negative; rendered as a subtraction of |c| then, as a compiler would emit it)
    AddC(&'static str, &'static str, i64),
    /// r = r' & c
    AndC(&'static str, &'static str, i64),
    /// r = r' * c
    MulC(&'static str, &'static str, i64),
    /// ZF = l cmp r
    Cmp(BinOpType, Opd, Opd),
    /// Store [RSP + off] = r
    StoreSp(i64, &'static str),
    /// r = Load [RSP + off]
    LoadSp(&'static str, i64),
    /// r = Load [r']
    Deref(&'static str, &'static str),
}

#[derive(Clone, Copy, Debug, PartialEq, Eq)]
pub enum CondForm {
    /// cbranch ZF           (ZF as left by earlier code / the entry state)
    Flag,
    /// cbranch !ZF
    NotFlag,
    /// ZF = l cmp r; cbranch ZF
    FlagOf(BinOpType, Opd, Opd),
    /// ZF = l cmp r; cbranch !ZF
    NotFlagOf(BinOpType, Opd, Opd),
    /// cbranch (l cmp r)
    Direct(BinOpType, Opd, Opd),
}

pub const CMPS: [BinOpType; 6] =
    [BinOpType::IntEqual, BinOpType::IntNotEqual, BinOpType::IntLess, BinOpType::IntLessEqual, BinOpType::IntSLess, BinOpType::IntSLessEqual];

fn opd(o: Opd) -> Expression {
    match o {
        Opd::R(r) => reg(r, 8),
        Opd::C(c) => csti(c as i128, 8),
    }
}
fn opd_s(o: Opd) -> String {
    match o {
        Opd::R(r) => r.to_string(),
        Opd::C(c) => format!("{c}"),
    }
}
fn cmp_s(op: BinOpType) -> &'static str {
    match op {
        BinOpType::IntEqual => "==",
        BinOpType::IntNotEqual => "!=",
        BinOpType::IntLess => "<u",
        BinOpType::IntLessEqual => "<=u",
        BinOpType::IntSLess => "<s",
        BinOpType::IntSLessEqual => "<=s",
        _ => "?",
    }
}
/// `RSP + off` as an addition of a (possibly negative) constant, the way Ghidra renders `[RSP + -0x8]`.
fn sp_plus(off: i64) -> Expression {
    add(reg(SP, 8), csti(off as i128, 8))
}

impl DefForm {
    pub fn build(&self, t: &str) -> Term<Def> {
        match *self {
            DefForm::Const(r, c) => assign(t, var(r, 8), csti(c as i128, 8)),
            DefForm::AddC(r, s, c) => {
                if c < 0 {
                    assign(t, var(r, 8), sub_(reg(s, 8), cst((-c) as u128, 8)))
                } else {
                    assign(t, var(r, 8), add(reg(s, 8), cst(c as u128, 8)))
                }
            }
            DefForm::AndC(r, s, c) => assign(t, var(r, 8), and(reg(s, 8), csti(c as i128, 8))),
            DefForm::MulC(r, s, c) => assign(t, var(r, 8), bin(BinOpType::IntMult, reg(s, 8), csti(c as i128, 8))),
            DefForm::Cmp(op, l, r) => assign(t, var(ZF, 1), bin(op, opd(l), opd(r))),
            DefForm::StoreSp(off, r) => store(t, sp_plus(off), reg(r, 8)),
            DefForm::LoadSp(r, off) => load(t, var(r, 8), sp_plus(off)),
            DefForm::Deref(r, s) => load(t, var(r, 8), reg(s, 8)),
        }
    }
    pub fn label(&self) -> String {
        match *self {
            DefForm::Const(r, c) => format!("{r}={c}"),
            DefForm::AddC(r, s, c) => format!("{r}={s}{c:+}"),
            DefForm::AndC(r, s, c) => format!("{r}={s}&{c}"),
            DefForm::MulC(r, s, c) => format!("{r}={s}*{c}"),
            DefForm::Cmp(op, l, r) => format!("ZF={}{}{}", opd_s(l), cmp_s(op), opd_s(r)),
            DefForm::StoreSp(off, r) => format!("[SP{off:+}]={r}"),
            DefForm::LoadSp(r, off) => format!("{r}=[SP{off:+}]"),
            DefForm::Deref(r, s) => format!("{r}=[{s}]"),
        }
    }
}

impl CondForm {
    /// (def to append to the block, condition expression)
    pub fn build(&self, t: &str) -> (Option<Term<Def>>, Expression) {
        let zf = reg(ZF, 1);
        match *self {
            CondForm::Flag => (None, zf),
            CondForm::NotFlag => (None, un(UnOpType::BoolNegate, zf)),
            CondForm::FlagOf(op, l, r) => (Some(DefForm::Cmp(op, l, r).build(t)), zf),
            CondForm::NotFlagOf(op, l, r) => (Some(DefForm::Cmp(op, l, r).build(t)), un(UnOpType::BoolNegate, zf)),
            CondForm::Direct(op, l, r) => (None, bin(op, opd(l), opd(r))),
        }
    }
    pub fn label(&self) -> String {
        match *self {
            CondForm::Flag => "ZF".into(),
            CondForm::NotFlag => "!ZF".into(),
            CondForm::FlagOf(op, l, r) => format!("ZF:={}{}{}", opd_s(l), cmp_s(op), opd_s(r)),
            CondForm::NotFlagOf(op, l, r) => format!("!ZF:={}{}{}", opd_s(l), cmp_s(op), opd_s(r)),
            CondForm::Direct(op, l, r) => format!("{}{}{}", opd_s(l), cmp_s(op), opd_s(r)),
        }
    }
}

// ---------------------------------------------------------------- alphabets

/// The def alphabet. `level` 0 = quick core, 1 = thorough.
pub fn def_alphabet(level: u32) -> Vec<DefForm> {
    use DefForm::*;
    let mut v = vec![
        Const(A, 0),
        Const(A, 5),
        AddC(A, A, 1),
        AddC(A, D, 8),
        AddC(A, A, -1),
        MulC(A, A, 4),
        AndC(A, A, 0xff),
        Cmp(BinOpType::IntSLess, Opd::R(A), Opd::C(5)),
        StoreSp(-8, A),
        LoadSp(A, -8),
        Deref(A, D),
        Deref(A, A),
    ];
    if level >= 1 {
        v.extend([
            Const(A, -1),
            Const(A, 2000),
            Const(D, 0),
            AddC(A, D, 0),
            AddC(A, SP, -16),
            AddC(D, D, 1),
            AddC(D, D, -8),
            AddC(A, A, 8),
            MulC(A, A, 2),
            MulC(A, D, 8),
            MulC(A, A, -1),
            AndC(A, A, -16),
            AndC(A, D, 7),
            Cmp(BinOpType::IntEqual, Opd::R(A), Opd::C(5)),
            Cmp(BinOpType::IntLess, Opd::R(A), Opd::R(D)),
            Cmp(BinOpType::IntSLessEqual, Opd::R(D), Opd::C(0)),
            Cmp(BinOpType::IntNotEqual, Opd::R(D), Opd::R(S)),
            StoreSp(-8, D),
            StoreSp(-16, A),
            StoreSp(8, A),
            StoreSp(-12, A),
            LoadSp(D, -8),
            LoadSp(A, -16),
            LoadSp(A, 8),
            LoadSp(A, -12),
            Deref(D, D),
            Deref(A, S),
        ]);
    }
    v
}

/// Slot forms: the empty slot, every single def, and def pairs.
/// quick: pairs from a curated list; thorough: every ordered pair of the *core* alphabet
/// plus the curated list over the full alphabet.
pub fn slot_alphabet(level: u32) -> Vec<Vec<DefForm>> {
    use DefForm::*;
    let defs = def_alphabet(level);
    let mut v: Vec<Vec<DefForm>> = vec![vec![]];
    v.extend(defs.iter().map(|d| vec![*d]));
    let curated: Vec<[DefForm; 2]> = vec![
        [StoreSp(-8, A), LoadSp(A, -8)],
        [Const(A, 0), StoreSp(-8, A)],
        [AddC(A, A, 1), StoreSp(-8, A)],
        [LoadSp(A, -8), AddC(A, A, 1)],
        [Cmp(BinOpType::IntSLess, Opd::R(A), Opd::C(5)), AddC(A, A, 1)],
        [Const(A, 0), Deref(A, A)],
        [MulC(A, A, 4), AddC(A, A, 1)],
        [AddC(A, D, 8), Deref(A, A)],
    ];
    for p in curated {
        v.push(p.to_vec());
    }
    if level >= 1 {
        let core = def_alphabet(0);
        for a in &core {
            for b in &core {
                let p = vec![*a, *b];
                if !v.contains(&p) {
                    v.push(p);
                }
            }
        }
        let more: Vec<[DefForm; 2]> = vec![
            [StoreSp(-8, D), LoadSp(A, -8)],
            [StoreSp(-8, A), LoadSp(A, -12)],
            [StoreSp(-12, A), LoadSp(A, -8)],
            [StoreSp(8, A), LoadSp(A, 8)],
            [Const(A, -1), MulC(A, A, 2)],
            [AndC(A, A, -16), AddC(A, A, 8)],
            [Cmp(BinOpType::IntLess, Opd::R(A), Opd::R(D)), AddC(D, D, 1)],
            [AddC(A, SP, -16), Deref(A, A)],
            [Const(A, 2000), Deref(A, A)],
            [AddC(D, D, -8), Deref(A, D)],
        ];
        for p in more {
            let p = p.to_vec();
            if !v.contains(&p) {
                v.push(p);
            }
        }
    }
    v
}

/// Operand pairs of the comparison conditions.
pub fn cond_operands(level: u32) -> Vec<(Opd, Opd)> {
    let mut v = vec![(Opd::R(A), Opd::C(5)), (Opd::R(A), Opd::R(D))];
    if level >= 1 {
        v.extend([(Opd::C(5), Opd::R(A)), (Opd::R(D), Opd::C(0)), (Opd::R(D), Opd::R(S)), (Opd::R(A), Opd::C(1024)), (Opd::R(A), Opd::C(-1))]);
    }
    v
}

/// Condition forms: bare flag / negated flag, and for every comparison x operand pair the
/// three ways to branch on it.
pub fn cond_alphabet(level: u32) -> Vec<CondForm> {
    let mut v = vec![CondForm::Flag, CondForm::NotFlag];
    for (l, r) in cond_operands(level) {
        for op in CMPS {
            v.push(CondForm::Direct(op, l, r));
            v.push(CondForm::FlagOf(op, l, r));
            v.push(CondForm::NotFlagOf(op, l, r));
        }
    }
    v
}

// ---------------------------------------------------------------- skeletons

pub const N_SKELETONS: usize = 6;
pub const SKELETON_NAMES: [&str; N_SKELETONS] = ["line", "if-else", "do-while", "while", "loop-two-exits", "nested-if"];
/// (number of slots, number of conditions)
pub fn skeleton_shape(s: usize) -> (usize, usize) {
    match s {
        0 => (2, 0),
        1 => (4, 1),
        2 => (3, 1),
        3 => (4, 1),
        4 => (3, 2),
        _ => (4, 2),
    }
}

fn block(name: &str, slot: &[DefForm], cond: Option<(&CondForm, &str)>, fallthrough: &str) -> Term<Blk> {
    let mut defs: Vec<Term<Def>> = slot.iter().enumerate().map(|(i, d)| d.build(&format!("instr_{name}_{i}"))).collect();
    let mut jmps = Vec::new();
    if let Some((c, target)) = cond {
        let (extra, e) = c.build(&format!("instr_{name}_c"));
        if let Some(d) = extra {
            defs.push(d);
        }
        jmps.push(j_cbranch(&format!("instr_{name}_j0"), &format!("blk_{target}"), e));
    }
    jmps.push(j_branch(&format!("instr_{name}_j1"), &format!("blk_{fallthrough}")));
    blk(&format!("blk_{name}"), defs, jmps)
}

/// Build the program for (skeleton, slot forms, condition forms).
pub fn build_program(s: usize, slots: &[Vec<DefForm>], conds: &[CondForm]) -> Project {
    let exit = blk("blk_z", vec![], vec![j_ret("instr_z_ret", cst(0, 8))]);
    let sl = |i: usize| -> &[DefForm] { &slots[i] };
    let blocks = match s {
        // a -> b -> z
        0 => vec![block("a", sl(0), None, "b"), block("b", sl(1), None, "z"), exit],
        // a ?-> t : e ; t,e -> j -> z
        1 => vec![
            block("a", sl(0), Some((&conds[0], "t")), "e"),
            block("t", sl(1), None, "j"),
            block("e", sl(2), None, "j"),
            block("j", sl(3), None, "z"),
            exit,
        ],
        // a -> h ; h ?-> h : x ; x -> z
        2 => vec![block("a", sl(0), None, "h"), block("h", sl(1), Some((&conds[0], "h")), "x"), block("x", sl(2), None, "z"), exit],
        // a -> h ; h ?-> x : b ; b -> h ; x -> z
        3 => vec![
            block("a", sl(0), None, "h"),
            block("h", sl(1), Some((&conds[0], "x")), "b"),
            block("b", sl(2), None, "h"),
            block("x", sl(3), None, "z"),
            exit,
        ],
        // a -> h ; h ?-> x : b ; b ?-> y : h ; x -> z ; y -> z
        4 => vec![
            block("a", sl(0), None, "h"),
            block("h", sl(1), Some((&conds[0], "x")), "b"),
            block("b", sl(2), Some((&conds[1], "y")), "h"),
            block("x", &[], None, "z"),
            block("y", &[], None, "z"),
            exit,
        ],
        // a ?-> t : j ; t ?-> u : j ; u -> j ; j -> z
        _ => vec![
            block("a", sl(0), Some((&conds[0], "t")), "j"),
            block("t", sl(1), Some((&conds[1], "u")), "j"),
            block("u", sl(2), None, "j"),
            block("j", sl(3), None, "z"),
            exit,
        ],
    };
    project_x64(vec![sub("FUN_f", "f", blocks)], vec![])
}

pub fn label(s: usize, slots: &[Vec<DefForm>], conds: &[CondForm]) -> String {
    let sl: Vec<String> = slots.iter().map(|f| format!("[{}]", f.iter().map(|d| d.label()).collect::<Vec<_>>().join("; "))).collect();
    let cs: Vec<String> = conds.iter().map(|c| c.label()).collect();
    format!("{} slots={} conds=[{}]", SKELETON_NAMES[s], sl.join(""), cs.join(", "))
}
