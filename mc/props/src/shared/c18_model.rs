//! C18 — def alphabet, IR builder and reference constant propagation for the
//! constant-argument checkers (CWE560 umask, CWE467 sizeof on pointer).
//!
//! A *case* is one def sequence. The program built from it has three functions with
//! the same def sequence in their entry block, followed by a call (with return
//! target) to
//!   function 0: `umask`   — one parameter: the low 4 bytes of `RDI`
//!   function 1: `malloc`  — one parameter: `RDI` (8 bytes)
//!   function 2: `memcpy2` — two parameters: `RDI` (8 bytes) and the 8-byte stack slot `[RSP+8]`
//! `P` = `RDI`, `R` = `RBX`, stack slots are `[RSP+8]` and `[RSP+16]` (8 bytes each).
//!
//! The reference interpreter only reads the case description.

#![allow(dead_code)]
use props::ccl::intermediate_representation::*;
use props::irb::*;
use serde::{Deserialize, Serialize};

pub const CONSTS: [u64; 10] = [0, 0o22, 0o177, 0o200, 0o666, 0o777, 0o1000, 4, 8, 0x1_0000_0000];
pub const SLOTS: [i64; 2] = [8, 16];
pub const POINTER_SIZE: u64 = 8;

#[derive(Serialize, Deserialize, Clone, Copy, Debug, PartialEq, Eq, PartialOrd, Ord, Hash)]
pub enum D {
    /// `P = c`
    PConst(u64),
    /// `R = c`
    RConst(u64),
    /// `P = R`
    PFromR,
    /// `P = P + c`
    PAdd(u64),
    /// `P = P - c`
    PSub(u64),
    /// `P = P | c`
    POr(u64),
    /// `P = R ^ R`
    PXorRR,
    /// `Store [RSP+off] = P`
    StoreP(i64),
    /// `Store [RSP+off] = R`
    StoreR(i64),
    /// `Store [RSP+off] = c`
    StoreC(i64, u64),
    /// `P = Load [RSP+off]`
    LoadP(i64),
    /// `R = Load [RSP+off]`
    LoadR(i64),
}

#[derive(Serialize, Deserialize, Clone, Debug, PartialEq, Eq, Hash)]
pub struct Case {
    pub defs: Vec<D>,
}

pub fn alphabet(consts: &[u64]) -> Vec<D> {
    let mut v = Vec::new();
    v.extend(consts.iter().map(|c| D::PConst(*c)));
    v.extend(consts.iter().map(|c| D::RConst(*c)));
    v.push(D::PFromR);
    v.extend(consts.iter().map(|c| D::PAdd(*c)));
    v.extend(consts.iter().map(|c| D::PSub(*c)));
    v.extend(consts.iter().map(|c| D::POr(*c)));
    v.push(D::PXorRR);
    for s in SLOTS {
        v.push(D::StoreP(s));
        v.push(D::StoreR(s));
        v.extend(consts.iter().map(|c| D::StoreC(s, *c)));
    }
    for s in SLOTS {
        v.push(D::LoadP(s));
        v.push(D::LoadR(s));
    }
    v
}

/// Loads only read slots written by an earlier store of the sequence (same offset, same size:
/// all slots are 8 bytes), where the abstraction of the stack frame is exact.
pub fn in_scope(defs: &[D]) -> bool {
    let mut stored: Vec<i64> = Vec::new();
    for d in defs {
        match d {
            D::StoreP(s) | D::StoreR(s) | D::StoreC(s, _) => stored.push(*s),
            D::LoadP(s) | D::LoadR(s) => {
                if !stored.contains(s) {
                    return false;
                }
            }
            _ => (),
        }
    }
    true
}

// ------------------------------------------------------------------ building the raw IR

pub const N_FUNS: usize = 3;
pub const CALLEE_NAMES: [&str; N_FUNS] = ["umask", "malloc", "memcpy2"];

pub fn fun_addr(f: usize) -> u64 {
    0x1000 * (f as u64 + 1)
}
pub fn fun_tid(f: usize) -> Tid {
    let a = format!("{:08x}", fun_addr(f));
    tid_at(&format!("FUN_{a}"), &a)
}
pub fn blk_tid(f: usize, k: usize) -> Tid {
    let a = format!("{:08x}", fun_addr(f) + 0x100 * k as u64);
    tid_at(&format!("blk_{a}"), &a)
}
pub fn instr_tid(f: usize, k: usize, i: usize) -> Tid {
    let a = format!("{:08x}", fun_addr(f) + 0x100 * k as u64 + 4 * i as u64);
    tid_at(&format!("instr_{a}_0"), &a)
}
pub fn call_tid(f: usize, n_defs: usize) -> Tid {
    instr_tid(f, 0, n_defs)
}
pub fn ext_tid(f: usize) -> Tid {
    let a = format!("{:08x}", 0xe000 + 0x10 * f as u64);
    tid_at(&format!("FUN_{a}"), &a)
}

fn p() -> Variable {
    var("RDI", 8)
}
fn r() -> Variable {
    var("RBX", 8)
}
fn slot(off: i64) -> Expression {
    add(reg("RSP", 8), csti(off as i128, 8))
}

fn def_term(t: Tid, d: &D) -> Term<Def> {
    let c8 = |c: u64| cst(c as u128, 8);
    let term = match d {
        D::PConst(c) => Def::Assign { var: p(), value: c8(*c) },
        D::RConst(c) => Def::Assign { var: r(), value: c8(*c) },
        D::PFromR => Def::Assign { var: p(), value: ev(&r()) },
        D::PAdd(c) => Def::Assign { var: p(), value: bin(BinOpType::IntAdd, ev(&p()), c8(*c)) },
        D::PSub(c) => Def::Assign { var: p(), value: bin(BinOpType::IntSub, ev(&p()), c8(*c)) },
        D::POr(c) => Def::Assign { var: p(), value: bin(BinOpType::IntOr, ev(&p()), c8(*c)) },
        D::PXorRR => Def::Assign { var: p(), value: bin(BinOpType::IntXOr, ev(&r()), ev(&r())) },
        D::StoreP(s) => Def::Store { address: slot(*s), value: ev(&p()) },
        D::StoreR(s) => Def::Store { address: slot(*s), value: ev(&r()) },
        D::StoreC(s, c) => Def::Store { address: slot(*s), value: c8(*c) },
        D::LoadP(s) => Def::Load { var: p(), address: slot(*s) },
        D::LoadR(s) => Def::Load { var: r(), address: slot(*s) },
    };
    Term { tid: t, term }
}

pub fn build(case: &Case) -> Project {
    let n = case.defs.len();
    let mut subs = Vec::new();
    for f in 0..N_FUNS {
        let defs: Vec<Term<Def>> = case.defs.iter().enumerate().map(|(i, d)| def_term(instr_tid(f, 0, i), d)).collect();
        let call = Term { tid: call_tid(f, n), term: Jmp::Call { target: ext_tid(f), return_: Some(blk_tid(f, 1)) } };
        let b0 = Term { tid: blk_tid(f, 0), term: Blk { defs, jmps: vec![call], indirect_jmp_targets: vec![] } };
        let b1 = Term { tid: blk_tid(f, 1), term: Blk { defs: vec![], jmps: vec![Term { tid: instr_tid(f, 1, 0), term: Jmp::Return(reg("RAX", 8)) }], indirect_jmp_targets: vec![] } };
        subs.push(Term { tid: fun_tid(f), term: Sub { name: format!("fn{f}"), blocks: vec![b0, b1], calling_convention: None } });
    }
    let rax = vec![arg_reg("RAX", 8)];
    let params: [Vec<Arg>; N_FUNS] = [
        vec![Arg::Register { expr: subpiece(0, 4, reg("RDI", 8)), data_type: None }],
        vec![arg_reg("RDI", 8)],
        vec![arg_reg("RDI", 8), arg_stack("RSP", 8, 8, 8)],
    ];
    let mut externs = Vec::new();
    for (f, ps) in params.into_iter().enumerate() {
        let mut e = extern_symbol("x", CALLEE_NAMES[f], ps, rax.clone(), false);
        e.tid = ext_tid(f);
        externs.push(e);
    }
    project_x64(subs, externs)
}

// ------------------------------------------------------------------ reference constant propagation

/// Value of a register / stack slot in the reference interpreter.
#[derive(Clone, Copy, Debug, PartialEq, Eq)]
pub enum V {
    /// computed from constants alone
    Const(u64),
    /// not a constant computed from constants alone
    Unknown,
    /// a constant, but not "from constants alone" (x ^ x of an unknown x and what is computed from it):
    /// the statement demands nothing
    Open,
}

fn lift2(a: V, c: u64, f: impl Fn(u64, u64) -> u64) -> V {
    match a {
        V::Const(x) => V::Const(f(x, c)),
        other => other,
    }
}

/// Returns (P, R, slots) after the def sequence; registers and memory start unknown.
pub fn interpret(defs: &[D]) -> (V, V, [V; 2]) {
    let (mut pv, mut rv) = (V::Unknown, V::Unknown);
    let mut mem = [V::Unknown; 2];
    let idx = |off: i64| SLOTS.iter().position(|s| *s == off).unwrap();
    for d in defs {
        match d {
            D::PConst(c) => pv = V::Const(*c),
            D::RConst(c) => rv = V::Const(*c),
            D::PFromR => pv = rv,
            D::PAdd(c) => pv = lift2(pv, *c, |a, b| a.wrapping_add(b)),
            D::PSub(c) => pv = lift2(pv, *c, |a, b| a.wrapping_sub(b)),
            D::POr(c) => pv = lift2(pv, *c, |a, b| a | b),
            D::PXorRR => {
                pv = match rv {
                    V::Const(_) => V::Const(0),
                    _ => V::Open,
                }
            }
            D::StoreP(s) => mem[idx(*s)] = pv,
            D::StoreR(s) => mem[idx(*s)] = rv,
            D::StoreC(s, c) => mem[idx(*s)] = V::Const(*c),
            D::LoadP(s) => pv = mem[idx(*s)],
            D::LoadR(s) => rv = mem[idx(*s)],
        }
    }
    (pv, rv, mem)
}

#[derive(Clone, Copy, Debug, PartialEq, Eq, Hash)]
pub enum Demand {
    Warn,
    NoWarn,
    /// the statement demands nothing; the string says why
    Open(&'static str),
}

/// umask: the parameter is the low 4 bytes of P.
pub fn demand_umask(defs: &[D]) -> (Demand, Option<u64>) {
    let (pv, _, _) = interpret(defs);
    match pv {
        V::Const(v) => {
            let c = v & 0xffff_ffff;
            if c >= 0x8000_0000 {
                // negative as a signed 4-byte integer: "exceeds 0o177" depends on the signedness
                (Demand::Open("sign bit set at the parameter's width"), Some(c))
            } else if c > 0o177 && c != 0o777 {
                (Demand::Warn, Some(c))
            } else {
                (Demand::NoWarn, Some(c))
            }
        }
        V::Unknown => (Demand::Open("parameter is not a constant"), None),
        V::Open => (Demand::Open("constant not computed from constants alone"), None),
    }
}

/// sizeof: `params` are the values of all parameters.
pub fn demand_sizeof(params: &[V]) -> Demand {
    if params.iter().any(|p| *p == V::Const(POINTER_SIZE)) {
        Demand::Warn
    } else if params.iter().all(|p| matches!(p, V::Const(_))) {
        Demand::NoWarn
    } else {
        Demand::Open("some parameter is not a constant computed from constants alone")
    }
}

pub fn demand_malloc(defs: &[D]) -> Demand {
    let (pv, _, _) = interpret(defs);
    demand_sizeof(&[pv])
}
pub fn demand_memcpy2(defs: &[D]) -> Demand {
    let (pv, _, mem) = interpret(defs);
    demand_sizeof(&[pv, mem[0]])
}
