//! C14 oracle: an explicit-state path exploration that computes, for every function of a
//! (normalized) project, the parameter registers whose *entry value can be read on some
//! control-flow path before being overwritten*.
//!
//! States are `(block, symbolic register file, symbolic stack slots, escaped flag)`.
//! A register / slot holds one of
//!   * `Tok(i)`     – exactly the entry value of parameter register i (moved there by pure copies),
//!   * `Stack(c)`   – entry stack pointer + c,
//!   * `StackAny`   – something computed from the stack pointer, offset unknown,
//!   * nothing      – any other value.
//! Every weakening is on the safe side (it can only shrink the demanded set):
//!   * a pure copy `R' = R`, a spill `Store [own frame slot] = R` and the reload of such a slot
//!     only *move* the entry value; it counts as read when it is used in a non-trivial
//!     expression, as (part of) an address, in a condition, as a jump/call target, as a
//!     declared argument of a library call, as a register the internal callee may read,
//!     or when it is stored to memory that is certainly outside the own frame;
//!   * stores through not exactly known stack-derived addresses, and every store once a stack
//!     address has escaped, forget all slots and demand nothing for a plainly stored register;
//!   * calls forget everything in registers that are not callee-saved, in callee-saved registers
//!     the (internal) callee writes anywhere, in slots below the stack pointer, and in all
//!     slots if the callee might write memory it was not handed by the frame owner;
//!   * indirect / unknown callees read nothing (except the target expression).
//! Paths are CFG paths: both successors of a conditional jump are feasible, an internal call
//! returns iff a `Return` is reachable on some path in the callee, a call to a `no_return`
//! symbol ends the path, an x86 call returns with the return address popped (SP + 8).
#![allow(dead_code)]
use crate::c14_common::{tid_str, vars_of};
use props::ccl::intermediate_representation::*;
use serde::Serialize;
use std::collections::{BTreeMap, BTreeSet, VecDeque};

#[derive(Clone, Copy, PartialEq, Eq, PartialOrd, Ord, Hash, Debug)]
pub enum Sym {
    Tok(u8),
    Stack(i64),
    StackAny,
}

#[derive(Clone, Copy, PartialEq, Eq, PartialOrd, Ord, Hash, Debug, Serialize)]
pub enum Kind {
    Arithmetic,
    Address,
    Condition,
    StoredValue,
    JumpTarget,
    CallTarget,
    ExternArgument,
    InternalArgument,
}
/// Qualifier of a read: what is special about the reading terminator (stable part of the violation class).
#[derive(Clone, Copy, PartialEq, Eq, PartialOrd, Ord, Hash, Debug, Serialize)]
pub enum Qual {
    Plain,
    /// library call to a `no_return` symbol that has a return target
    NoReturnSymbol,
    /// library call without return target
    NoReturnTarget,
    /// indirect jump without known targets
    NoKnownTargets,
    /// target expression of a `Return`
    ReturnInstruction,
    /// the internal callee has no path to a `Return`
    CalleeNeverReturns,
    /// the internal callee reads the register only on paths that do not reach a `Return`
    CalleeNonReturningPath,
}
impl Qual {
    pub fn name(self) -> &'static str {
        match self {
            Qual::Plain => "",
            Qual::NoReturnSymbol => " (no_return symbol)",
            Qual::NoReturnTarget => " (call without return target)",
            Qual::NoKnownTargets => " (indirect jump without known targets)",
            Qual::ReturnInstruction => " (return target expression)",
            Qual::CalleeNeverReturns => " (callee never returns)",
            Qual::CalleeNonReturningPath => " (only on a non-returning path of the callee)",
        }
    }
}
impl Kind {
    pub fn name(self) -> &'static str {
        match self {
            Kind::Arithmetic => "read-in-arithmetic",
            Kind::Address => "read-as-address",
            Kind::Condition => "read-in-condition",
            Kind::StoredValue => "read-as-stored-value",
            Kind::JumpTarget => "read-as-jump-target",
            Kind::CallTarget => "read-as-call-target",
            Kind::ExternArgument => "read-by-library-call",
            Kind::InternalArgument => "read-by-internal-callee",
        }
    }
}

#[derive(Clone, PartialEq, Eq, PartialOrd, Ord, Debug)]
struct St {
    regs: BTreeMap<String, Sym>,
    slots: BTreeMap<i64, Sym>,
    escaped: bool,
}

pub struct Conv {
    pub params: Vec<String>,
    pub callee_saved: Vec<String>,
    pub sp: String,
}

#[derive(Clone, Default, PartialEq, Eq, Debug)]
pub struct Summary {
    pub refs: BTreeSet<u8>,
    /// registers read (by an unqualified read) at a point from which a `Return` is still reachable
    pub refs_returning: BTreeSet<u8>,
    pub may_return: bool,
}
#[derive(Clone, Default, Debug)]
pub struct Static {
    /// callee-saved registers written somewhere in the function or (transitively) its callees
    pub clob: BTreeSet<String>,
    /// the function (or a callee) contains a store or calls outside the program
    pub memw: bool,
}

#[derive(Clone, Debug, Serialize)]
pub struct Witness {
    pub at: String,
    pub path: Vec<String>,
}

#[derive(Clone, Default, Debug)]
pub struct FnResult {
    pub reads: BTreeMap<(u8, Kind, Qual), Witness>,
    pub refs_returning: BTreeSet<u8>,
    pub may_return: bool,
    pub states: u64,
}
impl FnResult {
    pub fn refs(&self) -> BTreeSet<u8> {
        self.reads.keys().map(|(r, _, _)| *r).collect()
    }
}

const STACK_BOUND: i64 = 1 << 12;
fn stack(c: i64) -> Sym {
    if c.abs() > STACK_BOUND {
        Sym::StackAny
    } else {
        Sym::Stack(c)
    }
}
fn const_i64(c: &Bitvector) -> Option<i64> {
    let (v, bytes) = props::unbv(c);
    match bytes {
        8 => Some(v as u64 as i64),
        4 => Some(v as u32 as i32 as i64),
        _ => None,
    }
}

impl St {
    fn toks(&self, e: &Expression) -> Vec<u8> {
        let mut vs = Vec::new();
        vars_of(e, &mut vs);
        let mut out: Vec<u8> = vs.iter().filter_map(|v| if let Some(Sym::Tok(i)) = self.regs.get(&v.name) { Some(*i) } else { None }).collect();
        out.sort();
        out.dedup();
        out
    }
    fn stack_derived(&self, e: &Expression) -> bool {
        let mut vs = Vec::new();
        vars_of(e, &mut vs);
        vs.iter().any(|v| matches!(self.regs.get(&v.name), Some(Sym::Stack(_)) | Some(Sym::StackAny)))
    }
    /// `Some(c)` iff the expression is exactly entry-SP + c.
    fn eval_stack(&self, e: &Expression) -> Option<i64> {
        match e {
            Expression::Var(v) => match self.regs.get(&v.name) {
                Some(Sym::Stack(c)) => Some(*c),
                _ => None,
            },
            Expression::BinOp { op: BinOpType::IntAdd, lhs, rhs } => match (&**lhs, &**rhs) {
                (a, Expression::Const(k)) | (Expression::Const(k), a) => Some(self.eval_stack(a)?.checked_add(const_i64(k)?)?),
                _ => None,
            },
            Expression::BinOp { op: BinOpType::IntSub, lhs, rhs } => match (&**lhs, &**rhs) {
                (a, Expression::Const(k)) => Some(self.eval_stack(a)?.checked_sub(const_i64(k)?)?),
                _ => None,
            },
            _ => None,
        }
    }
    /// Symbolic value of a (non-plain) expression, without recording reads.
    fn sym_of(&self, e: &Expression) -> Option<Sym> {
        match e {
            Expression::Var(v) => self.regs.get(&v.name).copied(),
            _ => match self.eval_stack(e) {
                Some(c) => Some(stack(c)),
                None if self.stack_derived(e) => Some(Sym::StackAny),
                None => None,
            },
        }
    }
    fn set(&mut self, v: &Variable, s: Option<Sym>) {
        match s {
            Some(s) => {
                self.regs.insert(v.name.clone(), s);
            }
            None => {
                self.regs.remove(&v.name);
            }
        }
    }
    fn kill_overlapping(&mut self, c: i64, size: i64) {
        self.slots.retain(|k, _| !(*k < c + size && c < *k + 8));
    }
}

struct Explorer<'a> {
    project: &'a Project,
    sub: &'a Term<Sub>,
    conv: &'a Conv,
    summaries: &'a BTreeMap<String, Summary>,
    statics: &'a BTreeMap<String, Static>,
    blk_index: BTreeMap<String, usize>,
    nodes: Vec<(usize, usize)>,
    visited: BTreeMap<(usize, St), usize>,
    queue: VecDeque<(usize, St)>,
    /// explored state graph (child -> parents), nodes ending in a `Return`, unqualified read occurrences
    preds: Vec<Vec<usize>>,
    returning_nodes: Vec<usize>,
    clean_reads: BTreeSet<(u8, usize)>,
    res: FnResult,
}

impl<'a> Explorer<'a> {
    fn record(&mut self, node: usize, regs: &[u8], kind: Kind, at: &Tid) {
        self.record_q(node, regs, kind, Qual::Plain, at)
    }
    fn record_q(&mut self, node: usize, regs: &[u8], kind: Kind, qual: Qual, at: &Tid) {
        for r in regs {
            if qual == Qual::Plain {
                self.clean_reads.insert((*r, node));
            }
            if !self.res.reads.contains_key(&(*r, kind, qual)) {
                let mut path = Vec::new();
                let mut n = node;
                loop {
                    path.push(tid_str(&self.sub.term.blocks[self.nodes[n].0].tid));
                    if self.nodes[n].1 == usize::MAX {
                        break;
                    }
                    n = self.nodes[n].1;
                }
                path.reverse();
                self.res.reads.insert((*r, kind, qual), Witness { at: tid_str(at), path });
            }
        }
    }
    fn push(&mut self, parent: usize, target: &Tid, st: St) {
        if let Some(&bi) = self.blk_index.get(&tid_str(target)) {
            if let Some(&id) = self.visited.get(&(bi, st.clone())) {
                self.preds[id].push(parent);
            } else {
                let id = self.nodes.len();
                self.visited.insert((bi, st.clone()), id);
                self.nodes.push((bi, parent));
                self.preds.push(vec![parent]);
                self.queue.push_back((id, st));
            }
        }
    }
    fn apply_def(&mut self, node: usize, st: &mut St, def: &Term<Def>) {
        match &def.term {
            Def::Assign { var, value } => {
                let s = match value {
                    Expression::Var(_) => st.sym_of(value),
                    _ => {
                        if st.eval_stack(value).is_none() {
                            let t = st.toks(value);
                            self.record(node, &t, Kind::Arithmetic, &def.tid);
                        }
                        st.sym_of(value)
                    }
                };
                st.set(var, s);
            }
            Def::Load { var, address } => {
                let t = st.toks(address);
                self.record(node, &t, Kind::Address, &def.tid);
                let s = match st.eval_stack(address) {
                    Some(c) if c < 0 && u64::from(var.size) == 8 => st.slots.get(&c).copied(),
                    _ => None,
                };
                st.set(var, s);
            }
            Def::Store { address, value } => {
                let t = st.toks(address);
                self.record(node, &t, Kind::Address, &def.tid);
                let size = u64::from(value.bytesize()) as i64;
                let plain = matches!(value, Expression::Var(_));
                let vsym = st.sym_of(value);
                let vt = st.toks(value);
                let stackish = matches!(vsym, Some(Sym::Stack(_)) | Some(Sym::StackAny));
                match st.eval_stack(address) {
                    Some(c) => {
                        st.kill_overlapping(c, size);
                        if !plain && st.eval_stack(value).is_none() {
                            self.record(node, &vt, Kind::Arithmetic, &def.tid);
                        }
                        if c < 0 && size == 8 {
                            if let Some(s) = vsym {
                                st.slots.insert(c, s);
                            }
                        } else if stackish {
                            st.escaped = true;
                        }
                    }
                    None if st.stack_derived(address) || st.escaped => {
                        st.slots.clear();
                        if !plain {
                            self.record(node, &vt, Kind::Arithmetic, &def.tid);
                        }
                        if stackish {
                            st.escaped = true;
                        }
                    }
                    None => {
                        self.record(node, &vt, if plain { Kind::StoredValue } else { Kind::Arithmetic }, &def.tid);
                        if stackish {
                            st.escaped = true;
                        }
                    }
                }
            }
        }
    }
    /// State after a call has returned (x86: the return address has been popped).
    fn after_call(&self, st: &St, extra: Option<&BTreeSet<String>>, keep_slots: bool) -> St {
        let sp = st.regs.get(&self.conv.sp).copied();
        let mut out = st.clone();
        out.regs.retain(|k, _| self.conv.callee_saved.contains(k) && !extra.map(|e| e.contains(k)).unwrap_or(false));
        match sp {
            Some(Sym::Stack(c)) => {
                out.regs.insert(self.conv.sp.clone(), stack(c + 8));
                if keep_slots {
                    out.slots.retain(|k, _| *k >= c);
                } else {
                    out.slots.clear();
                }
            }
            Some(Sym::StackAny) => {
                out.regs.insert(self.conv.sp.clone(), Sym::StackAny);
                out.slots.clear();
            }
            _ => out.slots.clear(),
        }
        out
    }
    fn run(&mut self) {
        let mut init = St { regs: BTreeMap::new(), slots: BTreeMap::new(), escaped: false };
        for (i, p) in self.conv.params.iter().enumerate() {
            init.regs.insert(p.clone(), Sym::Tok(i as u8));
        }
        init.regs.insert(self.conv.sp.clone(), Sym::Stack(0));
        if self.sub.term.blocks.is_empty() {
            return;
        }
        self.visited.insert((0, init.clone()), 0);
        self.nodes.push((0, usize::MAX));
        self.preds.push(Vec::new());
        self.queue.push_back((0, init));
        while let Some((node, st0)) = self.queue.pop_front() {
            self.res.states += 1;
            let sub: &'a Term<Sub> = self.sub;
            let project: &'a Project = self.project;
            let blk = &sub.term.blocks[self.nodes[node].0];
            let mut st = st0;
            for def in &blk.term.defs {
                self.apply_def(node, &mut st, def);
            }
            for j in &blk.term.jmps {
                match &j.term {
                    Jmp::CBranch { target, condition } => {
                        let t = st.toks(condition);
                        self.record(node, &t, Kind::Condition, &j.tid);
                        self.push(node, target, st.clone());
                        continue;
                    }
                    Jmp::Branch(t) => self.push(node, t, st.clone()),
                    Jmp::BranchInd(e) => {
                        let t = st.toks(e);
                        let q = if blk.term.indirect_jmp_targets.is_empty() { Qual::NoKnownTargets } else { Qual::Plain };
                        self.record_q(node, &t, Kind::JumpTarget, q, &j.tid);
                        for h in &blk.term.indirect_jmp_targets {
                            self.push(node, h, st.clone());
                        }
                    }
                    Jmp::Return(e) => {
                        let t = st.toks(e);
                        self.record_q(node, &t, Kind::JumpTarget, Qual::ReturnInstruction, &j.tid);
                        self.res.may_return = true;
                        self.returning_nodes.push(node);
                    }
                    Jmp::Call { target, return_ } => {
                        if let Some(sym) = project.program.term.extern_symbols.get(target) {
                            let mut passes_stack = false;
                            let q = if return_.is_none() {
                                Qual::NoReturnTarget
                            } else if sym.no_return {
                                Qual::NoReturnSymbol
                            } else {
                                Qual::Plain
                            };
                            for p in &sym.parameters {
                                if let Arg::Register { expr, .. } = p {
                                    let t = st.toks(expr);
                                    self.record_q(node, &t, Kind::ExternArgument, q, &j.tid);
                                    passes_stack |= st.stack_derived(expr);
                                }
                            }
                            if !sym.no_return {
                                if let Some(ret) = return_ {
                                    let keep = !passes_stack && !st.escaped;
                                    let mut st2 = self.after_call(&st, None, keep);
                                    st2.escaped |= passes_stack;
                                    self.push(node, ret, st2);
                                }
                            }
                        } else if project.program.term.subs.contains_key(target) {
                            let key = tid_str(target);
                            let summ = self.summaries.get(&key).cloned().unwrap_or_default();
                            let stat = self.statics.get(&key).cloned().unwrap_or_default();
                            for p in &summ.refs {
                                if let Some(Sym::Tok(r)) = st.regs.get(&self.conv.params[*p as usize]) {
                                    let q = if !summ.may_return {
                                        Qual::CalleeNeverReturns
                                    } else if !summ.refs_returning.contains(p) {
                                        Qual::CalleeNonReturningPath
                                    } else {
                                        Qual::Plain
                                    };
                                    let r = *r;
                                    self.record_q(node, &[r], Kind::InternalArgument, q, &j.tid);
                                }
                            }
                            if summ.may_return {
                                if let Some(ret) = return_ {
                                    let hands_stack = self.conv.params.iter().any(|p| matches!(st.regs.get(p), Some(Sym::Stack(_)) | Some(Sym::StackAny)));
                                    let keep = !stat.memw && !st.escaped && !hands_stack;
                                    let st2 = self.after_call(&st, Some(&stat.clob), keep);
                                    self.push(node, ret, st2);
                                }
                            }
                        } else if let Some(ret) = return_ {
                            // unknown target: reads nothing, may clobber everything a callee may clobber
                            let st2 = self.after_call(&st, None, false);
                            self.push(node, ret, st2);
                        }
                    }
                    Jmp::CallInd { target, return_ } => {
                        let t = st.toks(target);
                        self.record(node, &t, Kind::CallTarget, &j.tid);
                        if let Some(ret) = return_ {
                            let st2 = self.after_call(&st, None, false);
                            self.push(node, ret, st2);
                        }
                    }
                    Jmp::CallOther { .. } => (),
                }
                break;
            }
        }
        // nodes from which a Return of this function is reachable in the explored state graph
        let mut reach = vec![false; self.nodes.len()];
        let mut work = self.returning_nodes.clone();
        while let Some(n) = work.pop() {
            if !reach[n] {
                reach[n] = true;
                work.extend(self.preds[n].iter().copied());
            }
        }
        self.res.refs_returning = self.clean_reads.iter().filter(|(_, n)| reach[*n]).map(|(r, _)| *r).collect();
    }
}

fn statics_of(project: &Project, conv: &Conv) -> BTreeMap<String, Static> {
    let subs = &project.program.term.subs;
    let mut direct: BTreeMap<String, (Static, Vec<String>)> = BTreeMap::new();
    for (tid, sub) in subs {
        let mut s = Static::default();
        let mut callees = Vec::new();
        for b in &sub.term.blocks {
            for d in &b.term.defs {
                match &d.term {
                    Def::Assign { var, .. } | Def::Load { var, .. } => {
                        if conv.callee_saved.contains(&var.name) {
                            s.clob.insert(var.name.clone());
                        }
                    }
                    Def::Store { .. } => s.memw = true,
                }
            }
            for j in &b.term.jmps {
                match &j.term {
                    Jmp::Call { target, .. } => {
                        if subs.contains_key(target) {
                            callees.push(tid_str(target));
                        } else {
                            s.memw = true;
                        }
                    }
                    Jmp::CallInd { .. } | Jmp::CallOther { .. } => s.memw = true,
                    _ => (),
                }
            }
        }
        direct.insert(tid_str(tid), (s, callees));
    }
    let mut out: BTreeMap<String, Static> = direct.iter().map(|(k, v)| (k.clone(), v.0.clone())).collect();
    loop {
        let mut changed = false;
        for (k, (_, callees)) in &direct {
            for c in callees {
                let cs = out.get(c).cloned().unwrap_or_default();
                let me = out.get_mut(k).unwrap();
                let before = (me.clob.len(), me.memw);
                me.clob.extend(cs.clob);
                me.memw |= cs.memw;
                changed |= before != (me.clob.len(), me.memw);
            }
        }
        if !changed {
            break;
        }
    }
    out
}

/// The reference result for every function of the project (keyed by the function's TID string).
pub fn reference_sets(project: &Project, conv: &Conv) -> BTreeMap<String, FnResult> {
    let statics = statics_of(project, conv);
    let mut summaries: BTreeMap<String, Summary> = project.program.term.subs.keys().map(|t| (tid_str(t), Summary::default())).collect();
    loop {
        let mut results = BTreeMap::new();
        let mut changed = false;
        for (tid, sub) in &project.program.term.subs {
            let blk_index = sub.term.blocks.iter().enumerate().map(|(i, b)| (tid_str(&b.tid), i)).collect();
            let mut ex = Explorer { project, sub, conv, summaries: &summaries, statics: &statics, blk_index, nodes: Vec::new(), visited: BTreeMap::new(), queue: VecDeque::new(), preds: Vec::new(), returning_nodes: Vec::new(), clean_reads: BTreeSet::new(), res: FnResult::default() };
            ex.run();
            results.insert(tid_str(tid), ex.res);
        }
        for (k, r) in &results {
            let s = Summary { refs: r.refs(), refs_returning: r.refs_returning.clone(), may_return: r.may_return };
            if summaries.get(k) != Some(&s) {
                changed = true;
                summaries.insert(k.clone(), s);
            }
        }
        if !changed {
            return results;
        }
    }
}
