//! Shared program-space generator for C08 (CFG) and C09 (basic normalization).
//!
//! A *program* is described by
//!   * a `shape`: number of blocks per function (functions `FUN_00001000`, `FUN_00002000`, ...;
//!     block `k` of function `f` is `blk_<0x1000*(f+1)+0x10*k>`, so the entry block sits at the
//!     function address as in the extractor's output; a function may have 0 blocks),
//!   * one terminator [`Letter`] per block (global block order = function order, then listing order),
//!   * for C09 one optional [`Irr`] (an irregularity injected into the raw term).
//! There are always two extern symbols: `ext` (returns) and `exit` (`no_return`).
//!
//! The terminator alphabet for a program with `n` blocks and `F` functions:
//!   weight 0: no jump; `Return`
//!   weight 1: `Branch t`; `Call g -> r` for `g` in internal functions, `ext`, `exit` (and a dangling
//!             `FUN_0000dead` when `dangling`), `r` in {none} + targets
//!   weight 2: `CBranch t; Branch t'`; `BranchInd` with every hint subset of size <= 2;
//!             `CallInd -> r`; `CallOther -> r`
//! where targets `t, t', r` and hints range over ALL blocks of the program (own function and other
//! functions, entry and non-entry) plus, when `dangling`, the nonexistent `blk_0000dead`.
//!
//! [`Space`] = all programs of a shape whose letter weights sum to at most `max_weight`
//! (`max_weight >= 2n` is the full product space), with an index <-> program bijection.

#![allow(dead_code)]
use props::ccl::intermediate_representation::*;
use props::irb::*;
use serde::{Deserialize, Serialize};
use std::collections::{BTreeMap, BTreeSet};

#[derive(Serialize, Deserialize, Clone, Debug, PartialEq, Eq, PartialOrd, Ord, Hash)]
pub enum Tgt {
    /// global block index
    B(usize),
    /// `blk_0000dead` (does not exist)
    Dangling,
}

#[derive(Serialize, Deserialize, Clone, Debug, PartialEq, Eq, PartialOrd, Ord, Hash)]
pub enum CallTgt {
    Fun(usize),
    Ext,
    ExtNoReturn,
    /// `FUN_0000dead` (does not exist)
    DanglingFun,
}

#[derive(Serialize, Deserialize, Clone, Debug, PartialEq, Eq, PartialOrd, Ord, Hash)]
pub enum Letter {
    NoJump,
    Return,
    Branch(Tgt),
    CBranch(Tgt, Tgt),
    BranchInd(Vec<Tgt>),
    Call(CallTgt, Option<Tgt>),
    CallInd(Option<Tgt>),
    CallOther(Option<Tgt>),
}

impl Letter {
    pub fn weight(&self) -> usize {
        match self {
            Letter::NoJump | Letter::Return => 0,
            Letter::Branch(_) | Letter::Call(..) => 1,
            Letter::CBranch(..) | Letter::BranchInd(_) | Letter::CallInd(_) | Letter::CallOther(_) => 2,
        }
    }
    pub fn targets(&self) -> Vec<&Tgt> {
        match self {
            Letter::NoJump | Letter::Return => vec![],
            Letter::Branch(t) => vec![t],
            Letter::CBranch(a, b) => vec![a, b],
            Letter::BranchInd(h) => h.iter().collect(),
            Letter::Call(_, r) | Letter::CallInd(r) | Letter::CallOther(r) => r.iter().collect(),
        }
    }
    pub fn has_dangling(&self) -> bool {
        self.targets().iter().any(|t| **t == Tgt::Dangling) || matches!(self, Letter::Call(CallTgt::DanglingFun, _))
    }
}

/// The three weight classes of the alphabet, each in a fixed order.
pub fn alphabet(shape: &[usize], dangling: bool) -> [Vec<Letter>; 3] {
    let n: usize = shape.iter().sum();
    let mut tgts: Vec<Tgt> = (0..n).map(Tgt::B).collect();
    if dangling {
        tgts.push(Tgt::Dangling);
    }
    let mut rets: Vec<Option<Tgt>> = vec![None];
    rets.extend(tgts.iter().cloned().map(Some));
    let mut callees: Vec<CallTgt> = (0..shape.len()).map(CallTgt::Fun).collect();
    callees.push(CallTgt::Ext);
    callees.push(CallTgt::ExtNoReturn);
    if dangling {
        callees.push(CallTgt::DanglingFun);
    }
    let w0 = vec![Letter::NoJump, Letter::Return];
    let mut w1 = Vec::new();
    for t in &tgts {
        w1.push(Letter::Branch(t.clone()));
    }
    for c in &callees {
        for r in &rets {
            w1.push(Letter::Call(c.clone(), r.clone()));
        }
    }
    let mut w2 = Vec::new();
    for a in &tgts {
        for b in &tgts {
            w2.push(Letter::CBranch(a.clone(), b.clone()));
        }
    }
    w2.push(Letter::BranchInd(vec![]));
    for a in 0..tgts.len() {
        w2.push(Letter::BranchInd(vec![tgts[a].clone()]));
    }
    for a in 0..tgts.len() {
        for b in a + 1..tgts.len() {
            w2.push(Letter::BranchInd(vec![tgts[a].clone(), tgts[b].clone()]));
        }
    }
    for r in &rets {
        w2.push(Letter::CallInd(r.clone()));
    }
    for r in &rets {
        w2.push(Letter::CallOther(r.clone()));
    }
    [w0, w1, w2]
}

/// All programs of `shape` with total letter weight <= `max_weight`.
pub struct Space {
    pub shape: Vec<usize>,
    pub dangling: bool,
    pub max_weight: usize,
    pub classes: [Vec<Letter>; 3],
    /// (weight signature, first index of this signature's block)
    sigs: Vec<(Vec<u8>, u64)>,
    pub size: u64,
}

impl Space {
    pub fn new(shape: &[usize], dangling: bool, max_weight: usize) -> Space {
        let classes = alphabet(shape, dangling);
        let n: usize = shape.iter().sum();
        let mut sigs = Vec::new();
        let mut total = 0u64;
        let nsig = 3u64.pow(n as u32);
        for s in 0..nsig {
            let sig: Vec<u8> = mcx::space::decode(s, &vec![3u64; n]).into_iter().map(|x| x as u8).collect();
            if sig.iter().map(|w| *w as usize).sum::<usize>() > max_weight {
                continue;
            }
            let cnt = sig.iter().fold(1u64, |a, w| a.checked_mul(classes[*w as usize].len() as u64).expect("space too large"));
            sigs.push((sig, total));
            total = total.checked_add(cnt).expect("space too large");
        }
        Space { shape: shape.to_vec(), dangling, max_weight, classes, sigs, size: total }
    }
    pub fn n_blocks(&self) -> usize {
        self.shape.iter().sum()
    }
    pub fn alphabet_size(&self) -> usize {
        self.classes.iter().map(|c| c.len()).sum()
    }
    /// index -> program (one letter per block)
    pub fn decode(&self, idx: u64) -> Vec<Letter> {
        assert!(idx < self.size);
        let k = self.sigs.partition_point(|(_, start)| *start <= idx) - 1;
        let (sig, start) = &self.sigs[k];
        let dims: Vec<u64> = sig.iter().map(|w| self.classes[*w as usize].len() as u64).collect();
        let digits = mcx::space::decode(idx - start, &dims);
        sig.iter().zip(digits).map(|(w, d)| self.classes[*w as usize][d].clone()).collect()
    }
    /// program -> index (inverse of `decode`; used by the self test)
    pub fn encode(&self, letters: &[Letter]) -> Option<u64> {
        let sig: Vec<u8> = letters.iter().map(|l| l.weight() as u8).collect();
        let (_, start) = self.sigs.iter().find(|(s, _)| *s == sig)?;
        let mut idx = 0u64;
        let mut mul = 1u64;
        for (w, l) in sig.iter().zip(letters) {
            let class = &self.classes[*w as usize];
            let d = class.iter().position(|x| x == l)? as u64;
            idx += d * mul;
            mul *= class.len() as u64;
        }
        Some(start + idx)
    }
    pub fn describe(&self) -> serde_json::Value {
        serde_json::json!({"shape": self.shape, "dangling_targets": self.dangling, "max_weight": self.max_weight,
            "alphabet_per_block": self.alphabet_size(), "programs": self.size})
    }
}

// ---------------------------------------------------------------- naming

pub fn fun_addr(f: usize) -> u64 {
    0x1000 * (f as u64 + 1)
}
pub fn fun_tid(f: usize) -> Tid {
    let a = format!("{:08x}", fun_addr(f));
    tid_at(&format!("FUN_{a}"), &a)
}
pub fn blk_tid_fk(f: usize, k: usize) -> Tid {
    let a = format!("{:08x}", fun_addr(f) + 0x10 * k as u64);
    tid_at(&format!("blk_{a}"), &a)
}
pub fn dangling_blk_tid() -> Tid {
    tid_at("blk_0000dead", "0000dead")
}
pub fn dangling_fun_tid() -> Tid {
    tid_at("FUN_0000dead", "0000dead")
}
pub fn ext_tid() -> Tid {
    tid_at("FUN_0000e000", "0000e000")
}
pub fn ext_noreturn_tid() -> Tid {
    tid_at("FUN_0000f000", "0000f000")
}
/// global block index -> (function, position)
pub fn locate(shape: &[usize], g: usize) -> (usize, usize) {
    let mut g = g;
    for (f, n) in shape.iter().enumerate() {
        if g < *n {
            return (f, g);
        }
        g -= n;
    }
    panic!("block index out of range")
}
fn tgt_tid(shape: &[usize], t: &Tgt) -> Tid {
    match t {
        Tgt::B(g) => {
            let (f, k) = locate(shape, *g);
            blk_tid_fk(f, k)
        }
        Tgt::Dangling => dangling_blk_tid(),
    }
}

// ---------------------------------------------------------------- irregularities (C09)

#[derive(Serialize, Deserialize, Clone, Debug, PartialEq, Eq, PartialOrd, Ord, Hash)]
pub enum Irr {
    /// block `dst` carries the TID of block `src` (global block indices, any order)
    DupBlk { src: usize, dst: usize },
    /// instruction `dst` carries the TID of instruction `src`; positions count the defs and jumps
    /// of the whole program in program order, `src < dst`
    DupInstr { src: usize, dst: usize },
    /// block `block` is additionally listed (verbatim, at the end) in the non-empty function `into`
    ShareBlk { block: usize, into: usize },
}

/// All single irregularities applicable to the program.
pub fn irregularities(shape: &[usize], letters: &[Letter]) -> Vec<Irr> {
    let n: usize = shape.iter().sum();
    let mut out = Vec::new();
    for src in 0..n {
        for dst in 0..n {
            if src != dst {
                out.push(Irr::DupBlk { src, dst });
            }
        }
    }
    let m: usize = letters.iter().map(|l| 1 + n_jmps(l)).sum();
    for src in 0..m {
        for dst in src + 1..m {
            out.push(Irr::DupInstr { src, dst });
        }
    }
    for block in 0..n {
        let (owner, _) = locate(shape, block);
        for (into, nb) in shape.iter().enumerate() {
            if into != owner && *nb > 0 {
                out.push(Irr::ShareBlk { block, into });
            }
        }
    }
    out
}

fn n_jmps(l: &Letter) -> usize {
    match l {
        Letter::NoJump => 0,
        Letter::CBranch(..) => 2,
        _ => 1,
    }
}

// ---------------------------------------------------------------- building the raw IR

fn jumps_of(shape: &[usize], addr: u64, l: &Letter) -> (Vec<Term<Jmp>>, Vec<Tid>) {
    let a = format!("{:08x}", addr + 4);
    let jt = |i: usize| tid_at(&format!("instr_{a}_{i}"), &a);
    let t = |x: &Tgt| tgt_tid(shape, x);
    let r = |x: &Option<Tgt>| x.as_ref().map(|x| tgt_tid(shape, x));
    let mut hints = Vec::new();
    let jmps = match l {
        Letter::NoJump => vec![],
        Letter::Return => vec![Term { tid: jt(0), term: Jmp::Return(reg("RAX", 8)) }],
        Letter::Branch(x) => vec![Term { tid: jt(0), term: Jmp::Branch(t(x)) }],
        Letter::CBranch(x, y) => vec![
            Term { tid: jt(0), term: Jmp::CBranch { target: t(x), condition: reg("ZF", 1) } },
            Term { tid: jt(1), term: Jmp::Branch(t(y)) },
        ],
        Letter::BranchInd(h) => {
            hints = h.iter().map(t).collect();
            vec![Term { tid: jt(0), term: Jmp::BranchInd(reg("RAX", 8)) }]
        }
        Letter::Call(c, ret) => {
            let target = match c {
                CallTgt::Fun(f) => fun_tid(*f),
                CallTgt::Ext => ext_tid(),
                CallTgt::ExtNoReturn => ext_noreturn_tid(),
                CallTgt::DanglingFun => dangling_fun_tid(),
            };
            vec![Term { tid: jt(0), term: Jmp::Call { target, return_: r(ret) } }]
        }
        Letter::CallInd(ret) => vec![Term { tid: jt(0), term: Jmp::CallInd { target: reg("RBX", 8), return_: r(ret) } }],
        Letter::CallOther(ret) => vec![Term { tid: jt(0), term: Jmp::CallOther { description: "other".into(), return_: r(ret) } }],
    };
    (jmps, hints)
}

/// The raw functions (before any irregularity).
pub fn build_subs(shape: &[usize], letters: &[Letter]) -> Vec<Term<Sub>> {
    assert_eq!(letters.len(), shape.iter().sum::<usize>());
    let mut subs = Vec::new();
    let mut g = 0;
    for (f, nb) in shape.iter().enumerate() {
        let mut blocks = Vec::new();
        for k in 0..*nb {
            let addr = fun_addr(f) + 0x10 * k as u64;
            let a = format!("{addr:08x}");
            let def = Term {
                tid: tid_at(&format!("instr_{a}_0"), &a),
                term: Def::Assign { var: var("RCX", 8), value: add(reg("RCX", 8), cst(g as u128 + 1, 8)) },
            };
            let (jmps, hints) = jumps_of(shape, addr, &letters[g]);
            blocks.push(Term { tid: blk_tid_fk(f, k), term: Blk { defs: vec![def], jmps, indirect_jmp_targets: hints } });
            g += 1;
        }
        let ft = fun_tid(f);
        subs.push(Term { tid: ft.clone(), term: Sub { name: format!("{ft}"), blocks, calling_convention: None } });
    }
    subs
}

pub fn apply_irr(subs: &mut [Term<Sub>], shape: &[usize], irr: &Irr) {
    match irr {
        Irr::DupBlk { src, dst } => {
            let (sf, sk) = locate(shape, *src);
            let (df, dk) = locate(shape, *dst);
            let t = subs[sf].term.blocks[sk].tid.clone();
            subs[df].term.blocks[dk].tid = t;
        }
        Irr::DupInstr { src, dst } => {
            let mut tids: Vec<&mut Tid> = Vec::new();
            for s in subs.iter_mut() {
                for b in s.term.blocks.iter_mut() {
                    for d in b.term.defs.iter_mut() {
                        tids.push(&mut d.tid);
                    }
                    for j in b.term.jmps.iter_mut() {
                        tids.push(&mut j.tid);
                    }
                }
            }
            let t = tids[*src].clone();
            *tids[*dst] = t;
        }
        Irr::ShareBlk { block, into } => {
            let (f, k) = locate(shape, *block);
            let b = subs[f].term.blocks[k].clone();
            subs[*into].term.blocks.push(b);
        }
    }
}

pub fn externs() -> Vec<ExternSymbol> {
    let mut e1 = extern_symbol("x", "ext", vec![arg_reg("RDI", 8)], vec![arg_reg("RAX", 8)], false);
    e1.tid = ext_tid();
    let mut e2 = extern_symbol("x", "exit", vec![arg_reg("RDI", 8)], vec![], true);
    e2.tid = ext_noreturn_tid();
    vec![e1, e2]
}

/// The raw project of a case.
pub fn build_project(shape: &[usize], letters: &[Letter], irr: Option<&Irr>) -> Project {
    let mut subs = build_subs(shape, letters);
    if let Some(irr) = irr {
        apply_irr(&mut subs, shape, irr);
    }
    project_x64(subs, externs())
}

// ---------------------------------------------------------------- independent well-formedness predicate
// (the conclusion of C09 = the precondition of C08), written from the property statements.

/// One broken invariant: (stable class, human readable detail).
pub type Broken = (String, String);

fn jmp_kind(j: &Jmp) -> &'static str {
    match j {
        Jmp::Branch(_) => "Branch",
        Jmp::CBranch { .. } => "CBranch",
        Jmp::BranchInd(_) => "BranchInd",
        Jmp::Call { .. } => "Call",
        Jmp::CallInd { .. } => "CallInd",
        Jmp::CallOther { .. } => "CallOther",
        Jmp::Return(_) => "Return",
    }
}

/// The name the normalization documents for the artificial sink block of a function:
/// `Artificial Sink Block_<function tid>`, unknown address.
pub fn sink_block_tid_of(sub_tid: &Tid) -> Tid {
    Tid::new(format!("Artificial Sink Block_{sub_tid}"))
}

/// Checks on a (normalized) program:
///  * all TIDs (program, subs, blocks, defs, jumps) pairwise distinct,
///  * every direct jump target / hint / return target names an existing block; every call target an
///    existing function or extern symbol,
///  * every intraprocedural target (jump target, hint, return target) is a block of the same function,
///  * a call with a return target whose callee does not return (extern `no_return`, or an internal function
///    without any `Return`) returns to the caller's artificial sink block, which exists in the caller and is a dead end.
pub fn broken_invariants(program: &Term<Program>) -> Vec<Broken> {
    let mut out: Vec<Broken> = Vec::new();
    let p = &program.term;
    // uniqueness
    let mut seen: BTreeMap<&Tid, &'static str> = BTreeMap::new();
    let mut note = |t, kind: &'static str, out: &mut Vec<Broken>| {
        if let Some(prev) = seen.insert(t, kind) {
            out.push((format!("duplicate-tid {prev}/{kind}"), format!("{t}")));
        }
    };
    note(&program.tid, "program", &mut out);
    for s in p.subs.values() {
        note(&s.tid, "sub", &mut out);
    }
    for s in p.subs.values() {
        for b in &s.term.blocks {
            note(&b.tid, "blk", &mut out);
            for d in &b.term.defs {
                note(&d.tid, "def", &mut out);
            }
            for j in &b.term.jmps {
                note(&j.tid, "jmp", &mut out);
            }
        }
    }
    // where do blocks live
    let mut owners: BTreeMap<&Tid, BTreeSet<&Tid>> = BTreeMap::new();
    for s in p.subs.values() {
        for b in &s.term.blocks {
            owners.entry(&b.tid).or_default().insert(&s.tid);
        }
    }
    let returns = |s: &Term<Sub>| s.term.blocks.iter().any(|b| b.term.jmps.iter().any(|j| matches!(j.term, Jmp::Return(_))));
    for s in p.subs.values() {
        let intra = |t: &Tid, what: &str, at: &Tid, out: &mut Vec<Broken>| match owners.get(t) {
            None => out.push((format!("dangling-target {what}"), format!("{at} -> {t} in {}", s.tid))),
            Some(o) if !o.contains(&s.tid) => out.push((format!("foreign-target {what}"), format!("{at} -> {t} in {}", s.tid))),
            _ => (),
        };
        for b in &s.term.blocks {
            for h in &b.term.indirect_jmp_targets {
                intra(h, "hint", &b.tid, &mut out);
            }
            for j in &b.term.jmps {
                let kind = jmp_kind(&j.term);
                match &j.term {
                    Jmp::Branch(t) | Jmp::CBranch { target: t, .. } => intra(t, kind, &j.tid, &mut out),
                    Jmp::Call { return_, .. } | Jmp::CallInd { return_, .. } | Jmp::CallOther { return_, .. } => {
                        if let Some(r) = return_ {
                            intra(r, &format!("{kind}-return"), &j.tid, &mut out);
                        }
                    }
                    Jmp::BranchInd(_) | Jmp::Return(_) => (),
                }
                if let Jmp::Call { target, return_ } = &j.term {
                    let callee_returns = if let Some(e) = p.extern_symbols.get(target) {
                        Some(!e.no_return)
                    } else {
                        p.subs.get(target).map(returns)
                    };
                    match callee_returns {
                        None => out.push(("dangling-target Call".to_string(), format!("{} -> {target} in {}", j.tid, s.tid))),
                        Some(false) => {
                            if let Some(r) = return_ {
                                let sink = sink_block_tid_of(&s.tid);
                                let sink_ok = s
                                    .term
                                    .blocks
                                    .iter()
                                    .any(|b| b.tid == sink && b.term.jmps.is_empty() && b.term.defs.is_empty());
                                if *r != sink || !sink_ok {
                                    let callee = if p.extern_symbols.contains_key(target) { "extern" } else { "internal" };
                                    out.push((
                                        format!("nonreturning-call-not-to-sink {callee}"),
                                        format!("{} -> {target} returns to {r} in {} (sink present and empty: {sink_ok})", j.tid, s.tid),
                                    ));
                                }
                            }
                        }
                        Some(true) => (),
                    }
                }
            }
        }
    }
    out
}

/// Panic site `file:line` of a caught panic message, with the path made relative to the repository
/// (so that the violation class does not depend on where the tree under test is checked out).
pub fn site(panic_msg: &str) -> String {
    let s = mcx::panic_site(panic_msg);
    match s.find("src/cwe_checker_lib/") {
        Some(i) => s[i..].to_string(),
        None => s,
    }
}

/// Block-shape precondition of the CFG builder's documentation: 0, 1 or 2 jumps; with two jumps the first is
/// conditional and the second an unconditional direct/indirect jump.
pub fn block_shapes_ok(program: &Term<Program>) -> bool {
    program.term.subs.values().all(|s| {
        s.term.blocks.iter().all(|b| match b.term.jmps.as_slice() {
            [] | [_] => true,
            [a, b] => matches!(a.term, Jmp::CBranch { .. }) && matches!(b.term, Jmp::Branch(_) | Jmp::BranchInd(_)),
            _ => false,
        })
    })
}
