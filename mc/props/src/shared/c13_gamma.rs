//! C13 helper: reading abstract values of the pointer inference and deciding
//! concretisation membership (gamma), written from the property statement:
//!
//! * `contains_top`  => every value is represented;
//! * absolute value  => strided signed interval membership;
//! * `(id, offset)`  => `value - entry(id)` is a member of `offset`, where `entry(id)` is
//!     - the entry value of the register for a parameter-register id,
//!     - the entry stack pointer for the stack id of the function (the same rule: the
//!       stack id *is* the register id of the stack pointer register),
//!     - the value found in the *initial* memory for nested parameter ids,
//!     - 0 for the global memory id (offsets are absolute addresses);
//!   identifiers that cannot be grounded (foreign time stamp, path hints, non-zero global
//!   base) make the value count as "anything" (reported as a statistic).
//!
//! Nothing in here calls transfer functions of the code under test. `DataDomain` is read
//! through its public accessors (its serde form has struct-keyed maps and cannot go through
//! JSON), `IntervalDomain` (private fields) through its serde form.
#![allow(dead_code)]

use props::ccl::abstract_domain::{AbstractIdentifier, AbstractLocation, AbstractMemoryLocation, DataDomain, IntervalDomain, SizedDomain};
use props::ccl::intermediate_representation::{Tid, Variable};
use props::ir_interp::Machine;
use serde::Deserialize;

/// A strided interval of signed numbers of `bits` width: {s, s+stride, ..} up to e.
#[derive(Clone, Debug, PartialEq, Eq)]
pub struct AbsIv {
    pub bits: u32,
    pub s: i128,
    pub e: i128,
    pub stride: u64,
}

#[derive(Deserialize)]
struct MBv {
    width: (u32,),
    digits: Vec<u64>,
}
#[derive(Deserialize)]
struct MInterval {
    start: MBv,
    end: MBv,
    stride: u64,
}
#[derive(Deserialize)]
struct MDomain {
    interval: MInterval,
}

fn mask_bits(bits: u32) -> u128 {
    if bits >= 128 {
        u128::MAX
    } else {
        (1u128 << bits) - 1
    }
}
pub fn to_signed(v: u128, bits: u32) -> i128 {
    let v = v & mask_bits(bits);
    if bits < 128 && (v >> (bits - 1)) & 1 == 1 {
        (v as i128) - (1i128 << bits)
    } else {
        v as i128
    }
}
fn mbv(b: &MBv) -> (u128, u32) {
    let bits = b.width.0;
    if bits == 0 || bits > 128 || b.digits.len() != ((bits as usize) + 63) / 64 {
        mcx::machinery("unexpected bitvector shape in a serialized interval");
    }
    let mut v = b.digits[0] as u128;
    if b.digits.len() == 2 {
        v |= (b.digits[1] as u128) << 64;
    }
    (v & mask_bits(bits), bits)
}

pub fn read_interval(d: &IntervalDomain) -> AbsIv {
    let j = serde_json::to_value(d).unwrap_or_else(|e| mcx::machinery(&format!("cannot serialize IntervalDomain: {e}")));
    let m: MDomain = serde_json::from_value(j).unwrap_or_else(|e| mcx::machinery(&format!("unexpected serde shape of IntervalDomain: {e}")));
    let (s, bs) = mbv(&m.interval.start);
    let (e, be) = mbv(&m.interval.end);
    if bs != be {
        mcx::machinery("interval bounds of different widths");
    }
    AbsIv { bits: bs, s: to_signed(s, bs), e: to_signed(e, be), stride: m.interval.stride }
}

impl AbsIv {
    /// Is the raw value `v` (of the interval's width) represented?
    pub fn contains(&self, v: u128) -> bool {
        let x = to_signed(v, self.bits);
        if x < self.s || x > self.e {
            return false;
        }
        if x == self.s {
            return true;
        }
        self.stride > 0 && ((x - self.s) as u128) % (self.stride as u128) == 0
    }
    pub fn is_full(&self) -> bool {
        self.stride == 1 && self.s == to_signed(1u128 << (self.bits - 1), self.bits) && self.e == to_signed(mask_bits(self.bits) >> 1, self.bits)
    }
    pub fn render(&self) -> String {
        if self.is_full() {
            format!("Top:i{}", self.bits)
        } else if self.stride == 0 && self.s == self.e {
            format!("{{{}}}", self.s)
        } else {
            format!("[{},{};{}]", self.s, self.e, self.stride)
        }
    }
}

/// One abstract register value, read once per (node, register).
#[derive(Clone, Debug)]
pub struct AbsVal {
    pub bytes: u32,
    pub top: bool,
    pub abs: Option<AbsIv>,
    pub rel: Vec<(AbstractIdentifier, AbsIv)>,
}

pub fn read_data(d: &DataDomain<IntervalDomain>) -> AbsVal {
    AbsVal {
        bytes: u64::from(d.bytesize()) as u32,
        top: d.contains_top(),
        abs: d.get_absolute_value().map(read_interval),
        rel: d.get_relative_values().iter().map(|(id, off)| (id.clone(), read_interval(off))).collect(),
    }
}

impl AbsVal {
    pub fn render(&self) -> String {
        let mut parts = Vec::new();
        for (id, off) in &self.rel {
            parts.push(format!("({id}) + {}", off.render()));
        }
        if let Some(a) = &self.abs {
            parts.push(format!("abs {}", a.render()));
        }
        if self.top {
            parts.push("Top".to_string());
        }
        if parts.is_empty() {
            parts.push("Empty".to_string());
        }
        format!("{}:{}", parts.join(" | "), self.bytes)
    }
    /// No value at all is represented.
    pub fn is_empty(&self) -> bool {
        !self.top && self.abs.is_none() && self.rel.is_empty()
    }
}

/// The concrete entry state of a run: registers at function entry and the initial memory.
pub struct Entry<'a> {
    pub machine: &'a Machine,
    pub fn_tid: &'a Tid,
}

fn ground_mem(m: &Machine, base: u128, loc: &AbstractMemoryLocation, ptr_bytes: u32) -> u128 {
    match loc {
        AbstractMemoryLocation::Location { offset, size } => {
            let a = (base as u64).wrapping_add(*offset as u64);
            m.load(a, u64::from(*size) as u32)
        }
        AbstractMemoryLocation::Pointer { offset, target } => {
            let a = (base as u64).wrapping_add(*offset as u64);
            let p = m.load(a, ptr_bytes);
            ground_mem(m, p, target, ptr_bytes)
        }
    }
}

impl<'a> Entry<'a> {
    /// `entry(id)`; `None` if the identifier cannot be grounded in the entry state.
    /// `self.machine` must be the machine *at function entry* (no writes yet).
    pub fn ground(&self, id: &AbstractIdentifier) -> Option<u128> {
        if id.get_tid() != self.fn_tid || !id.get_path_hints().is_empty() {
            return None;
        }
        let m = self.machine;
        match id.get_location() {
            AbstractLocation::Register(v) => Some(m.read_var(v)),
            AbstractLocation::Pointer(v, loc) => Some(ground_mem(m, m.read_var(v), loc, m.ptr_bytes)),
            AbstractLocation::GlobalAddress { address, .. } => {
                if *address == 0 {
                    Some(0)
                } else {
                    None
                }
            }
            AbstractLocation::GlobalPointer(address, loc) => Some(ground_mem(m, *address as u128, loc, m.ptr_bytes)),
        }
    }
}

#[derive(Clone, Debug, PartialEq, Eq)]
pub enum Member {
    /// represented by a component whose meaning is fully known
    Yes,
    /// only "represented" because a component could not be grounded / top flag
    YesByTop,
    YesByUngroundable,
    No,
}

/// Is the raw register value `v` of register `var` in gamma(abs) for this entry state?
pub fn member(abs: &AbsVal, var: &Variable, v: u128, entry: &Entry) -> Member {
    let bits = u64::from(var.size) as u32 * 8;
    let mut ungroundable = false;
    if let Some(a) = &abs.abs {
        if a.bits == bits && a.contains(v) {
            return Member::Yes;
        }
    }
    for (id, off) in &abs.rel {
        match entry.ground(id) {
            Some(base) => {
                let diff = v.wrapping_sub(base) & mask_bits(bits);
                if off.bits == bits && off.contains(diff) {
                    return Member::Yes;
                }
            }
            None => ungroundable = true,
        }
    }
    if abs.top {
        return Member::YesByTop;
    }
    if ungroundable {
        return Member::YesByUngroundable;
    }
    Member::No
}
