//! Shared helpers for C06: specifications of string-domain values whose serde
//! shape equals the repository's (so they can be turned into real objects and
//! read back through `serde_json`), and the *bounded concretisation* oracle:
//!
//! `L6(x)` = all strings of length <= 6 over {a,b} in the language of `x`, held
//! as a 127-bit set. Written from the documentation of the bricks domain
//! ("[S]^{min,max} = all concatenations of between min and max elements of S",
//! a list of bricks = concatenation of the bricks' languages, Top brick = all
//! strings, Top = all strings). No code of the repository is used here.
#![allow(dead_code)]

use serde::{Deserialize, Serialize};
use std::collections::BTreeSet;

pub const MAXLEN: u32 = 6;
/// Bit `i` = the string with index `i`; index = (2^len - 1) + value (a=0, b=1, first char most significant).
pub type Lang = u128;
pub const N_STRINGS: u32 = (1 << (MAXLEN + 1)) - 1; // 127
pub const ALL: Lang = (1u128 << N_STRINGS) - 1;
pub const EPS: Lang = 1;

fn off(len: u32) -> u32 {
    (1 << len) - 1
}
/// Index of `s`, `None` if it is longer than the bound or uses another character.
pub fn idx(s: &str) -> Option<u32> {
    if s.len() as u32 > MAXLEN {
        return None;
    }
    let mut v = 0u32;
    for c in s.chars() {
        v = v << 1
            | match c {
                'a' => 0,
                'b' => 1,
                _ => return None,
            };
    }
    Some(off(s.len() as u32) + v)
}
pub fn str_of(i: u32) -> String {
    let len = (0..=MAXLEN).rev().find(|l| off(*l) <= i).unwrap();
    let v = i - off(len);
    (0..len).rev().map(|k| if v >> k & 1 == 1 { 'b' } else { 'a' }).collect()
}
pub fn members(l: Lang) -> Vec<String> {
    (0..N_STRINGS).filter(|i| l >> i & 1 == 1).map(str_of).collect()
}
/// A short rendering of a language for violation details.
pub fn show(l: Lang) -> String {
    if l == ALL {
        return "ALL(<=6)".into();
    }
    let m = members(l);
    let head: Vec<String> = m.iter().take(12).map(|s| format!("{s:?}")).collect();
    format!("{{{}{}}} ({} strings)", head.join(","), if m.len() > 12 { ",..." } else { "" }, m.len())
}
/// All concatenations `s·t`, `s ∈ a`, `t ∈ b`, of length <= 6.
pub fn concat(a: Lang, b: Lang) -> Lang {
    let mut out: Lang = 0;
    let mut rest = a;
    while rest != 0 {
        let i = rest.trailing_zeros();
        rest &= rest - 1;
        let len = (0..=MAXLEN).rev().find(|l| off(*l) <= i).unwrap();
        let v = (i - off(len)) as u128;
        for m in 0..=(MAXLEN - len) {
            // the block of `b` holding the strings of length m
            let block = (b >> off(m)) & ((1u128 << (1u32 << m)) - 1);
            if block != 0 {
                out |= block << (off(len + m) as u128 + (v << m)) as u32;
            }
        }
    }
    out
}

/// Language (<= 6) of one brick `[S]^{min,max}`.
pub fn brick_lang<'a>(seq: impl Iterator<Item = &'a str>, min: u64, max: u64) -> Lang {
    if min > max {
        return 0;
    }
    let mut s: Lang = 0;
    for x in seq {
        if let Some(i) = idx(x) {
            s |= 1u128 << i;
        }
        // longer strings (or strings over other characters) cannot occur inside a string of L6
    }
    // p[k] = S^k cut at 6, k = 0..=7; S^k = S^7 (cut) for all k >= 7:
    // with "" in S the powers grow and are saturated at k = 6; without, S^k has only strings of length >= k.
    let mut p = [0u128; 8];
    p[0] = EPS;
    for k in 1..8 {
        p[k] = concat(p[k - 1], s);
    }
    let mut out = 0;
    for k in 0..7u64 {
        if min <= k && k <= max {
            out |= p[k as usize];
        }
    }
    if max >= 7 {
        out |= p[7];
    }
    out
}

// ------------------------------------------------------------------ specifications (serde shape = repository's)

#[derive(Serialize, Deserialize, Clone, Debug, PartialEq, Eq, PartialOrd, Ord, Hash)]
pub struct BrickFields {
    pub sequence: BTreeSet<String>,
    pub min: u32,
    pub max: u32,
}
#[derive(Serialize, Deserialize, Clone, Debug, PartialEq, Eq, PartialOrd, Ord, Hash)]
pub enum BrickSpec {
    Top,
    Value(BrickFields),
}
#[derive(Serialize, Deserialize, Clone, Debug, PartialEq, Eq, PartialOrd, Ord, Hash)]
pub enum BricksSpec {
    Top,
    Value(Vec<BrickSpec>),
}
impl BrickSpec {
    pub fn lang(&self) -> Lang {
        match self {
            BrickSpec::Top => ALL,
            BrickSpec::Value(f) => brick_lang(f.sequence.iter().map(|s| s.as_str()), f.min as u64, f.max as u64),
        }
    }
}
impl BricksSpec {
    pub fn lang(&self) -> Lang {
        match self {
            BricksSpec::Top => ALL,
            BricksSpec::Value(bricks) => bricks.iter().fold(EPS, |acc, b| concat(acc, b.lang())),
        }
    }
    pub fn len(&self) -> usize {
        match self {
            BricksSpec::Top => 0,
            BricksSpec::Value(b) => b.len(),
        }
    }
}

pub const INF: u32 = u32::MAX;
/// The (min,max) alphabet of DESIGN §C06.
pub const MINMAX: [(u32, u32); 9] = [(0, 0), (0, 1), (1, 1), (0, 2), (1, 2), (2, 2), (1, 3), (0, INF), (1, INF)];
pub const ELEMS: [&str; 4] = ["", "a", "b", "ab"];

pub fn brick(set_mask: u32, mm: (u32, u32)) -> BrickSpec {
    let sequence = (0..4).filter(|i| set_mask >> i & 1 == 1).map(|i| ELEMS[i as usize].to_string()).collect();
    BrickSpec::Value(BrickFields { sequence, min: mm.0, max: mm.1 })
}
/// Full brick alphabet: Top and every subset of {"", a, b, ab} with every (min,max) — 145 bricks.
pub fn brick_alphabet_full() -> Vec<BrickSpec> {
    let mut v = vec![BrickSpec::Top];
    for m in 0..16 {
        for mm in MINMAX {
            v.push(brick(m, mm));
        }
    }
    v
}
/// Reduced alphabet: given subsets (as masks over ELEMS) x given (min,max), plus Top.
pub fn brick_alphabet(masks: &[u32], mms: &[(u32, u32)]) -> Vec<BrickSpec> {
    let mut v = vec![BrickSpec::Top];
    for &m in masks {
        for &mm in mms {
            v.push(brick(m, mm));
        }
    }
    v
}

// ------------------------------------------------------------------ character inclusion

#[derive(Serialize, Deserialize, Clone, Debug, PartialEq, Eq, PartialOrd, Ord, Hash)]
pub enum CharSetSpec {
    Top,
    Value(BTreeSet<char>),
}
#[derive(Serialize, Deserialize, Clone, Debug, PartialEq, Eq, PartialOrd, Ord, Hash)]
pub enum CiSpec {
    Top,
    Value((CharSetSpec, CharSetSpec)),
}
/// A string is represented iff certain ⊆ chars(s) ⊆ possible. Only the character *set* of a string
/// matters, so γ is held as a set of character sets over {a, b, c, other}: bit `t` of the u16 is the
/// character set with mask `t` (a=1, b=2, c=4, any other character=8).
pub type CiG = u16;
fn cmask(c: char) -> u16 {
    match c {
        'a' => 1,
        'b' => 2,
        'c' => 4,
        _ => 8,
    }
}
pub fn charset_mask(s: &BTreeSet<char>) -> u16 {
    s.iter().fold(0, |m, c| m | cmask(*c))
}
impl CiSpec {
    pub fn gamma(&self) -> CiG {
        match self {
            CiSpec::Top => u16::MAX,
            CiSpec::Value((certain, possible)) => {
                let c = match certain {
                    CharSetSpec::Top => return 0, // "certainly every character": no finite string; not enumerated
                    CharSetSpec::Value(s) => charset_mask(s),
                };
                let p = match possible {
                    CharSetSpec::Top => 15,
                    CharSetSpec::Value(s) => charset_mask(s),
                };
                (0..16u16).filter(|t| c & !t == 0 && t & !p == 0).fold(0, |g, t| g | 1 << t)
            }
        }
    }
}
/// { T1 ∪ T2 | T1 ∈ x, T2 ∈ y }: the character sets of all concatenations.
pub fn ci_concat(x: CiG, y: CiG) -> CiG {
    let mut out = 0;
    for t1 in 0..16 {
        if x >> t1 & 1 == 1 {
            for t2 in 0..16 {
                if y >> t2 & 1 == 1 {
                    out |= 1 << (t1 | t2);
                }
            }
        }
    }
    out
}

// ------------------------------------------------------------------ self check

pub fn self_check() -> Result<u64, String> {
    let mut n = 0;
    // index <-> string bijection
    for i in 0..N_STRINGS {
        if idx(&str_of(i)) != Some(i) {
            return Err(format!("index bijection broken at {i}"));
        }
        n += 1;
    }
    // concat against the naive definition on all pairs of singletons
    for i in 0..N_STRINGS {
        for j in 0..N_STRINGS {
            let s = str_of(i) + &str_of(j);
            let want = idx(&s).map(|k| 1u128 << k).unwrap_or(0);
            if concat(1 << i, 1 << j) != want {
                return Err(format!("concat({:?},{:?}) wrong", str_of(i), str_of(j)));
            }
            n += 1;
        }
    }
    let set = |v: &[&str]| -> Lang { v.iter().map(|s| 1u128 << idx(s).unwrap()).sum() };
    let bl = |v: &[&str], min, max| brick_lang(v.iter().copied(), min, max);
    // golden vectors from the module documentation of bricks/brick.rs and bricks.rs
    let golden: Vec<(Lang, Lang, &str)> = vec![
        (bl(&["ab", "ba"], 1, 2), set(&["ab", "ba", "abab", "baba", "abba", "baab"]), "[{mo,de}]^{1,2} pattern"),
        (bl(&["a"], 2, 5), set(&["aa", "aaa", "aaaa", "aaaaa"]), "[{a}]^{2,5}"),
        (bl(&[], 0, 0), EPS, "[{}]^{0,0} is the empty string"),
        (bl(&[], 1, 1), 0, "[{}]^{1,1} has no string"),
        (bl(&["a"], 0, INF as u64), set(&["", "a", "aa", "aaa", "aaaa", "aaaaa", "aaaaaa"]), "[{a}]^{0,inf}"),
        (bl(&["", "ab"], 1, 1), set(&["", "ab"]), "[{\"\",ab}]^{1,1}"),
        (bl(&["", "ab"], 3, 3), set(&["", "ab", "abab", "ababab"]), "[{\"\",ab}]^{3,3}"),
        (bl(&["ab"], 4, 9), 0, "[{ab}]^{4,9} is longer than 6"),
        (concat(set(&["a", "ab"]), set(&["b", ""])), set(&["ab", "a", "abb"]), "concat"),
    ];
    for (got, want, what) in golden {
        if got != want {
            return Err(format!("golden vector '{what}' failed: {} != {}", show(got), show(want)));
        }
        n += 1;
    }
    let ci = |c: &str, p: Option<&str>| CiSpec::Value((CharSetSpec::Value(c.chars().collect()), p.map_or(CharSetSpec::Top, |p| CharSetSpec::Value(p.chars().collect()))));
    if ci("a", Some("ab")).gamma() != (1 << 1 | 1 << 3) || ci("", None).gamma() != u16::MAX || ci("ab", Some("a")).gamma() != 0 {
        return Err("character-inclusion γ golden vector failed".into());
    }
    Ok(n)
}
