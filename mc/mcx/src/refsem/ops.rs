//! Ghidra P-Code integer operation semantics on values held in `u128` with an
//! explicit byte width (1..=16), written from the P-Code reference manual.
//!
//! `None` means "undefined by the reference" (division by zero).

#[derive(Clone, Copy, Debug, PartialEq, Eq, Hash, PartialOrd, Ord)]
pub enum Bin {
    Piece,
    IntEqual,
    IntNotEqual,
    IntLess,
    IntSLess,
    IntLessEqual,
    IntSLessEqual,
    IntAdd,
    IntSub,
    IntCarry,
    IntSCarry,
    IntSBorrow,
    IntXor,
    IntAnd,
    IntOr,
    IntLeft,
    IntRight,
    IntSRight,
    IntMult,
    IntDiv,
    IntRem,
    IntSDiv,
    IntSRem,
    BoolXor,
    BoolAnd,
    BoolOr,
}

pub const ALL_BIN: [Bin; 26] = [
    Bin::Piece,
    Bin::IntEqual,
    Bin::IntNotEqual,
    Bin::IntLess,
    Bin::IntSLess,
    Bin::IntLessEqual,
    Bin::IntSLessEqual,
    Bin::IntAdd,
    Bin::IntSub,
    Bin::IntCarry,
    Bin::IntSCarry,
    Bin::IntSBorrow,
    Bin::IntXor,
    Bin::IntAnd,
    Bin::IntOr,
    Bin::IntLeft,
    Bin::IntRight,
    Bin::IntSRight,
    Bin::IntMult,
    Bin::IntDiv,
    Bin::IntRem,
    Bin::IntSDiv,
    Bin::IntSRem,
    Bin::BoolXor,
    Bin::BoolAnd,
    Bin::BoolOr,
];

impl Bin {
    /// P-Code mnemonic.
    pub fn mnemonic(self) -> &'static str {
        match self {
            Bin::Piece => "PIECE",
            Bin::IntEqual => "INT_EQUAL",
            Bin::IntNotEqual => "INT_NOTEQUAL",
            Bin::IntLess => "INT_LESS",
            Bin::IntSLess => "INT_SLESS",
            Bin::IntLessEqual => "INT_LESSEQUAL",
            Bin::IntSLessEqual => "INT_SLESSEQUAL",
            Bin::IntAdd => "INT_ADD",
            Bin::IntSub => "INT_SUB",
            Bin::IntCarry => "INT_CARRY",
            Bin::IntSCarry => "INT_SCARRY",
            Bin::IntSBorrow => "INT_SBORROW",
            Bin::IntXor => "INT_XOR",
            Bin::IntAnd => "INT_AND",
            Bin::IntOr => "INT_OR",
            Bin::IntLeft => "INT_LEFT",
            Bin::IntRight => "INT_RIGHT",
            Bin::IntSRight => "INT_SRIGHT",
            Bin::IntMult => "INT_MULT",
            Bin::IntDiv => "INT_DIV",
            Bin::IntRem => "INT_REM",
            Bin::IntSDiv => "INT_SDIV",
            Bin::IntSRem => "INT_SREM",
            Bin::BoolXor => "BOOL_XOR",
            Bin::BoolAnd => "BOOL_AND",
            Bin::BoolOr => "BOOL_OR",
        }
    }
    pub fn from_mnemonic(m: &str) -> Option<Bin> {
        ALL_BIN.iter().copied().find(|b| b.mnemonic() == m)
    }
    /// Lower-cased mnemonic without underscores, e.g. "intsborrow"; used to map
    /// foreign enum names (`IntSBorrow`, `IntXOr`) onto this table by *name*.
    pub fn from_loose_name(name: &str) -> Option<Bin> {
        let n: String = name.chars().filter(|c| *c != '_').collect::<String>().to_lowercase();
        ALL_BIN.iter().copied().find(|b| b.mnemonic().replace('_', "").to_lowercase() == n)
    }
    pub fn is_comparison_like(self) -> bool {
        matches!(
            self,
            Bin::IntEqual
                | Bin::IntNotEqual
                | Bin::IntLess
                | Bin::IntSLess
                | Bin::IntLessEqual
                | Bin::IntSLessEqual
                | Bin::IntCarry
                | Bin::IntSCarry
                | Bin::IntSBorrow
        )
    }
    pub fn is_bool(self) -> bool {
        matches!(self, Bin::BoolXor | Bin::BoolAnd | Bin::BoolOr)
    }
    pub fn is_shift(self) -> bool {
        matches!(self, Bin::IntLeft | Bin::IntRight | Bin::IntSRight)
    }
}

#[derive(Clone, Copy, Debug, PartialEq, Eq, Hash, PartialOrd, Ord)]
pub enum Un {
    IntNegate, // bitwise complement
    Int2Comp,  // arithmetic negation
    BoolNegate,
}
pub const ALL_UN: [Un; 3] = [Un::IntNegate, Un::Int2Comp, Un::BoolNegate];

#[derive(Clone, Copy, Debug, PartialEq, Eq, Hash, PartialOrd, Ord)]
pub enum Cast {
    IntZExt,
    IntSExt,
    PopCount,
    LzCount,
}
pub const ALL_CAST: [Cast; 4] = [Cast::IntZExt, Cast::IntSExt, Cast::PopCount, Cast::LzCount];

/// Mask with the low `bytes*8` bits set.
pub fn mask(bytes: u32) -> u128 {
    assert!(bytes >= 1 && bytes <= 16);
    if bytes == 16 {
        u128::MAX
    } else {
        (1u128 << (bytes * 8)) - 1
    }
}
pub fn bits(bytes: u32) -> u32 {
    bytes * 8
}
pub fn sign_bit(v: u128, bytes: u32) -> bool {
    (v >> (bits(bytes) - 1)) & 1 == 1
}
/// Interpret the `bytes`-wide value as a signed number (as i128; for 16 bytes
/// this is the two's complement reinterpretation).
pub fn to_signed(v: u128, bytes: u32) -> i128 {
    let v = v & mask(bytes);
    if bytes == 16 {
        v as i128
    } else if sign_bit(v, bytes) {
        (v as i128) - (1i128 << bits(bytes))
    } else {
        v as i128
    }
}
pub fn from_signed(v: i128, bytes: u32) -> u128 {
    (v as u128) & mask(bytes)
}

/// Result width in bytes of a binary operation on operands of `wl`/`wr` bytes.
pub fn bin_width(op: Bin, wl: u32, wr: u32) -> u32 {
    match op {
        Bin::Piece => wl + wr,
        o if o.is_comparison_like() || o.is_bool() => 1,
        _ => wl,
    }
}

/// Evaluate a binary operation. `wl`, `wr` are the operand byte widths
/// (they differ only for PIECE and for shift amounts).
pub fn bin(op: Bin, a: u128, wl: u32, b: u128, wr: u32) -> Option<u128> {
    let a = a & mask(wl);
    let b = b & mask(wr);
    let m = mask(wl);
    let n = bits(wl);
    let bool_of = |x: bool| Some(x as u128);
    match op {
        Bin::Piece => {
            assert!(wl + wr <= 16);
            Some((a << bits(wr)) | b)
        }
        Bin::IntEqual => bool_of(a == b),
        Bin::IntNotEqual => bool_of(a != b),
        Bin::IntLess => bool_of(a < b),
        Bin::IntLessEqual => bool_of(a <= b),
        Bin::IntSLess => bool_of(to_signed(a, wl) < to_signed(b, wr)),
        Bin::IntSLessEqual => bool_of(to_signed(a, wl) <= to_signed(b, wr)),
        Bin::IntAdd => Some(a.wrapping_add(b) & m),
        Bin::IntSub => Some(a.wrapping_sub(b) & m),
        Bin::IntCarry => {
            // unsigned overflow of a + b in n bits
            if wl == 16 {
                bool_of(a.checked_add(b).is_none())
            } else {
                bool_of(a + b > m)
            }
        }
        Bin::IntSCarry => {
            // signed overflow of a + b: operands have equal sign and the result's differs
            let r = a.wrapping_add(b) & m;
            let (sa, sb, sr) = (sign_bit(a, wl), sign_bit(b, wl), sign_bit(r, wl));
            bool_of(sa == sb && sr != sa)
        }
        Bin::IntSBorrow => {
            // signed overflow of a - b: operands have different sign and the result's differs from a's
            let r = a.wrapping_sub(b) & m;
            let (sa, sb, sr) = (sign_bit(a, wl), sign_bit(b, wl), sign_bit(r, wl));
            bool_of(sa != sb && sr != sa)
        }
        Bin::IntXor | Bin::BoolXor => Some(a ^ b),
        Bin::IntAnd | Bin::BoolAnd => Some(a & b),
        Bin::IntOr | Bin::BoolOr => Some(a | b),
        Bin::IntLeft => {
            if b >= n as u128 {
                Some(0)
            } else {
                Some((a << (b as u32)) & m)
            }
        }
        Bin::IntRight => {
            if b >= n as u128 {
                Some(0)
            } else {
                Some(a >> (b as u32))
            }
        }
        Bin::IntSRight => {
            let neg = sign_bit(a, wl);
            if b >= n as u128 {
                Some(if neg { m } else { 0 })
            } else {
                let sh = b as u32;
                let mut r = a >> sh;
                if neg && sh > 0 {
                    // fill the vacated high bits with ones
                    let fill = m & !(m >> sh);
                    r |= fill;
                }
                Some(r & m)
            }
        }
        Bin::IntMult => Some(a.wrapping_mul(b) & m),
        Bin::IntDiv => {
            if b == 0 {
                None
            } else {
                Some(a / b)
            }
        }
        Bin::IntRem => {
            if b == 0 {
                None
            } else {
                Some(a % b)
            }
        }
        Bin::IntSDiv => {
            if b == 0 {
                None
            } else {
                let (x, y) = (to_signed(a, wl), to_signed(b, wr));
                // truncating division; MIN / -1 wraps to MIN in n bits
                Some(from_signed(x.wrapping_div(y), wl))
            }
        }
        Bin::IntSRem => {
            if b == 0 {
                None
            } else {
                let (x, y) = (to_signed(a, wl), to_signed(b, wr));
                Some(from_signed(x.wrapping_rem(y), wl))
            }
        }
    }
}

/// Is this the signed `MIN / -1` (or `MIN % -1`) corner, on which the manual is silent?
pub fn is_signed_min_div_minus_one(op: Bin, a: u128, b: u128, w: u32) -> bool {
    matches!(op, Bin::IntSDiv | Bin::IntSRem) && (a & mask(w)) == 1u128 << (bits(w) - 1) && (b & mask(w)) == mask(w)
}

pub fn un(op: Un, a: u128, w: u32) -> Option<u128> {
    let a = a & mask(w);
    match op {
        Un::IntNegate => Some(!a & mask(w)),
        Un::Int2Comp => Some(a.wrapping_neg() & mask(w)),
        Un::BoolNegate => {
            if a > 1 {
                None // not a boolean: outside of the reference's domain
            } else {
                Some(a ^ 1)
            }
        }
    }
}

pub fn cast(op: Cast, a: u128, w_in: u32, w_out: u32) -> u128 {
    let a = a & mask(w_in);
    match op {
        Cast::IntZExt => a & mask(w_out),
        Cast::IntSExt => from_signed(to_signed(a, w_in), w_out),
        Cast::PopCount => (a.count_ones() as u128) & mask(w_out),
        Cast::LzCount => {
            let lz = a.leading_zeros() - (128 - bits(w_in));
            (lz as u128) & mask(w_out)
        }
    }
}

/// SUBPIECE: drop `low_byte` least significant bytes, keep `size` bytes.
pub fn subpiece(a: u128, w_in: u32, low_byte: u32, size: u32) -> u128 {
    let a = a & mask(w_in);
    if low_byte >= 16 {
        0
    } else {
        (a >> (low_byte * 8)) & mask(size)
    }
}

/// Start-up self check of this table against native 8-bit arithmetic and a
/// few hand-derived golden vectors. Returns an error description on mismatch.
pub fn self_check() -> Result<u64, String> {
    let mut n = 0u64;
    for a in 0..=255u8 {
        for b in 0..=255u8 {
            let (ua, ub) = (a as u128, b as u128);
            let (sa, sb) = (a as i8, b as i8);
            let chk = |op: Bin, want: Option<u128>| -> Result<(), String> {
                let got = bin(op, ua, 1, ub, 1);
                if got != want {
                    Err(format!("refsem self-check {op:?}({a:#x},{b:#x}) = {got:?}, native says {want:?}"))
                } else {
                    Ok(())
                }
            };
            chk(Bin::IntAdd, Some(a.wrapping_add(b) as u128))?;
            chk(Bin::IntSub, Some(a.wrapping_sub(b) as u128))?;
            chk(Bin::IntCarry, Some(a.overflowing_add(b).1 as u128))?;
            chk(Bin::IntSCarry, Some(sa.overflowing_add(sb).1 as u128))?;
            chk(Bin::IntSBorrow, Some(sa.overflowing_sub(sb).1 as u128))?;
            chk(Bin::IntMult, Some(a.wrapping_mul(b) as u128))?;
            chk(Bin::IntLess, Some((a < b) as u128))?;
            chk(Bin::IntSLess, Some((sa < sb) as u128))?;
            chk(Bin::IntLessEqual, Some((a <= b) as u128))?;
            chk(Bin::IntSLessEqual, Some((sa <= sb) as u128))?;
            chk(Bin::IntDiv, a.checked_div(b).map(|v| v as u128))?;
            chk(Bin::IntRem, a.checked_rem(b).map(|v| v as u128))?;
            chk(Bin::IntSDiv, if b == 0 { None } else { Some(sa.wrapping_div(sb) as u8 as u128) })?;
            chk(Bin::IntSRem, if b == 0 { None } else { Some(sa.wrapping_rem(sb) as u8 as u128) })?;
            chk(Bin::IntLeft, Some(if b >= 8 { 0 } else { (a << b) as u128 }))?;
            chk(Bin::IntRight, Some(if b >= 8 { 0 } else { (a >> b) as u128 }))?;
            chk(Bin::IntSRight, Some(if b >= 8 { if sa < 0 { 0xff } else { 0 } } else { (sa >> b) as u8 as u128 }))?;
            chk(Bin::Piece, Some(((a as u128) << 8) | b as u128))?;
            n += 19;
        }
        let ua = a as u128;
        if cast(Cast::IntSExt, ua, 1, 4) != (a as i8 as i32 as u32 as u128)
            || cast(Cast::IntZExt, ua, 1, 4) != a as u128
            || cast(Cast::PopCount, ua, 1, 1) != a.count_ones() as u128
            || cast(Cast::LzCount, ua, 1, 1) != a.leading_zeros() as u128
            || un(Un::Int2Comp, ua, 1) != Some((a as i8).wrapping_neg() as u8 as u128)
            || un(Un::IntNegate, ua, 1) != Some(!a as u128)
        {
            return Err(format!("refsem self-check unary/cast mismatch at {a:#x}"));
        }
        n += 6;
    }
    // golden vectors derived by hand
    let golden: [(Bin, u128, u128, u32, u128); 10] = [
        (Bin::IntSBorrow, 0x7f, 0x80, 1, 1),
        (Bin::IntSBorrow, 0xfe, 0xff, 1, 0),
        (Bin::IntSBorrow, 0x80, 0x01, 1, 1),
        (Bin::IntSCarry, 0x7f, 0x01, 1, 1),
        (Bin::IntSCarry, 0x80, 0x80, 1, 1),
        (Bin::IntCarry, 0xffff_ffff, 1, 4, 1),
        (Bin::IntSLess, 0x8000_0000, 0, 4, 1),
        (Bin::IntSRight, 0x8000_0000_0000_0000, 63, 8, 0xffff_ffff_ffff_ffff),
        (Bin::IntSDiv, 0xf9, 0x02, 1, 0xfd), // -7 / 2 = -3
        (Bin::IntSRem, 0xf9, 0x02, 1, 0xff), // -7 % 2 = -1
    ];
    for (op, a, b, w, want) in golden {
        if bin(op, a, w, b, w) != Some(want) {
            return Err(format!("refsem golden vector {op:?}({a:#x},{b:#x}) w={w}"));
        }
        n += 1;
    }
    // 16 byte sanity
    if bin(Bin::IntCarry, u128::MAX, 16, 1, 16) != Some(1) || to_signed(u128::MAX, 16) != -1 {
        return Err("refsem 16-byte sanity".into());
    }
    if subpiece(0x1122_3344, 4, 1, 2) != 0x2233 {
        return Err("refsem subpiece sanity".into());
    }
    Ok(n)
}

/// The boundary alphabet B(w) of DESIGN.md: about 30–40 values per width.
pub fn boundary_values(w: u32) -> Vec<u128> {
    let m = mask(w);
    let mut v: Vec<u128> = vec![0, 1, 2, 3];
    for k in [7u32, 8, 15, 16, 31, 32, 63, 64, 127] {
        if k < bits(w) {
            let p = 1u128 << k;
            v.extend([p - 1, p, p + 1]);
        }
    }
    let smin = 1u128 << (bits(w) - 1);
    v.extend([smin, smin + 1, smin.wrapping_sub(1), smin.wrapping_sub(2)]);
    v.extend([m, m - 1, m - 2]);
    // two "plain" values
    v.push(0x5a5a_5a5a_5a5a_5a5a_5a5a_5a5a_5a5a_5a5a & m);
    v.push(0x1234_5678_9abc_def0_0fed_cba9_8765_4321 & m);
    for x in v.iter_mut() {
        *x &= m;
    }
    v.sort();
    v.dedup();
    v
}

/// Canonical key of a floating point (uninterpreted) operation, accepting both the
/// P-Code mnemonic (`FLOAT_NEG`, `INT2FLOAT`) and CamelCase spellings (`FloatNegate`).
pub fn float_key(name: &str) -> String {
    let n: String = name.chars().filter(|c| *c != '_').collect::<String>().to_lowercase();
    match n.as_str() {
        "floatneg" => "floatnegate".to_string(),
        "ceil" => "floatceil".to_string(),
        "floor" => "floatfloor".to_string(),
        "round" => "floatround".to_string(),
        _ => n,
    }
}
