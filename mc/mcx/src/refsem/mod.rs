//! Independent reference semantics. Nothing in here uses cwe_checker code.
pub mod ops;
