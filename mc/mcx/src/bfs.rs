//! Explicit-state breadth-first search over operation histories.
//! Each transition calls the real code (through `step`); states are
//! de-duplicated by a caller-supplied canonical key.

use std::collections::BTreeMap;

pub struct BfsStats {
    pub states: u64,
    pub transitions: u64,
    pub max_depth: usize,
    pub per_depth: Vec<u64>,
}

/// `step(state, action)` returns the successor (or `None` if the action is not
/// enabled); `visit(state, history)` is called once for every distinct state
/// (including the initial ones) and for every transition via `on_transition`.
pub fn bfs<S: Clone, K: Ord + Clone, A: Clone>(
    init: Vec<S>,
    key: impl Fn(&S) -> K,
    actions: impl Fn(&S) -> Vec<A>,
    mut step: impl FnMut(&S, &A, &[A]) -> Option<S>,
    mut visit: impl FnMut(&S, &[A]),
    max_depth: usize,
    max_states: u64,
) -> (BfsStats, bool) {
    let mut seen: BTreeMap<K, ()> = BTreeMap::new();
    let mut frontier: Vec<(S, Vec<A>)> = Vec::new();
    let mut stats = BfsStats { states: 0, transitions: 0, max_depth: 0, per_depth: vec![] };
    for s in init {
        let k = key(&s);
        if seen.insert(k, ()).is_none() {
            visit(&s, &[]);
            stats.states += 1;
            frontier.push((s, Vec::new()));
        }
    }
    stats.per_depth.push(stats.states);
    let mut capped = false;
    for depth in 1..=max_depth {
        let mut next = Vec::new();
        for (s, hist) in &frontier {
            for a in actions(s) {
                if let Some(n) = step(s, &a, hist) {
                    stats.transitions += 1;
                    let k = key(&n);
                    if seen.insert(k, ()).is_none() {
                        let mut h = hist.clone();
                        h.push(a.clone());
                        visit(&n, &h);
                        stats.states += 1;
                        if stats.states >= max_states {
                            capped = true;
                        } else {
                            next.push((n, h));
                        }
                    }
                }
            }
        }
        stats.per_depth.push(next.len() as u64);
        if next.is_empty() {
            break;
        }
        stats.max_depth = depth;
        frontier = next;
        if capped {
            break;
        }
    }
    (stats, capped)
}
