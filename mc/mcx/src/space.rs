//! Finite index spaces: an element of a product / sequence space is addressed
//! by one `u64` index (index <-> element bijection), so that work can be
//! sharded by index range and a replay only needs the decoded element.

/// Decode `idx` in the mixed-radix system `dims` (least significant first).
pub fn decode(mut idx: u64, dims: &[u64]) -> Vec<usize> {
    let mut out = Vec::with_capacity(dims.len());
    for d in dims {
        out.push((idx % d) as usize);
        idx /= d;
    }
    out
}

/// Size of the product space.
pub fn size(dims: &[u64]) -> u64 {
    dims.iter().fold(1u64, |a, d| a.checked_mul(*d).expect("space too large"))
}

/// Number of sequences over an alphabet of `k` letters with length in `0..=max_len`.
pub fn seq_count(k: u64, max_len: u32) -> u64 {
    (0..=max_len).map(|l| k.pow(l)).sum()
}

/// Decode the `idx`-th sequence (shorter sequences first, then lexicographic).
pub fn seq_decode(mut idx: u64, k: u64, max_len: u32) -> Vec<usize> {
    for l in 0..=max_len {
        let n = k.pow(l);
        if idx < n {
            let mut out = vec![0usize; l as usize];
            for p in (0..l as usize).rev() {
                out[p] = (idx % k) as usize;
                idx /= k;
            }
            return out;
        }
        idx -= n;
    }
    panic!("sequence index out of range");
}

/// All permutations of `0..n` (Heap's algorithm, deterministic order).
pub fn permutations(n: usize) -> Vec<Vec<usize>> {
    fn rec(k: usize, a: &mut Vec<usize>, out: &mut Vec<Vec<usize>>) {
        if k <= 1 {
            out.push(a.clone());
            return;
        }
        for i in 0..k {
            rec(k - 1, a, out);
            if k % 2 == 0 {
                a.swap(i, k - 1);
            } else {
                a.swap(0, k - 1);
            }
        }
    }
    let mut a: Vec<usize> = (0..n).collect();
    let mut out = Vec::new();
    rec(n, &mut a, &mut out);
    out.sort();
    out
}

/// All subsets of `0..n` as bit masks, smallest first.
pub fn subsets(n: usize) -> impl Iterator<Item = u32> {
    0..(1u32 << n)
}
