//! `mcx` — the small in-house engine shared by all property checks.
//!
//! * [`Ctx`]: argument parsing (tier / replay), counters, sample collection,
//!   violation collection, known-findings matching, evidence + replay writer,
//!   `VIOLATION` / `KNOWN-FINDING` printing and the exit-code contract
//!   (0 = held, 1 = violation, 2 = machinery error).
//! * [`par_for`]: deterministic sharding of an index space over worker threads.
//! * [`catch`]: run real code under `catch_unwind` with a silent panic hook
//!   that records message and location.
//! * [`space`]: tiny helpers to enumerate finite products / sequences.
//! * [`bfs`]: explicit-state breadth-first search with canonical-state dedup.
//! * [`refsem`]: independent reference semantics (P-Code integer ops, ...).

pub mod bfs;
pub mod refsem;
pub mod space;

use serde_json::{json, Map, Value};
use std::collections::{BTreeMap, BTreeSet};
use std::panic::{self, AssertUnwindSafe};
use std::sync::atomic::{AtomicU64, Ordering};
use std::sync::Mutex;
use std::time::Instant;

pub const VERIF_ROOT: &str = "/verif";

/// Where evidence/ and replays/ are written (default `/verif`; the mutation
/// runner redirects it so that runs against a patched scratch copy never touch
/// the real evidence).
pub fn out_root() -> String {
    std::env::var("VERIF_OUT_DIR").unwrap_or_else(|_| VERIF_ROOT.to_string())
}

#[derive(Clone, Copy, PartialEq, Eq, Debug)]
pub enum Tier {
    Quick,
    Thorough,
}

#[derive(Clone, Debug)]
pub struct Violation {
    /// Stable, human readable identification of *what* failed (operation,
    /// call site, class). Known findings are matched against `key`.
    pub key: String,
    /// The input / history / schedule, sufficient for `--replay`.
    pub case: Value,
    /// Observed vs. expected etc.
    pub detail: Value,
}

pub struct Ctx {
    pub id: String,
    pub tier: Tier,
    pub seed: i64,
    replay: Option<Value>,
    start: Instant,
    evaluations: AtomicU64,
    states: AtomicU64,
    transitions: AtomicU64,
    nontrivial: AtomicU64,
    outcomes: Vec<Mutex<BTreeSet<u64>>>,
    samples: Mutex<Vec<Value>>,
    sample_counter: AtomicU64,
    violations: Mutex<Vec<Violation>>,
    violation_total: AtomicU64,
    per_key: Mutex<BTreeMap<String, u64>>,
    extra: Mutex<Map<String, Value>>,
    assumptions: Mutex<Vec<String>>,
    stats: std::sync::RwLock<BTreeMap<String, AtomicU64>>,
    caps_hit: Mutex<Vec<String>>,
}

const MAX_KEPT_VIOLATIONS: usize = 4000;
const MAX_REPLAY_FILES: usize = 40;
const MAX_KEPT_PER_KEY: u64 = 25;
const MAX_SAMPLES: usize = 12;
const OUTCOME_SHARDS: usize = 64;
const MAX_OUTCOMES_PER_SHARD: usize = 40_000;

impl Ctx {
    /// Parse `argv`: `[quick|thorough] [--replay FILE]`. Tier can also come
    /// from `VERIF_TIER`, seed from `VERIF_SEED`.
    pub fn new(id: &str) -> Ctx {
        // anyhow captures a backtrace for every Err when RUST_BACKTRACE is set (very slow in sweeps)
        if std::env::var_os("RUST_LIB_BACKTRACE").is_none() {
            std::env::set_var("RUST_LIB_BACKTRACE", "0");
        }
        install_quiet_panic_hook();
        let args: Vec<String> = std::env::args().skip(1).collect();
        let mut tier = match std::env::var("VERIF_TIER").ok().as_deref() {
            Some("thorough") => Tier::Thorough,
            _ => Tier::Quick,
        };
        let mut replay = None;
        let mut i = 0;
        while i < args.len() {
            match args[i].as_str() {
                "quick" => tier = Tier::Quick,
                "thorough" => tier = Tier::Thorough,
                "--replay" => {
                    i += 1;
                    let path = args.get(i).unwrap_or_else(|| machinery("--replay needs a file"));
                    let text = std::fs::read_to_string(path)
                        .unwrap_or_else(|e| machinery(&format!("cannot read replay {path}: {e}")));
                    let v: Value = serde_json::from_str(&text)
                        .unwrap_or_else(|e| machinery(&format!("bad replay json {path}: {e}")));
                    let case = v.get("case").cloned().unwrap_or(v);
                    replay = Some(case);
                }
                other => machinery(&format!("unknown argument {other}")),
            }
            i += 1;
        }
        let seed = std::env::var("VERIF_SEED")
            .ok()
            .and_then(|s| s.parse::<i64>().ok())
            .unwrap_or(0);
        Ctx {
            id: id.to_string(),
            tier,
            seed,
            replay,
            start: Instant::now(),
            evaluations: AtomicU64::new(0),
            states: AtomicU64::new(0),
            transitions: AtomicU64::new(0),
            nontrivial: AtomicU64::new(0),
            outcomes: (0..OUTCOME_SHARDS).map(|_| Mutex::new(BTreeSet::new())).collect(),
            samples: Mutex::new(Vec::new()),
            sample_counter: AtomicU64::new(0),
            violations: Mutex::new(Vec::new()),
            violation_total: AtomicU64::new(0),
            per_key: Mutex::new(BTreeMap::new()),
            extra: Mutex::new(Map::new()),
            assumptions: Mutex::new(Vec::new()),
            stats: std::sync::RwLock::new(BTreeMap::new()),
            caps_hit: Mutex::new(Vec::new()),
        }
    }

    pub fn thorough(&self) -> bool {
        self.tier == Tier::Thorough
    }
    /// `Some(case)` when invoked with `--replay`.
    pub fn replay_case(&self) -> Option<&Value> {
        self.replay.as_ref()
    }
    pub fn elapsed_s(&self) -> f64 {
        self.start.elapsed().as_secs_f64()
    }

    /// Distinct inputs / states enumerated.
    pub fn add_states(&self, n: u64) {
        self.states.fetch_add(n, Ordering::Relaxed);
    }
    /// Real-code evaluations (each one compared with the oracle).
    pub fn add_transitions(&self, n: u64) {
        self.transitions.fetch_add(n, Ordering::Relaxed);
        self.evaluations.fetch_add(n, Ordering::Relaxed);
    }
    /// Evaluations that are not real-code calls (e.g. oracle-side member checks).
    pub fn add_evaluations(&self, n: u64) {
        self.evaluations.fetch_add(n, Ordering::Relaxed);
    }
    /// Distinct cases that are non-trivial by the check's stated rule.
    pub fn add_nontrivial(&self, n: u64) {
        self.nontrivial.fetch_add(n, Ordering::Relaxed);
    }
    /// Record an observed outcome (hashed); the number of distinct outcomes is
    /// reported, and a run with a single outcome is flagged as vacuous.
    pub fn outcome<H: std::hash::Hash>(&self, h: &H) {
        let v = fixed_hash(h);
        let mut set = self.outcomes[(v % OUTCOME_SHARDS as u64) as usize].lock().unwrap();
        if set.len() < MAX_OUTCOMES_PER_SHARD {
            set.insert(v);
        }
    }
    fn distinct_outcomes(&self) -> u64 {
        self.outcomes.iter().map(|s| s.lock().unwrap().len() as u64).sum()
    }
    /// Named statistic counters (reported under coverage.stats).
    pub fn stat(&self, name: &str, n: u64) {
        if let Some(c) = self.stats.read().unwrap().get(name) {
            c.fetch_add(n, Ordering::Relaxed);
            return;
        }
        self.stats.write().unwrap().entry(name.to_string()).or_insert_with(|| AtomicU64::new(0)).fetch_add(n, Ordering::Relaxed);
    }
    pub fn stat_max(&self, name: &str, n: u64) {
        if let Some(c) = self.stats.read().unwrap().get(name) {
            c.fetch_max(n, Ordering::Relaxed);
            return;
        }
        self.stats.write().unwrap().entry(name.to_string()).or_insert_with(|| AtomicU64::new(0)).fetch_max(n, Ordering::Relaxed);
    }
    fn stats_snapshot(&self) -> BTreeMap<String, u64> {
        self.stats.read().unwrap().iter().map(|(k, v)| (k.clone(), v.load(Ordering::Relaxed))).collect()
    }
    /// Keep a few actual cases for the evidence file. Cheap to call often:
    /// `make` is only evaluated when the sample is kept.
    pub fn sample<F: FnOnce() -> Value>(&self, make: F) {
        let n = self.sample_counter.fetch_add(1, Ordering::Relaxed);
        // keep cases number 0,1,2 and then 10,100,1000,... (spread over the space)
        let keep = n < 3 || (n >= 10 && is_power_of_ten(n));
        if keep {
            let mut s = self.samples.lock().unwrap();
            if s.len() < MAX_SAMPLES {
                s.push(make());
            }
        }
    }
    pub fn set(&self, key: &str, v: Value) {
        self.extra.lock().unwrap().insert(key.to_string(), v);
    }
    pub fn assume(&self, text: &str) {
        let mut a = self.assumptions.lock().unwrap();
        if !a.iter().any(|t| t == text) {
            a.push(text.to_string());
        }
    }
    pub fn cap_hit(&self, text: &str) {
        self.caps_hit.lock().unwrap().push(text.to_string());
    }

    pub fn violation(&self, key: impl Into<String>, case: Value, detail: Value) {
        self.violation_total.fetch_add(1, Ordering::Relaxed);
        let key = key.into();
        let mut v = self.violations.lock().unwrap();
        let mut per_key = self.per_key.lock().unwrap();
        let n = per_key.entry(key.clone()).or_insert(0);
        *n += 1;
        if v.len() < MAX_KEPT_VIOLATIONS && *n <= MAX_KEPT_PER_KEY {
            v.push(Violation { key, case, detail });
        }
    }
    pub fn violation_count(&self) -> u64 {
        self.violation_total.load(Ordering::Relaxed)
    }

    /// Write evidence, replays, print verdict lines and exit.
    /// `rule` explains how cases are enumerated and what counts as non-trivial.
    pub fn finish(&self, rule: &str, exhaustive: bool) -> ! {
        let wall = self.elapsed_s();
        let mut violations = self.violations.lock().unwrap().clone();
        violations.sort_by(|a, b| a.key.cmp(&b.key).then_with(|| a.case.to_string().cmp(&b.case.to_string())));
        let known = load_known_findings(&self.id);
        let mut matched: BTreeMap<usize, u64> = BTreeMap::new();
        let mut fresh: Vec<&Violation> = Vec::new();
        for v in &violations {
            let mut hit = None;
            for (i, k) in known.iter().enumerate() {
                if k.status == "finding" && k.regex.is_match(&v.key) {
                    hit = Some(i);
                    break;
                }
            }
            match hit {
                Some(i) => *matched.entry(i).or_insert(0) += 1,
                None => fresh.push(v),
            }
        }
        let states = self.states.load(Ordering::Relaxed);
        let transitions = self.transitions.load(Ordering::Relaxed);
        let evaluations = self.evaluations.load(Ordering::Relaxed);
        let nontrivial = self.nontrivial.load(Ordering::Relaxed);
        let distinct_outcomes = self.distinct_outcomes();
        let samples = self.samples.lock().unwrap().clone();
        let replaying = self.replay.is_some();

        // replay files for fresh violations
        let mut lines = Vec::new();
        let dir = format!("{}/replays/{}", out_root(), self.id);
        if !fresh.is_empty() && !replaying {
            let _ = std::fs::remove_dir_all(&dir);
            std::fs::create_dir_all(&dir).ok();
        }
        // one replay per distinct key first, so that every class is represented
        let mut seen_keys = BTreeSet::new();
        let mut ordered: Vec<&Violation> = Vec::new();
        for v in &fresh {
            if seen_keys.insert(v.key.clone()) {
                ordered.push(v);
            }
        }
        for v in &fresh {
            if ordered.len() >= MAX_REPLAY_FILES {
                break;
            }
            if !ordered.iter().any(|o| std::ptr::eq(*o, *v)) {
                ordered.push(v);
            }
        }
        for (n, v) in ordered.iter().take(MAX_REPLAY_FILES).enumerate() {
            let body = json!({"property": self.id, "key": v.key, "case": v.case, "detail": v.detail});
            if replaying {
                lines.push(format!("VIOLATION property={} replay=(replayed) key={}", self.id, v.key));
            } else {
                let path = format!("{dir}/{:03}.json", n);
                std::fs::write(&path, serde_json::to_string_pretty(&body).unwrap())
                    .unwrap_or_else(|e| machinery(&format!("cannot write {path}: {e}")));
                lines.push(format!("VIOLATION property={} replay={} key={}", self.id, path, v.key));
            }
        }

        let mut coverage = Map::new();
        coverage.insert("states".into(), json!(states.max(0)));
        coverage.insert("transitions".into(), json!(transitions));
        coverage.insert("traces_validated_against_impl".into(), json!(transitions));
        coverage.insert("evaluations".into(), json!(evaluations.max(transitions)));
        coverage.insert("distinct_nontrivial".into(), json!(nontrivial));
        coverage.insert("distinct_observed_outcomes".into(), json!(distinct_outcomes));
        coverage.insert("rule".into(), json!(rule));
        coverage.insert("exhaustive".into(), json!(exhaustive && self.caps_hit.lock().unwrap().is_empty()));
        coverage.insert("samples".into(), json!(samples));
        coverage.insert("caps_hit".into(), json!(*self.caps_hit.lock().unwrap()));
        coverage.insert("stats".into(), json!(self.stats_snapshot()));
        coverage.insert(
            "known_findings_matched".into(),
            json!(matched.iter().map(|(i, n)| json!({"what": known[*i].what, "violations": n})).collect::<Vec<_>>()),
        );
        for (k, v) in self.extra.lock().unwrap().iter() {
            coverage.insert(k.clone(), v.clone());
        }
        let level = self
            .extra
            .lock()
            .unwrap()
            .get("level")
            .and_then(|v| v.as_str().map(|s| s.to_string()))
            .unwrap_or_else(|| "model_checking".to_string());
        coverage.remove("level");
        let evidence = json!({
            "property_id": self.id,
            "tier": if self.tier == Tier::Thorough { "thorough" } else { "quick" },
            "seed": self.seed,
            "level": level,
            "coverage": Value::Object(coverage),
            "assumptions": *self.assumptions.lock().unwrap(),
            "wall_s": wall,
            "violations": fresh.len(),
        });
        if !replaying {
            let path = format!("{}/evidence/{}.json", out_root(), self.id);
            std::fs::create_dir_all(format!("{}/evidence", out_root())).ok();
            std::fs::write(&path, serde_json::to_string_pretty(&evidence).unwrap() + "\n")
                .unwrap_or_else(|e| machinery(&format!("cannot write {path}: {e}")));
        }

        println!(
            "{}: tier={:?} states={} transitions={} evaluations={} nontrivial={} distinct_outcomes={} violations_total={} wall={:.1}s",
            self.id, self.tier, states, transitions, evaluations.max(transitions), nontrivial, distinct_outcomes,
            self.violation_total.load(Ordering::Relaxed), wall
        );
        for (k, v) in self.stats_snapshot().iter() {
            println!("  stat {k} = {v}");
        }
        for c in self.caps_hit.lock().unwrap().iter() {
            println!("  CAP HIT: {c}");
        }
        for (i, n) in &matched {
            println!("KNOWN-FINDING: property={} {} ({} matching violations)", self.id, known[*i].what, n);
        }
        for l in &lines {
            println!("{l}");
        }
        if !fresh.is_empty() {
            if fresh.len() > lines.len() {
                println!("  ... {} violations kept in total ({} counted), first {} written as replays", fresh.len(), self.violation_total.load(Ordering::Relaxed), lines.len());
            }
            std::process::exit(1);
        }
        if !replaying {
            if transitions == 0 {
                machinery("vacuous run: no real-code evaluations were made");
            }
            if distinct_outcomes == 1 {
                machinery("vacuous run: all executions produced one identical outcome");
            }
        }
        println!("{}: OK", self.id);
        std::process::exit(0);
    }
}

fn is_power_of_ten(mut n: u64) -> bool {
    while n % 10 == 0 {
        n /= 10;
    }
    n == 1
}

/// Machinery failure: exit code 2, never a verdict.
pub fn machinery(msg: &str) -> ! {
    eprintln!("MACHINERY-ERROR: {msg}");
    std::process::exit(2);
}

struct Known {
    status: String,
    regex: regex::Regex,
    what: String,
}

fn load_known_findings(id: &str) -> Vec<Known> {
    let path = format!("{VERIF_ROOT}/known_findings.json");
    let Ok(text) = std::fs::read_to_string(&path) else {
        return Vec::new();
    };
    let v: Value = serde_json::from_str(&text).unwrap_or_else(|e| machinery(&format!("bad known_findings.json: {e}")));
    let mut out = Vec::new();
    for e in v.get("entries").and_then(|e| e.as_array()).cloned().unwrap_or_default() {
        if e.get("property").and_then(|p| p.as_str()) != Some(id) {
            continue;
        }
        let status = e.get("status").and_then(|s| s.as_str()).unwrap_or("finding").to_string();
        let m = e.get("match").and_then(|s| s.as_str()).unwrap_or("$^");
        let regex = regex::Regex::new(m).unwrap_or_else(|e| machinery(&format!("bad regex in known_findings: {e}")));
        let what = e.get("what").and_then(|s| s.as_str()).unwrap_or("").to_string();
        out.push(Known { status, regex, what });
    }
    out
}

/// A process-independent hash (std's `DefaultHasher::new()` uses fixed keys).
pub fn fixed_hash<H: std::hash::Hash>(h: &H) -> u64 {
    use std::hash::Hasher;
    #[allow(deprecated)]
    let mut s = std::hash::SipHasher::new();
    h.hash(&mut s);
    s.finish()
}

thread_local! {
    static LAST_PANIC: std::cell::RefCell<Option<String>> = const { std::cell::RefCell::new(None) };
    static CATCHING: std::cell::Cell<bool> = const { std::cell::Cell::new(false) };
}

pub fn install_quiet_panic_hook() {
    static ONCE: std::sync::Once = std::sync::Once::new();
    ONCE.call_once(|| {
        let default = panic::take_hook();
        panic::set_hook(Box::new(move |info| {
            let loc = info.location().map(|l| format!("{}:{}", l.file(), l.line())).unwrap_or_default();
            let msg = if let Some(s) = info.payload().downcast_ref::<&str>() {
                s.to_string()
            } else if let Some(s) = info.payload().downcast_ref::<String>() {
                s.clone()
            } else {
                "<non-string panic>".to_string()
            };
            if CATCHING.with(|c| c.get()) {
                LAST_PANIC.with(|p| *p.borrow_mut() = Some(format!("{msg} @ {loc}")));
            } else {
                default(info);
            }
        }));
    });
}

/// Run `f` (real code) and turn a panic into `Err("message @ file:line")`.
pub fn catch<T, F: FnOnce() -> T>(f: F) -> Result<T, String> {
    install_quiet_panic_hook();
    let prev = CATCHING.with(|c| c.replace(true));
    let r = panic::catch_unwind(AssertUnwindSafe(f));
    CATCHING.with(|c| c.set(prev));
    match r {
        Ok(v) => Ok(v),
        Err(_) => Err(LAST_PANIC.with(|p| p.borrow_mut().take()).unwrap_or_else(|| "panic".into())),
    }
}

/// Strip the trailing ` @ file:line` column-free location so that keys stay
/// stable; keeps file and line.
pub fn panic_site(msg: &str) -> String {
    match msg.rfind(" @ ") {
        Some(i) => msg[i + 3..].to_string(),
        None => msg.to_string(),
    }
}

pub fn num_threads() -> usize {
    std::env::var("VERIF_THREADS")
        .ok()
        .and_then(|s| s.parse().ok())
        .unwrap_or_else(|| std::thread::available_parallelism().map(|n| n.get()).unwrap_or(4))
}

/// Run `f(i)` for every `i in 0..n` on worker threads; chunks of `chunk`
/// consecutive indices are handed out dynamically. `f` must be deterministic
/// per index; all shared effects go through `Ctx` (order-insensitive).
pub fn par_for<F: Fn(u64) + Sync>(n: u64, chunk: u64, f: F) {
    let next = AtomicU64::new(0);
    let chunk = chunk.max(1);
    let threads = num_threads().min(((n + chunk - 1) / chunk).max(1) as usize);
    std::thread::scope(|s| {
        for _ in 0..threads {
            s.spawn(|| loop {
                let lo = next.fetch_add(chunk, Ordering::Relaxed);
                if lo >= n {
                    break;
                }
                let hi = (lo + chunk).min(n);
                for i in lo..hi {
                    f(i);
                }
            });
        }
    });
}

/// Like [`par_for`] but every worker owns a local accumulator that is handed
/// to `merge` when the worker finishes.
pub fn par_fold<A: Send, I: Fn() -> A + Sync, F: Fn(&mut A, u64) + Sync, M: Fn(A) + Sync>(
    n: u64,
    chunk: u64,
    init: I,
    f: F,
    merge: M,
) {
    let next = AtomicU64::new(0);
    let chunk = chunk.max(1);
    let threads = num_threads().min(((n + chunk - 1) / chunk).max(1) as usize);
    std::thread::scope(|s| {
        for _ in 0..threads {
            s.spawn(|| {
                let mut acc = init();
                loop {
                    let lo = next.fetch_add(chunk, Ordering::Relaxed);
                    if lo >= n {
                        break;
                    }
                    let hi = (lo + chunk).min(n);
                    for i in lo..hi {
                        f(&mut acc, i);
                    }
                }
                merge(acc);
            });
        }
    });
}
